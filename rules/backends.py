"""Backends (tea-core/src/backends_impl): fast-path skeletons, accessor pass-through (API)."""
from facts import (src, loc, walk, children, callee_is, callee, peel, is_local, _pat_binds,
                   strip_generics, resolved_is)

ROLL = ['rolling_custom', 'rolling_apply', 'rolling2_apply', 'rolling_apply_idx',
        'rolling2_apply_idx']

RULES = {
    'INIT.skeleton': 'a rolling override is either a pure delegation with the arguments in '
                     'order, or: out-buffer arm -> `<name>_to(args, out)`; otherwise '
                     '`O::uninit(self.len())`, the same `<name>_to(args, uninit_ref_mut(&mut out))`, '
                     '`assume_init()` on that same buffer',
    'API.override': 'a backend overrides only accessors and the rolling fast paths; no '
                    'statistic is re-implemented per backend',
    'API.pass': 'each accessor passes its index / range arguments unchanged to the '
                'container\'s own accessor and `len` is the container\'s own length',
    'API.slice-order': 'try_as_slice returns the elements in logical order',
    'API.nobranch': 'generic algorithms do not branch on the backend name',
}


def vec1view_impl_fns(F):
    return [f for f in F.fns if f.kind == 'AssocFn' and f.impl_trait and
            strip_generics(f.impl_trait).endswith('Vec1View')]


def _param_names(fn):
    out = []
    for p in fn.params:
        bs = _pat_binds(p)
        out.append(bs[0]['name'] if bs else '_')
    return out


def check_fast_paths(run, F):
    run.rule('INIT.skeleton', RULES['INIT.skeleton'])
    n = 0
    for fn in vec1view_impl_fns(F):
        if fn.name not in ROLL:
            continue
        n += 1
        key = '%s for %s' % (fn.name, fn.impl_self)
        params = _param_names(fn)          # self, [other], window, f, out
        lead = params[1:-1]
        body = peel(fn.hir)
        # delegation?
        tail = body
        if tail.get('k') == 'Block' and not tail.get('stmts') and 'expr' in tail:
            tail = peel(tail['expr'])
        if tail.get('k') == 'MethodCall' and tail['method'] == fn.name and \
                callee_is(tail, 'Vec1View::' + fn.name):
            a = [src(peel(x)) for x in tail['ch'][1:]]
            recv = src(peel(tail['ch'][0]))
            ok = a == params[1:] and recv.replace('*', '').replace('(', '').replace(')', '') \
                .replace('&', '') in ('self', 'self.0', 'self.view')
            run.ob('INIT.skeleton', fn, key + ' [delegation]', ok, fn.loc(),
                   'delegates `%s.%s(%s)`' % (recv, fn.name, ', '.join(a)))
            continue
        ok, why = _skeleton(fn, body, lead)
        run.ob('INIT.skeleton', fn, key + ' [fast path]', ok, fn.loc(), why)
    floor = {'base': 15, 'nd': 15 + 15 + 5, 'full': 15 + 15 + 5}.get(F.config, 15)
    run.floor('INIT.skeleton', 'rolling overrides (config %s)' % F.config, n, floor)
    return n


def _skeleton(fn, body, lead):
    name_to = fn.name + '_to'
    if body.get('k') != 'Block':
        return False, 'body is not a block'
    stmts = body.get('stmts', [])
    len_locals = set()
    for s in stmts:
        if s['k'] == 'Let' and 'init' in s and s['pat'].get('k') == 'Binding' and \
                src(peel(s['init'])) == 'self.len()':
            len_locals.add(s['pat']['local'])
        elif s['k'] == 'Item':
            continue
        else:
            return False, 'unexpected statement before the dispatch: %s' % src(s.get('init') or s.get('e') or {})[:60]
    iff = peel(body.get('expr', {}))
    if iff.get('k') != 'If' or len(iff['ch']) != 3 or peel(iff['ch'][0]).get('k') != 'LetExpr':
        return False, 'expected `if let Some(out) = out { … } else { … }`'
    le = peel(iff['ch'][0])
    if not (is_local(peel(le['ch'][0]), 'out') and
            strip_generics(le['pat'].get('def', '')).endswith('Some')):
        return False, 'dispatch is not on the `out` argument'
    then, els = peel(iff['ch'][1]), peel(iff['ch'][2])

    def to_call(e):
        e = peel(e)
        if e.get('k') == 'MethodCall' and e['method'] == name_to and \
                callee_is(e, 'Vec1View::' + name_to) and is_local(peel(e['ch'][0]), 'self'):
            return e
        return None

    # then arm: `self.X_to(lead…, out); None`
    ts = [s for s in then.get('stmts', []) if s['k'] != 'Item']
    if len(ts) != 1 or to_call(ts[0].get('e', {})) is None:
        return False, 'out-buffer arm is not a single `self.%s(…)` call' % name_to
    c1 = to_call(ts[0]['e'])
    a1 = [src(peel(x)) for x in c1['ch'][1:]]
    if a1 != lead + ['out']:
        return False, 'out-buffer arm passes (%s), expected (%s)' % (', '.join(a1),
                                                                     ', '.join(lead + ['out']))
    if not src(peel(then.get('expr', {}))).endswith('None'):
        return False, 'out-buffer arm does not return None'
    # else arm
    es = [s for s in els.get('stmts', []) if s['k'] != 'Item']
    if len(es) != 2 or es[0]['k'] != 'Let':
        return False, 'allocating arm is not `let mut out = uninit(len); self.%s(…); Some(assume_init)`' % name_to
    alloc = peel(es[0]['init'])
    if not (alloc.get('k') == 'Call' and callee_is(alloc, 'Vec1::uninit')):
        return False, 'buffer is not allocated with `O::uninit`'
    arg = peel(alloc['ch'][1])
    if not ((arg.get('res') == 'local' and arg.get('local') in len_locals) or
            src(arg) == 'self.len()'):
        return False, 'buffer length is `%s`, not `self.len()`' % src(arg)
    buf = es[0]['pat'].get('local')
    c2 = to_call(es[1].get('e', {}))
    if c2 is None:
        return False, 'allocating arm does not call `self.%s`' % name_to
    a2 = [peel(x) for x in c2['ch'][1:]]
    if [src(x) for x in a2[:-1]] != lead:
        return False, 'allocating arm passes (%s), expected (%s, …)' % (
            ', '.join(src(x) for x in a2[:-1]), ', '.join(lead))
    last = a2[-1]
    if not (last.get('k') == 'Call' and callee_is(last, 'Vec1::uninit_ref_mut') and
            peel(last['ch'][1]).get('local') == buf):
        return False, 'kernel form does not receive a view of the freshly allocated buffer'
    fin = peel(els.get('expr', {}))
    if not (fin.get('k') == 'Call' and strip_generics(fin.get('callee', '')).endswith('Some')):
        return False, 'allocating arm does not return Some(…)'
    inner = peel(fin['ch'][1])
    while inner.get('k') == 'Block' and 'expr' in inner and not inner.get('stmts'):
        inner = peel(inner['expr'])
    if not (inner.get('k') == 'MethodCall' and inner['method'] == 'assume_init' and
            peel(inner['ch'][0]).get('local') == buf):
        return False, 'result is not `assume_init()` of the allocated buffer'
    return True, 'uninit(self.len()) -> %s(%s, buffer) -> assume_init' % (name_to, ', '.join(lead))
