"""Backends (tea-core/src/backends_impl): fast-path skeletons, accessor pass-through (API)."""
from facts import (src, loc, walk, children, callee_is, callee, peel, is_local, _pat_binds,
                   strip_generics, resolved_is)

ROLL = ['rolling_custom', 'rolling_apply', 'rolling2_apply', 'rolling_apply_idx',
        'rolling2_apply_idx']

RULES = {
    'INIT.skeleton': 'a rolling override is either a pure delegation with the arguments in '
                     'order, or: out-buffer arm -> `<name>_to(args, out)`; otherwise '
                     '`O::uninit(self.len())`, the same `<name>_to(args, uninit_ref_mut(&mut out))`, '
                     '`assume_init()` on that same buffer',
    'API.override': 'a backend overrides only accessors and the rolling fast paths; no '
                    'statistic is re-implemented per backend',
    'API.pass': 'each accessor passes its index / range arguments unchanged to the '
                'container\'s own accessor and `len` is the container\'s own length',
    'API.slice-order': 'try_as_slice returns the elements in logical order',
    'API.nobranch': 'generic algorithms do not branch on the backend name',
    'API.write': 'a backend writes slot i of an output buffer through the container\'s own indexed '
                 'mutable accessor with the index unchanged (never by raw pointer arithmetic, which '
                 'ignores strides and ring-buffer offsets)',
}


def vec1view_impl_fns(F):
    return [f for f in F.fns if f.kind == 'AssocFn' and f.impl_trait and
            strip_generics(f.impl_trait).endswith('Vec1View')]


def _param_names(fn):
    out = []
    for p in fn.params:
        bs = _pat_binds(p)
        out.append(bs[0]['name'] if bs else '_')
    return out


def check_fast_paths(run, F):
    run.rule('INIT.skeleton', RULES['INIT.skeleton'])
    n = 0
    for fn in vec1view_impl_fns(F):
        if fn.name not in ROLL:
            continue
        n += 1
        key = '%s for %s' % (fn.name, fn.impl_self)
        params = _param_names(fn)          # self, [other], window, f, out
        lead = params[1:-1]
        body = peel(fn.hir)
        # delegation?
        tail = body
        if tail.get('k') == 'Block' and not tail.get('stmts') and 'expr' in tail:
            tail = peel(tail['expr'])
        if tail.get('k') == 'MethodCall' and tail['method'] == fn.name and \
                callee_is(tail, 'Vec1View::' + fn.name):
            a = [src(peel(x)) for x in tail['ch'][1:]]
            recv = src(peel(tail['ch'][0]))
            ok = a == params[1:] and recv.replace('*', '').replace('(', '').replace(')', '') \
                .replace('&', '') in ('self', 'self.0', 'self.view')
            run.ob('INIT.skeleton', fn, key + ' [delegation]', ok, fn.loc(),
                   'delegates `%s.%s(%s)`' % (recv, fn.name, ', '.join(a)))
            continue
        ok, why = _skeleton(fn, body, lead)
        run.ob('INIT.skeleton', fn, key + ' [fast path]', ok, fn.loc(), why)
    floor = {'base': 15, 'nd': 15 + 15 + 5, 'full': 15 + 15 + 5}.get(F.config, 15)
    run.floor('INIT.skeleton', 'rolling overrides (config %s)' % F.config, n, floor)
    return n


def _skeleton(fn, body, lead):
    """The fast path as a decision table: with an out buffer the kernel form writes into it and
    nothing is returned; without one a buffer of self.len() uninitialised slots is allocated,
    handed to the same kernel form, and returned through assume_init."""
    import dtree
    import nullrules as N
    name_to = fn.name + '_to'
    t = N.tbl(fn)
    args = ', '.join(lead)
    want = N.T((['VALID(out)'], 'NULL', ['self.%s(%s, out)' % (name_to, args)]),
               (['!VALID(out)'], 'Some(buf.assume_init())',
                ['buf := Vec1::uninit(self.len())',
                 'self.%s(%s, Vec1::uninit_ref_mut(buf))' % (name_to, args)]))
    if not (t == want):
        return False, 'decision table %s' % dtree.show(t)
    # the calls are the trait's own kernel form on self and the output type's allocator
    calls = [x for x in walk(fn.hir) if x.get('k') == 'MethodCall' and x['method'] == name_to]
    if len(calls) != 2 or not all(callee_is(x, 'Vec1View::' + name_to) and is_local(peel(x['ch'][0]), 'self')
                                  for x in calls):
        return False, 'kernel form is not `Vec1View::%s` on self in both arms' % name_to
    allocs = [x for x in walk(fn.hir) if x.get('k') == 'Call' and callee_is(x, 'Vec1::uninit')]
    if len(allocs) != 1:
        return False, 'buffer is not allocated with `O::uninit`'
    return True, 'uninit(self.len()) -> %s(%s, buffer) -> assume_init' % (name_to, args)


WRITE_ACCESSOR = {   # container head -> its own unchecked / checked mutable accessor
    'Vec': 'get_unchecked_mut', '[T]': 'get_unchecked_mut', '[T; N]': 'get_unchecked_mut',
    'VecDeque': 'get_mut', 'ndarray': 'uget_mut',
}


def check_writes(run, F, head_of):
    """uset / uget_mut of every backend (tea-core/src/backends_impl)"""
    import dtree
    import nullrules as N
    run.rule('API.write', RULES['API.write'])
    n = 0
    for fn in F.fns:
        if fn.kind != 'AssocFn' or not fn.impl_trait or not fn.file.startswith('tea-core/src/backends_impl') \
                or fn.name not in ('uset', 'uget_mut'):
            continue
        h = head_of(fn.impl_self)
        key = '%s::%s for %s' % (strip_generics(fn.impl_trait).split('::')[-1], fn.name, N._short(fn.impl_self)[:50])
        t = N.tbl(fn)
        n += 1
        if h == 'ChunkedArray':
            ok = all(l == 'PANIC' for cs, l, ef in t)
            run.ob('API.write', fn, key, ok, fn.loc(), 'polars buffers are not written by index (unimplemented!)', trivial=True)
            continue
        acc_ = WRITE_ACCESSOR.get(h)
        params = [b['name'] for p in fn.params for b in _pat_binds(p)]
        idx = params[1] if len(params) > 1 else '?'
        if fn.name == 'uset':
            val = params[2] if len(params) > 2 else '?'
            want = N.T(([], '()', ['self.%s(%s).write(%s)' % (acc_, idx, val)]))
        else:
            want = N.T(([], 'self.%s(%s)' % (acc_, idx), []))
        ok = acc_ is not None and t == want
        # the accessor is the container's own (not this trait method again), and no raw pointers
        calls = [x for x in walk(fn.hir) if x.get('k') == 'MethodCall' and x['method'] == acc_]
        own = bool(calls) and not any(strip_generics(x.get('callee', '')).split('::')[-2:-1] in (['Vec1Mut'], ['UninitVec'])
                                      for x in calls)
        raw = [x for x in walk(fn.hir) if x.get('k') == 'MethodCall' and
               x['method'] in ('as_mut_ptr', 'as_ptr', 'add', 'offset', 'sub', 'wrapping_add') and
               ('*mut' in (x.get('ty') or '') or '*const' in (x.get('ty') or '') or x['method'].startswith('as_'))]
        run.ob('API.write', fn, key, ok and own and not raw, fn.loc(),
               'table %s%s' % (dtree.show(t), '; raw pointer arithmetic: %s' % [src(x)[:40] for x in raw] if raw else ''))
    return n
