"""C05 Rolling outputs are input-length and null exactly during warm-up.

Decided here: the min_periods gate of all 38 rolling entry points (GATE.form / GATE.dom /
GATE.intrinsic / GATE.K), every unsigned subtraction on parameters before the driver call
(GATE.sub), and the output-length obligations of the drivers (shared with C02/C10).
"""
from common import TRUSTED, ASSUME, configs, add_rules
import acc
import drivers
from kernels import find_kernels, KernelModel
from facts import walk, callee_is, src, loc, peel, is_local, _pat_binds
from C01 import expected_K


def check(run):
    add_rules(run, ['GATE.form', 'GATE.dom', 'GATE.intrinsic', 'GATE.K', 'ACC.pair', 'ACC.guard', 'ACC.order',
                    'ACC.exit', 'ACC.nocapture'])
    run.rule('GATE.sub', 'an unsigned subtraction on parameters (`window - 1`, `len - n`) before '
             'the driver call is dominated by a check that excludes underflow')
    for cfg in configs(run, extra_quick=('full',)):
        F = run.facts(cfg)
        # helpers this property stands on (rule sets owned by other properties, see common.deps)
        from common import deps as _deps
        _deps(run, F, 'isnone', 'agg_gates', 'accessors', 'wrappers', 'fast_paths')
        ks = find_kernels(F)
        if cfg == 'full':
            run.floor('GATE', 'rolling entry points (config full)', len(ks), 38)
        else:
            run.floor('GATE', 'rolling entry points', len(ks), 36)
        for k in ks:
            m = KernelModel(k)
            has_mp = any(b['name'] == 'min_periods' for p_ in k.fn.params for b in _pat_binds(p_))
            if has_mp:
                acc.check_gate(run, m, expected_K(k.name))
                # the gate reads the validity counter: it must be the number of non-null
                # elements of the window (paired +1 / -1 under the same null test)
                acc.check_acc(run, m, only_count=True)
            pre_subs(run, k)
        # the counter is only the window's valid count if the driver hands the closure the
        # element that leaves the window (or the window's first index) at the right step
        drivers.check_drivers(run, F, rules=('DRV.len', 'DRV.early', 'SEQ.len', 'DRV.args', 'DRV.iter',
                                             'DRV.cover'))
        if cfg == 'base':
            # "no panic": inside the kernels every unwrap of an element is dominated by its null test
            # (an `IsNone::unwrap` of a None aborts the whole call: no output at all)
            import nullrules as _N
            import C08 as _C08
            run.rule('NULL.unwrap', _N.RULES['NULL.unwrap'])
            nu_ = _N.check_unwrap(run, F, tuple(f for f in _C08.FILES if f.startswith('tea-rolling/')),
                                  _C08.AUDITED_UNWRAP)
            run.floor('NULL.unwrap', 'IsNone::unwrap sites in the rolling kernels', nu_, 60)
            # past the count gate the statistic is defined: a variance floor that tests something other
            # than the variance sends a defined window to sqrt of a non-positive number (NaN = null)
            import casrules
            run.rule('VAR.floor', casrules.FLOOR_RULE)
            nf_ = casrules.check_floors(run, F, ('features.rs', 'binary.rs', 'norm.rs'))
            run.floor('VAR.floor', 'variance floors', nf_, 11)
    # every container the generic code can be instantiated with hands out its elements in logical order
    from common import dep_backends as _dep_backends
    _dep_backends(run)
    # the two fractional-difference entry points (tevec, feature `fdiff`): a value only with enough valid elements
    import fdiff
    keep_ = run.config
    fdiff.check(run, run.facts('full'))
    run.config = keep_
    return run.finish(
        'other',
        'For every rolling entry point (36 in tea-rolling, 2 in tevec behind `fdiff`): the '
        'effective min_periods has the documented form, every non-null result is '
        'control-dependent on count >= min_periods, the count itself is advanced and retired under '
        'the same null test (ACC rules restricted to the counter), count - j never underflows or divides by '
        'zero inside the gate, variance/skew/kurt clamp to 2/3/4, parameter arithmetic before '
        'the driver call cannot underflow; drivers produce exactly len outputs and pass the closure '
        'the leaving element / window start of exactly the window (DRV.args/DRV.iter/DRV.cover, as in C02). Whether a '
        'statistic is "mathematically defined" on a window is a value question and not decided.',
        ASSUME, TRUSTED,
        'instances = (entry point, gate), (entry point, n - j site), (entry point, usize '
        'subtraction) and driver length obligations')


def pre_subs(run, k):
    """usize subtractions in the statements before the driver call: the abstract evaluator
    (seq.Evaluator) splits the world at every unsigned subtraction; a feasible underflow
    world is a debug-profile panic on legal parameters."""
    import seq as S
    import lia
    fn = k.fn
    ev = S.Evaluator(fn)
    ev.run_fn()
    subs = []
    for s in fn.hir.get('stmts', []):
        e = s.get('init') or s.get('e')
        if not e:
            continue
        for x in walk(e):
            if x.get('k') == 'Closure':
                break
            if x.get('k') == 'Binary' and x['op'] == 'Sub' and x.get('ty') == 'usize':
                subs.append(x)
    bad = {id(n): W for n, W, a, b in ev.underflows}
    for x in subs:
        W = bad.get(id(x))
        run.ob('GATE.sub', fn, '`%s`' % src(x), W is None, loc(x),
               'cannot underflow (proved from the clamps before it)' if W is None else
               'underflows in the region [%s]' % '; '.join(
                   S._clean(lia.show(f)) + ' >= 0' for f in W.facts[-5:]))
