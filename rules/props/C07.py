"""C07 Results are independent of input backend, output container and out-buffer path."""
import re

from common import TRUSTED, ASSUME, configs
import backends as B
import tl
import nullrules as N
import dtree
from facts import (walk, peel, src, loc, callee_is, callee, strip_generics, _pat_binds)

ALLOWED_OVERRIDES = {'slice', 'uslice', 'uget', 'get_backend_name', 'try_as_slice', 'len', 'titer',
                     'rolling_custom', 'rolling_apply', 'rolling2_apply', 'rolling_apply_idx',
                     'rolling2_apply_idx', 'to_iter'}

# canonical accessor bodies per backend (Appendix E of DESIGN.md)
ACCESSORS = {
    # (impl self head, method): accepted canonical bodies
    ('Vec', 'uget'): ['self.get_unchecked(index)'], ('[T]', 'uget'): ['self.get_unchecked(index)'],
    ('[T; N]', 'uget'): ['self.get_unchecked(index)'],
    ('Vec', 'slice'): ['Ok(self.index(start..end))'], ('[T]', 'slice'): ['Ok(self.index(start..end))'],
    ('[T; N]', 'slice'): ['Ok(self.index(start..end))'],
    ('Vec', 'uslice'): ['Ok(self.get_unchecked(start..end))'], ('[T]', 'uslice'): ['Ok(self.get_unchecked(start..end))'],
    ('[T; N]', 'uslice'): ['Ok(self.get_unchecked(start..end))'],
    ('Vec', 'try_as_slice'): ['Some(self)'], ('[T]', 'try_as_slice'): ['Some(self)'],
    ('VecDeque', 'uget'): ['self.get(index)'], ('VecDeque', 'slice'): ['Ok(self.range(start..end))'],
    ('ndarray', 'uget'): ['self.uget(index)'],
    ('ndarray', 'try_as_slice'): ['self.as_slice()'],
    ('Arc', 'uget'): ['self.uget(index)'], ('Arc', 'slice'): ['self.slice(start, end)'],
    ('Arc', 'uslice'): ['self.uslice(start, end)'], ('Arc', 'try_as_slice'): ['self.try_as_slice()'],
    ('Arc', 'get_backend_name'): ['self.get_backend_name()'],
    ('OptIter', 'uget'): ['self.view.uget(index)'], ('OptIter', 'get_backend_name'): ['self.view.get_backend_name()'],
    ('ChunkedArray', 'uget'): ['self.get_unchecked(index)'],
}


def head_of(ty):
    ty = (ty or '').strip()
    ty = re.sub(r"^&('\w+ )?(mut )?", '', ty)
    if ty.startswith('['):
        return '[T; N]' if ';' in ty else '[T]'
    h = strip_generics(ty.split('<')[0]).split('::')[-1]
    if h in ('ArrayBase',):
        return 'ndarray'
    if h in ('Logical',):
        return 'ChunkedArray'
    return h


def check(run):
    for r in ('INIT.skeleton', 'API.override', 'API.pass', 'API.slice-order', 'API.nobranch'):
        run.rule(r, B.RULES[r])
    run.rule('TL.write', tl.RULES['TL.write'])
    run.rule('WRAP.no_out', 'every #[no_out] wrapper is `self.<name>_to(params in order, None).unwrap()`')
    run.rule('API.len', 'GetLen::len of a backend is the container\'s own length')
    run.rule('API.iter', 'TIter::titer of a backend iterates the container in logical order '
             '(iter().cloned() / into_iter() / the view mapped element-wise)')
    for cfg in configs(run, extra_quick=('nd', 'full')):
        F = run.facts(cfg)
        if cfg == 'base':
            __import__('common').pins(run, F, 'core_defaults')
            # the returned-output forms of the five window drivers (taken by the containers that do
            # not override them: option view, VecDeque, polars) against the written-output forms
            __import__('common').deps(run, F, 'drivers')
        B.check_fast_paths(run, F)
        overrides(run, F)
        accessors(run, F)
        lens_iters(run, F)
        nm = mut_slices(run, F)
        run.floor('API.slice-order', 'try_as_slice_mut impls (config %s)' % cfg, nm, {'base': 1, 'nd': 4, 'full': 4}.get(cfg, 1))
        wrappers(run, F, cfg)
        nobranch(run, F)
        nw = B.check_writes(run, F, head_of)
        run.floor('API.write', 'buffer write accessors (config %s)' % cfg, nw, {'base': 3, 'nd': 10, 'full': 10}.get(cfg, 3))
        if cfg == 'base':
            tl.check_write_trust_iter(run, F)
    # the buffers every kernel writes into / every collector returns are the backends' own, of the requested size
    from common import dep_alloc as _dep_alloc
    _dep_alloc(run, polars=True)
    return run.finish(
        'other',
        'Backends only supply accessors: every `impl Vec1View` overrides a subset of the '
        'accessor / fast-path methods; each accessor passes its index or range unchanged to '
        'the container\'s own accessor (tabled per backend), len is the container\'s len, titer '
        'its own logical-order iterator; try_as_slice is a logical-order slice (ndarray '
        'as_slice, VecDeque first half only when the second is empty); each rolling override '
        'is the uninit(len) -> *_to -> assume_init skeleton or a pure delegation and both arms '
        'call the same kernel form with the same arguments; all #[no_out] wrappers forward '
        'with None; no generic algorithm branches on the backend name; write_trust_iter tree. '
        'Element-for-element equality of std / ndarray / polars containers\' own accessors is '
        'trusted third-party behaviour.',
        ASSUME, TRUSTED + ['std Vec / slice / VecDeque, ndarray and polars accessors'],
        'instances = backend impl methods, rolling overrides, #[no_out] wrappers')


def overrides(run, F):
    n = 0
    for fn in B.vec1view_impl_fns(F):
        n += 1
        run.ob('API.override', fn, '%s for %s' % (fn.name, N._short(fn.impl_self)[:50]),
               fn.name in ALLOWED_OVERRIDES, fn.loc(), 'overridden method `%s`' % fn.name,
               trivial=True)
    run.floor('API.override', 'Vec1View impl methods (config %s)' % F.config, n,
              {'base': 30, 'nd': 70, 'full': 100}.get(F.config, 30))


def _wrapped_self_ok(fn, name):
    """a wrapper backend (Arc, OptIter) forwards `name` to the wrapped container: the call's
    Self type must not be the wrapper itself (that would be a self-recursive accessor)"""
    own = head_of(fn.impl_self)
    calls = [x for x in walk(fn.hir) if x.get('k') in ('MethodCall', 'Call') and
             strip_generics(x.get('callee', '')).endswith('::' + name)]
    return bool(calls) and all(head_of((x.get('targs') or ['?'])[0]) != own for x in calls)


def accessors(run, F):
    for fn in B.vec1view_impl_fns(F):
        if fn.name not in ('uget', 'slice', 'uslice', 'try_as_slice', 'get_backend_name'):
            continue
        h = head_of(fn.impl_self)
        t = N.tbl(fn)
        leaf = N.one_leaf(t)
        if leaf is not None:
            leaf = leaf.replace('v1::', '')
        key = '%s for %s' % (fn.name, N._short(fn.impl_self)[:50])
        if fn.name == 'get_backend_name' and h not in ('Arc', 'OptIter'):
            lit = leaf is not None and leaf.startswith('str:')
            run.ob('API.pass', fn, key, lit, fn.loc(), 'name literal %s' % leaf, trivial=True)
            continue
        want = ACCESSORS.get((h, fn.name))
        if fn.name == 'try_as_slice':
            rule = 'API.slice-order'
            if h == 'VecDeque':
                w = N.T((['self.as_slices().1.is_empty()'], 'Some(self.as_slices().0)', []),
                        (['!self.as_slices().1.is_empty()'], 'NULL', []))
                run.ob(rule, fn, key, t == w, fn.loc(), 'table %s' % dtree.show(t))
                continue
            if h in ('Vec', '[T]', '[T; N]'):
                leaf = _whole(leaf)
            ok = want is not None and leaf in want and (h != 'Arc' or _wrapped_self_ok(fn, fn.name))
            run.ob(rule, fn, key, ok, fn.loc(), 'body `%s` (accepted %s)' % (leaf or src(fn.hir)[:60], want))
            continue
        if h == 'ChunkedArray' and fn.name == 'slice':
            rows = {(frozenset(cs), l.replace('v1::', '')) for cs, l, ef in t}
            ok = len(rows) == 2 and any(cs == frozenset({'(end < start)'}) and l.startswith('Err(') for cs, l in rows) and \
                any(cs == frozenset({'(start <= end)'}) and l == 'Ok(self.slice(start, (end - start)))'
                    for cs, l in rows)
            run.ob('API.pass', fn, key, ok, fn.loc(), 'rows %s' % sorted((sorted(c), l[:50]) for c, l in rows))
            continue
        if h == 'OptIter' and fn.name == 'slice':
            ok = leaf == 'Ok(self.view.slice(start, end)?.titer().map(|a0| a0).collect_trusted_to_vec())'
            # the element map is the Option view (`to_opt`), which the canonical form erases
            maps = [x for x in walk(fn.hir) if x.get('k') == 'MethodCall' and x['method'] == 'map']
            ok = ok and len(maps) == 1 and any(y.get('k') == 'MethodCall' and callee_is(y, 'IsNone::to_opt')
                                               for y in walk(maps[0]['ch'][1]))
            run.ob('API.pass', fn, key, ok, fn.loc(), 'body `%s`' % (leaf or '')[:160])
            continue
        if h == 'ndarray' and fn.name == 'slice':
            s = src(fn.hir)
            ok = 'start..end' in s.replace(' ', '') or ('start' in s and 'end' in s and 'slice' in s)
            run.ob('API.pass', fn, key, ok, fn.loc(), s[:200])
            continue
        if want is None:
            run.ob('API.pass', fn, key, False, fn.loc(), 'no tabled accessor body for backend `%s`' % h)
            continue
        ok = leaf in want and (h not in ('Arc',) or _wrapped_self_ok(fn, fn.name))
        run.ob('API.pass', fn, key, ok, fn.loc(), 'body `%s` (accepted %s)' % (leaf or src(fn.hir)[:60], want))


SLICE_MUT = {
    # backend head -> accepted canonical bodies of Vec1Mut::try_as_slice_mut (logical order)
    'Vec': ['Some(self.as_mut_slice())', 'Some(self)'],
    '[T]': ['Some(self)'], '[T; N]': ['Some(self)', 'Some(self.as_mut_slice())'],
    'ndarray': ['self.as_slice_mut()'],
}


def _whole(leaf):
    """the whole of a Vec / slice / array as a slice, however it is spelled"""
    if leaf is None:
        return None
    for form in ('self[RangeFull{}]', 'self.as_mut_slice()', 'self.as_slice()', 'self.index(RangeFull{})',
                 'self.index_mut(RangeFull{})', 'self.deref_mut()', 'self.deref()'):
        leaf = leaf.replace(form, 'self')
    return leaf


def mut_slices(run, F):
    """Vec1Mut::try_as_slice_mut: the in-place fast paths (sort) work on this slice, so it has
    to be the logical order just like try_as_slice (ndarray: as_slice_mut, never the
    memory-order slice; VecDeque: the first half only when the second is empty)"""
    n = 0
    for fn in F.fns:
        if fn.kind != 'AssocFn' or not fn.impl_trait or fn.name != 'try_as_slice_mut' or \
                not strip_generics(fn.impl_trait).endswith('Vec1Mut'):
            continue
        h = head_of(fn.impl_self)
        t = N.tbl(fn)
        key = '%s for %s' % (fn.name, N._short(fn.impl_self)[:50])
        n += 1
        if h == 'VecDeque':
            w = N.T((['self.as_mut_slices().1.is_empty()'], 'Some(self.as_mut_slices().0)', []),
                    (['!self.as_mut_slices().1.is_empty()'], 'NULL', []))
            run.ob('API.slice-order', fn, key, t == w, fn.loc(), 'table %s' % dtree.show(t))
            continue
        leaf = N.one_leaf(t)
        leaf = leaf.replace('v1::', '') if leaf is not None else None
        want = SLICE_MUT.get(h)
        if h in ('Vec', '[T]', '[T; N]'):
            leaf = _whole(leaf)
        ok = leaf == 'NULL' or (want is not None and leaf in want) or \
            (h == 'Arc' and leaf == 'self.try_as_slice_mut()' and _wrapped_self_ok(fn, fn.name))
        run.ob('API.slice-order', fn, key, ok, fn.loc(),
               'body `%s` (accepted %s, or None)' % (leaf or src(fn.hir)[:60], want))
    return n


def lens_iters(run, F):
    for fn in F.fns:
        if fn.kind != 'AssocFn' or not fn.impl_trait or not fn.file.startswith('tea-core/src/backends_impl') \
                and not fn.file.endswith('vec_core/iter.rs'):
            continue
        tr = strip_generics(fn.impl_trait).split('::')[-1]
        key = '%s::%s for %s' % (tr, fn.name, N._short(fn.impl_self)[:50])
        h = head_of(fn.impl_self)
        t = N.tbl(fn)
        leaf = N.one_leaf(t)
        if tr == 'GetLen' and fn.name == 'len':
            ok = leaf in ('self.len()', 'self.view.len()', 'vec::N', 'N')
            if leaf == 'self.len()':
                # the container's own length, not this very method: the receiver type differs
                # from the implementing type or the call is an inherent method
                calls = [x for x in walk(fn.hir) if (x.get('k') == 'MethodCall' and x['method'] == 'len') or
                         (x.get('k') == 'Call' and strip_generics(x.get('callee') or '').split('::')[-1] == 'len')]
                ok = ok and len(calls) == 1 and not strip_generics(calls[0].get('callee', '')).endswith('GetLen::len') \
                    or ok and len(calls) == 1 and head_of((calls[0].get('targs') or ['?'])[0]) != h
            run.ob('API.len', fn, key, ok, fn.loc(), 'body `%s`' % leaf)
        if tr == 'TIter' and fn.name == 'titer':
            ok = leaf in ('self.iter().cloned()', 'self.titer()', 'self.into_iter()',
                          'self.view.titer().map(|a0| a0)', 'self.into_iter().map(|a0| a0)')
            if leaf == 'self.titer()':
                ok = _wrapped_self_ok(fn, 'titer')
            if leaf is None:
                # polars datetime columns: dispatch on the column's time unit, panic otherwise
                rows = [(cs, l) for cs, l, ef in t]
                ok = len(rows) == 2 and sorted(l for cs, l in rows) == ['PANIC', 'self.into_iter().map(|a0| a0)'] \
                    and all(len(cs) == 1 and 'self.dtype() is DataType::Datetime(' in list(cs)[0] for cs, l in rows)
            run.ob('API.iter', fn, key, ok, fn.loc(), 'body `%s`' % (leaf or dtree.show(t))[:120] if leaf else
                   'table %s' % str(dtree.show(t))[:160])


def wrappers(run, F, cfg):
    n = 0
    by_name = {}
    for fn in F.fns:
        if fn.kind == 'AssocFn' and fn.container == 'trait':
            by_name[(fn.trait, fn.name)] = fn
    for (tr, name), fn in sorted(by_name.items(), key=lambda kv: str(kv[0])):
        if name.endswith('_to') and (tr, name[:-3]) in by_name and by_name[(tr, name[:-3])].exp:
            w = by_name[(tr, name[:-3])]
            n += 1
            params = [b['name'] for p in w.params for b in _pat_binds(p)][1:]
            want = 'self.%s(%s)' % (name, ', '.join(params + ['NULL']))
            s = N.one_leaf(N.tbl(w)) or src(w.hir)
            to_params = [b['name'] for p in fn.params for b in _pat_binds(p)][1:]
            ok = s == want and to_params[:-1] == params and len(to_params) == len(params) + 1
            run.ob('WRAP.no_out', w, '%s -> %s' % (w.name, name), ok, w.loc(),
                   'body `%s`; kernel parameters %s' % (s[:120], to_params))
    run.floor('WRAP.no_out', '#[no_out] wrappers (config %s)' % cfg, n, 35 if cfg != 'full' else 37)


def nobranch(run, F):
    users = []
    for fn in F.fns:
        if fn.kind == 'Closure' or fn.hir is None:
            continue
        for x in walk(fn.hir):
            if x.get('k') == 'MethodCall' and callee_is(x, 'Vec1View::get_backend_name'):
                users.append((fn, x))
    bad = [(fn, x) for fn, x in users if fn.name != 'get_backend_name']
    run.ob('API.nobranch', 'workspace', 'get_backend_name is only forwarded', not bad,
           loc(bad[0][1]) if bad else '', '%d user(s): %s' % (len(users), sorted({f.qpath for f, _ in users})[:4]))
