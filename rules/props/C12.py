"""C12 Quantiles, percentile ranks, ranks and partitions are true order statistics."""
import re

from common import TRUSTED, ASSUME, configs
import dtree
import sib
import nullrules as N
import aggrules as A
import seqrules
import seq as S
import lia
from algebra import Poly, Env, norm, read_block
from facts import (walk, walk_with_parents, peel, src, loc, callee_is, callee, strip_generics,
                   _pat_binds, is_local, alpha)


def check(run):
    for r, t in seqrules.RULES.items():
        run.rule(r, t)
    run.rule('ORD.cmp', 'every comparator handed to sort / select_nth in the order-statistic '
             'kernels is the null-last comparator (sort_cmp ascending, sort_cmp_rev descending) '
             'and the descending one is used exactly on the `rev` / upper-half arm')
    run.rule('ORD.positional', 'an order statistic never reads a fixed position of the working '
             'copy before it has been partitioned / sorted')
    run.rule('QNT.index', 'the quantile position is (n-1)*q with i = floor, j = ceil over the '
             'valid count n; select_nth(j) with the null-last comparator; the neighbour is the '
             'extreme of the head partition')
    run.rule('QNT.interp', 'interpolation arms: linear vi + (vj-vi)*(q-qi)/(qj-qi), lower vi, '
             'higher vj, midpoint (vi+vj)/2; in the mirrored upper-half arm lower/higher swap')
    run.rule('NULL.first-test', 'a path of a null-aware order statistic that yields a non-null '
             'result has tested a null predicate / the valid count of its input')
    run.rule('RANK.arms', 'the pct arm of vrank is the plain arm with every divisor multiplied '
             'by the valid count; nulls (sorted last) receive NaN; an all-null input is all null')
    run.rule('PART.nonnull', 'partition results never refer to a null: small inputs keep only '
             'not_none elements (or the first count_valid entries of a null-last sort) and pad '
             'with null / -1; the general path runs only when more than k+1 valid elements exist')
    run.rule('AGG.table', A.RULES['AGG.table'])
    for cfg in configs(run):
        F = run.facts(cfg)
        if cfg == 'base': __import__('common').pins(run, F, 'agg_delegates')
        # helpers this property stands on (rule sets owned by other properties, see common.deps)
        from common import deps as _deps
        _deps(run, F, 'isnone', 'casts')
        if cfg == 'base':
            _deps(run, F, 'ord')   # elements are compared through their own PartialOrd
        comparators(run, F)
        quantile(run, F)
        rank(run, F)
        partitions(run, F)
        A.check_tables(run, F)     # includes the percentile-of counting table
        pct_of(run, F)
    # every container the generic code can be instantiated with hands out its elements in logical order
    from common import dep_backends as _dep_backends
    _dep_backends(run)
    return run.finish(
        'other',
        'Structure of the order statistics: only the null-last comparators are used and the '
        'descending one exactly on the reverse arms; quantile index (n-1)q with floor/ceil, '
        'select_nth(j), neighbour from the head partition, interpolation formulas (polynomial '
        'normal form) and the lower/higher swap in the mirrored arm; no positional read of '
        'unsorted data; null inputs / empty valid sets give null on every path; vrank\'s pct '
        'arm mirrors the plain arm, nulls get NaN; partitions return k+1 entries on every path '
        '(LIA, all symbolic len / k / valid count), built from non-null elements and padding '
        'only. That the interpolated value equals the definition for every q (floating index '
        'arithmetic) and vrank\'s run-length bookkeeping are not decided.',
        ASSUME, TRUSTED,
        'instances = comparator sites, quantile lets and formulas, rank arms, partition return '
        'paths, percentile tables')


def comparators(run, F):
    n = 0
    for name in ('VecAggValidExt::vquantile', 'MapValidVec::vrank', 'MapValidVec::varg_partition',
                 'MapValidVec::vpartition'):
        fn = F.one(name)
        for x, parents in walk_with_parents(fn.hir):
            if x.get('k') == 'MethodCall' and x['method'] in ('sort_unstable_by', 'select_nth_unstable_by',
                                                             'sort_by', 'sort_unstable_by_key'):
                n += 1
                cmp_e = peel(x['ch'][-1])
                used = _cmp_used(fn, cmp_e)
                # which arm: the path condition on `rev` / on the half of q at the call
                want = None
                g = dtree.guards_at(fn.hir, x, N.self_env(fn))
                gc = set(g[0]) if g else set()
                if 'rev' in gc or '(0.5 < q)' in gc:
                    want = 'sort_cmp_rev'
                if '!rev' in gc or '(q <= 0.5)' in gc:
                    want = 'sort_cmp' if want is None else 'contradiction'
                if want is None and used == {'sort_cmp', 'sort_cmp_rev'}:
                    # `let sort_func = if !rev { T::sort_cmp } else { T::sort_cmp_rev }`
                    want = 'both-by-rev'
                ok = (used == {want}) if want not in (None, 'both-by-rev') else \
                    (want == 'both-by-rev' and _rev_select(fn, cmp_e))
                run.ob('ORD.cmp', fn, '%s comparator @%s' % (x['method'], loc(x).split(':')[-1]), ok,
                       loc(x), 'uses %s, expected %s' % (sorted(used), want))
    run.floor('ORD.cmp', 'comparator sites', n, 10)


def _cmp_used(fn, e):
    """names of the IsNone comparators a comparator expression resolves to."""
    e = peel(e)
    out = set()
    if e.get('k') == 'Closure':
        calls = [y for y in walk(e) if y.get('k') == 'MethodCall']
        tail = peel(e['ch'][0])
        while tail.get('k') == 'Block' and 'expr' in tail:
            tail = peel(tail['expr'])
        if tail.get('k') == 'MethodCall' and callee_is(tail, 'IsNone::sort_cmp', 'IsNone::sort_cmp_rev'):
            out.add(tail['method'])
        else:
            out.add('other:' + src(tail)[:40])
        return out
    if e.get('k') == 'Path':
        if e.get('res') == 'local':
            # bound closure / fn pointer: look at its initialiser
            for y in walk(fn.hir):
                if y.get('k') == 'Block':
                    for s in y.get('stmts', []):
                        if s['k'] == 'Let' and s['pat'].get('local') == e['local'] and 'init' in s:
                            init = peel(s['init'])
                            if init.get('k') == 'If':
                                for b in init['ch'][1:]:
                                    out |= _cmp_used(fn, b)
                            else:
                                out |= _cmp_used(fn, init)
            return out
        d = strip_generics(e.get('def', ''))
        if d.endswith('IsNone::sort_cmp'):
            return {'sort_cmp'}
        if d.endswith('IsNone::sort_cmp_rev'):
            return {'sort_cmp_rev'}
    if e.get('k') == 'Block' and 'expr' in e:
        return _cmp_used(fn, e['expr'])
    return {'other:' + src(e)[:40]}


def _rev_select(fn, e):
    """the comparator variable is chosen by `rev`: descending exactly when rev holds"""
    e = peel(e)
    for y in walk(fn.hir):
        if y.get('k') == 'Block':
            for s in y.get('stmts', []):
                if s['k'] == 'Let' and s['pat'].get('local') == e.get('local') and 'init' in s:
                    t = dtree.table(peel(s['init']), dict(dtree.env_at(fn.hir, s['init'], N.self_env(fn))))
                    rows = {(frozenset(cs), l) for cs, l, ef in t if not ef}
                    return rows == {(frozenset({'rev'}), 'IsNone::sort_cmp_rev'),
                                    (frozenset({'!rev'}), 'IsNone::sort_cmp')}
    return False


def quantile(run, F):
    """vquantile as a decision table: one row per (half, i == j, method); values compared as
    polynomials over the selected element m = sel.1 and the neighbour vi = extreme of sel.0."""
    from algebra import parse_poly, defs_of
    fn = F.one('VecAggValidExt::vquantile')
    t = N.tbl(fn)
    NV = 'self.titer().count_valid()'
    L1 = '(%s - 1)' % NV
    RANGE = '0...=1..contains(q)'
    err = [(cs, l, ef) for cs, l, ef in t if ('!' + RANGE) in cs]
    ok_r = len(err) == 1 and err[0][0] == frozenset({'!' + RANGE}) and 'Err(' in err[0][1] and not err[0][2] and \
        all(RANGE in cs for cs, l, ef in t if ('!' + RANGE) not in cs)
    run.ob('NULL.first-test', fn, 'vquantile: q outside [0,1] is an error', ok_r, fn.loc(),
           'range test first: %s' % [(sorted(cs), l[:20]) for cs, l, ef in err])
    rest0 = [(cs - {RANGE}, l, ef) for cs, l, ef in t if ('!' + RANGE) not in cs]

    def count_only(c):
        return dtree.holds(c, {NV: 0}) is not None and NV in c
    # a row belongs to the empty case when its conditions on the valid count hold at 0
    rest, empty = [], []
    ok0 = True
    for cs, l, ef in rest0:
        cc = {c for c in cs if count_only(c)}
        at0 = all(dtree.holds(c, {NV: 0}) for c in cc) if cc else None
        pos = all(all(dtree.holds(c, {NV: k}) for c in cc) for k in (1, 2, 3, 7)) if cc else None
        if at0 and not pos:
            empty.append((cs - cc, l, ef))
        elif pos and not at0:
            rest.append((cs - cc, l, ef))
        else:
            ok0 = False
    ok0 = ok0 and len(empty) == 1 and not empty[0][0] and empty[0][1].endswith('Ok(NULL)') and \
        not any('select_nth' in e for e in empty[0][2])
    run.ob('NULL.first-test', fn, 'vquantile: no valid element -> null before any selection', ok0,
           fn.loc(), 'early return on n == 0')
    idx = [x for x in walk(fn.hir) if x.get('k') == 'Index']
    run.ob('ORD.positional', fn, 'no fixed-position read of the working copy', not idx,
           loc(idx[0]) if idx else fn.loc(), 'positional reads: %s' % [src(x) for x in idx])
    sym = lambda z: Poly.atom(('sym', z))
    seen = {}
    bad_idx, bad_val = [], []
    for cs, leaf, ef in rest:
        half = 'lo' if '(q <= 0.5)' in cs else 'hi' if '(0.5 < q)' in cs else '?'
        Q = 'q' if half == 'lo' else '(1. - q)'
        prod = '(%s * %s)' % tuple(sorted((Q, L1)))
        I, J = prod + '.floor().usize()', prod + '.ceil().usize()'
        defs = defs_of(ef)
        sel = [(k, v) for k, v in defs.items() if 'select_nth_unstable_by(' in v]
        pure = {k: v for k, v in defs.items() if 'select_nth' not in v and 'collect_trusted' not in v}

        def expand(x, depth=0):
            for k, v in pure.items():
                x = re.sub(r"\b%s\b(?!')" % k, lambda _m: v, x)
            return x if depth > 3 or not any(re.search(r"\b%s\b" % k, x) for k in pure) else expand(x, depth + 1)
        csx = {expand(c) for c in cs}
        eq = ('(%s == %s)' % (J, I) in csx) or ('(%s == %s)' % (I, J) in csx)
        ne = ('(%s != %s)' % (J, I) in csx) or ('(%s != %s)' % (I, J) in csx)
        meth = [c.split('::')[-1] for c in cs if c.startswith('method is ')]
        cmpname = 'sort_cmp' if half == 'lo' else 'sort_cmp_rev'
        copy = [k for k, v in defs.items() if v == 'self.titer().collect_trusted_vec1()']
        ok_sel = len(sel) == 1 and len(copy) == 1 and expand(sel[0][1]) == \
            '%s.try_as_slice_mut().select_nth_unstable_by(%s, IsNone::%s)' % (copy[0], J, cmpname)
        if half == '?' or eq == ne or not ok_sel:
            bad_idx.append((half, sorted(csx)[:2], [v[:80] for k, v in sel]))
            continue
        S = sel[0][0]
        m_ = '%s.1' % S
        vi_ = '%s.0.titer().%s().map(|a0| a0)' % (S, 'vmax' if half == 'lo' else 'vmin')
        m, vi = sym(m_), sym(vi_)
        inner = re.fullmatch(r'(?:v1::)?Ok\((.*)\)', leaf)
        val = parse_poly(expand(inner.group(1)), {}) if inner else None
        if eq:
            key = (half, 'i==j')
            want = m
        else:
            if len(meth) != 1:
                bad_idx.append((half, 'method', sorted(cs)))
                continue
            key = (half, meth[0])
            qi, qj = sym(I) * parse_poly(L1).inv(), sym(J) * parse_poly(L1).inv()
            want = {'Linear': vi + (m - vi) * (parse_poly(Q) - qi) * (qj - qi).inv(),
                    'MidPoint': (vi + m) * Poly.const(2).inv(),
                    # i-th and j-th order statistics; in the mirrored half they swap roles
                    'Lower': vi if half == 'lo' else m,
                    'Higher': m if half == 'lo' else vi}.get(meth[0])
        seen[key] = seen.get(key, 0) + 1
        if val is None or want is None or val != want:
            bad_val.append('%s/%s: got %s' % (key[0], key[1], val.show()[:120] if val is not None else leaf[:60]))
    want_keys = {(h, k) for h in ('lo', 'hi') for k in ('i==j', 'Linear', 'MidPoint', 'Lower', 'Higher')}
    run.ob('QNT.index', fn, 'position (n-1)*q, i = floor, j = ceil; select_nth(j) with the half\'s comparator',
           not bad_idx and set(seen) == want_keys, fn.loc(),
           '%d rows over %s' % (sum(seen.values()), sorted(seen)) + ('' if not bad_idx else ' ; unrecognised: %s' % bad_idx[:2]))
    run.ob('QNT.interp', fn, 'interpolation formulas', not bad_val and set(seen) == want_keys, fn.loc(),
           'linear vi + (vj-vi)(q-qi)/(qj-qi), midpoint (vi+vj)/2, lower / higher = the i-th / j-th '
           '(swapped in the mirrored half)' + ('' if not bad_val else ' ; ' + '; '.join(bad_val[:3])))


def try_ok(e):
    """payload of `Ok(x)`"""
    e = peel(e)
    if e.get('k') == 'Block' and 'expr' in e:
        # `{ let ..; Ok(expr) }` : inline the lets
        env = Env()
        read_block(e, env)
        inner = peel(e['expr'])
        if inner.get('k') == 'Call' and len(inner['ch']) == 2:
            return _Subst(inner['ch'][1], env)
        return inner
    if e.get('k') == 'Call' and len(e.get('ch', [])) == 2:
        return e['ch'][1]
    return e


class _Subst(dict):
    """expression + the env of the lets before it (norm() reads env from the caller)"""
    def __init__(self, e, env):
        super().__init__(e)
        self.env = env


_norm = norm


def norm(e, env):     # noqa: F811  (local wrapper honouring _Subst)
    if isinstance(e, _Subst):
        return _norm(dict(e), e.env)
    return _norm(e, env)


def rank(run, F):
    fn = F.one('MapValidVec::vrank')
    env0 = N.self_env(fn)
    arms_if = [x for x in walk(fn.hir) if x.get('k') == 'If' and len(x['ch']) == 3 and
               dtree.conj(x['ch'][0], dict(dtree.env_at(fn.hir, x, env0))) in (['pct'], ['!pct'])]
    ok = len(arms_if) == 1
    run.ob('RANK.arms', fn, 'plain / pct arms', ok, fn.loc(), '%d dispatch(es) on `pct`' % len(arms_if))
    plain_s = pct_s = ''
    if ok:
        X = arms_if[0]
        en = dtree.env_at(fn.hir, X, env0)
        pos = dtree.conj(X['ch'][0], dict(en)) == ['pct']
        pct_arm, plain_arm = (X['ch'][1], X['ch'][2]) if pos else (X['ch'][2], X['ch'][1])
        plain_s = dtree.canon(plain_arm, dict(en))
        pct_s = dtree.canon(pct_arm, dict(en))
        cnt = re.search(r"(v\d+) := (?:self|\w+)\.titer\(\)\.count_valid\(\)(; )?", pct_s)
        CV = r"(?:self|\w+)\.titer\(\)\.count_valid\(\)"
        det = 'the pct arm does not use the valid count'
        okm = False
        if cnt or re.search(CV, pct_s):
            if cnt:
                c = cnt.group(1)
                b2 = pct_s.replace(cnt.group(0), '')
                k = int(c[1:])
                b2 = re.sub(r'\bv(\d+)\b', lambda m: 'C' if m.group(0) == c else
                            'v%d' % (int(m.group(1)) - 1 if int(m.group(1)) > k else int(m.group(1))), b2)
            else:
                b2 = re.sub(CV, 'C', pct_s)
            # every divisor is multiplied by the valid count, every plain rank divided by it
            b2 = re.sub(r"\(([\w']+) \* C\)", r'\1', b2)
            b2 = re.sub(r"\(C \* ([\w']+)\)", r'\1', b2)
            b3 = re.sub(r"\(([\w']+) / C\)", r'\1', b2)
            d = sib.first_diff(plain_s, b3)
            okm = d is None and not re.search(r'\bC\b', b3)
            det = 'arms agree after removing the valid-count factor' if okm else \
                'first difference: %s' % (d or 'valid count used elsewhere')
        run.ob('RANK.arms', fn, 'pct arm = plain arm / valid count', okm, loc(X), det)
    # the tie average is a real-number average: no division in vrank truncates
    run.rule('RANK.avg', 'the average rank of a tie group is a floating-point quotient: every division in '
             'vrank (operator, compound assignment or a `*div*` method) has floating operands, so the mean of '
             'the group\'s ranks is never truncated to an integer before it is written')
    ndiv = 0
    for x in walk(fn.hir):
        isdiv = x.get('k') in ('Binary', 'AssignOp') and x.get('op') in ('Div', 'DivAssign', 'Rem', 'RemAssign')
        ismeth = x.get('k') == 'MethodCall' and re.fullmatch(r'(checked_|wrapping_|saturating_|overflowing_|unchecked_)?(div|rem)(_euclid|_floor|_ceil)?|div|rem|div_assign', x.get('method', '')) is not None
        if not (isdiv or ismeth):
            continue
        ndiv += 1
        tys = [str(peel(c).get('ty')) for c in x.get('ch', [])[:2]]
        okd = all(t_.lstrip('&') in ('f64', 'f32') for t_ in tys)
        run.ob('RANK.avg', fn, 'division #%d has floating operands' % ndiv, okd, loc(x),
               '%s : operand types %s' % (src(x)[:60], tys))
    run.floor('RANK.avg', 'divisions in vrank', ndiv, 1)
    tail = re.compile(r"for (\w+) in [\w']+\.\.self\.len\(\) \{ [\w']+\.uset\([\w']+\.uget\(\1\), NULL\);? \}")
    run.ob('RANK.arms', fn, 'nulls (sorted last) receive NaN',
           bool(tail.search(plain_s)) and bool(tail.search(pct_s)), fn.loc(),
           'null tail loop present in both arms')
    # early returns: empty input -> empty; first sorted element null -> all null
    t = N.tbl(fn)
    empty = [(cs, l) for cs, l, ef in t if l == 'Vec1::empty()']
    alln = [(cs, l, ef) for cs, l, ef in t if re.fullmatch(r'Vec1::full\(self\.len\(\), NULL\)', l)]
    ok_e = len(empty) == 1 and empty[0][0] == frozenset({'(0 == self.len())'})
    ok_n = bool(alln) and all(any(re.fullmatch(r"!VALID\(self\.uget\([\w']+\.uget\(0\)\)\)", c) for c in cs)
                              for cs, l, ef in alln) and \
        not any(re.match(r'Vec1::full\(', l) and 'NULL' not in l for cs, l, ef in t)
    run.ob('NULL.first-test', fn, 'vrank: all-null input is all null; empty is empty', ok_e and ok_n, fn.loc(),
           'early returns: %s' % sorted(l for cs, l, ef in t if l.startswith('Vec1::'))[:3])
    # argsort before any positional read
    sorts = [x for x in walk(fn.hir) if x.get('k') == 'MethodCall' and x['method'].startswith('sort_unstable')]
    reads0 = [x for x in walk(fn.hir) if x.get('k') == 'MethodCall' and callee_is(x, 'Vec1View::uget') and
              peel(x['ch'][1]).get('k') == 'Lit' and peel(x['ch'][1]).get('v') == '0']
    from facts import line_of
    run.ob('ORD.positional', fn, 'argsort before any positional read',
           bool(sorts) and bool(reads0) and max(line_of(x)[1] for x in sorts) < min(line_of(x)[1] for x in reads0),
           fn.loc(), 'order of sort and read')


def _outcome(row):
    """(leaf, effects) of a row with the valid count spelled `n`"""
    cs, leaf, ef = row
    f = lambda x: x.replace('self.titer().count_valid()', 'n')
    return dtree.Table([(frozenset(), f(leaf), tuple(f(e) for e in ef))])


def partitions(run, F):
    K1 = '(1 + kth)'
    for name in ('MapValidVec::vpartition', 'MapValidVec::varg_partition'):
        fn = F.one(name)
        ev = seqrules.run_eval(fn)
        seqrules.check_len_sites(run, fn, ev)
        ksym = seqrules.param_sym(fn, 'kth')
        seqrules.check_ret_len(run, fn, ev, lambda W, k=ksym: {k: 1, 1: 1}, 'k + 1')
        t = N.tbl(fn)
        arg = 'varg' in name
        if arg:
            cmp_ = lambda rev: '|a0, a1| self.uget(a0).sort_cmp%s(self.uget(a1))' % ('_rev' if rev else '')
            small_unsorted = ('Box::new(self.titer().enumerate().filter_map(|a0, a1| if VALID(a1) { Some(a0) } '
                              'else { NULL }).chain(iter::repeat(-1)).take(%s).to_trust(%s))' % (K1, K1), ())
            small_sorted = lambda rev: ('Box::new(idx.into_iter().take(n).chain(iter::repeat(-1)).take(%s).to_trust(%s))' % (K1, K1),
                                        ('idx := Vec1Create::range(NULL, self.len(), NULL)',
                                         'idx.sort_unstable_by(%s).unwrap()' % cmp_(rev)))
            general = lambda rev, sort: ('Box::new(idx.into_iter().to_trust(%s))' % K1,
                                         ('copy := self.titer().collect_trusted_vec1()',
                                          'idx := Vec1Create::range(NULL, copy.try_as_slice_mut().len(), NULL)',
                                          'cmp := %s' % cmp_(rev),
                                          'idx.select_nth_unstable_by(kth, cmp)', 'idx.truncate(%s)' % K1) +
                                         (('idx.sort_unstable_by(cmp).unwrap()',) if sort else ()))
        else:
            small_unsorted = ('Box::new(self.titer().filter(IsNone::not_none).chain(iter::repeat(NULL)).take(%s).to_trust(%s))' % (K1, K1), ())
            small_sorted = lambda rev: ('Box::new(vec.into_iter().chain(iter::repeat(NULL)).take(%s).to_trust(%s))' % (K1, K1),
                                        ('vec := self.titer().collect_trusted_vec1()',
                                         'vec.sort_unstable_by(IsNone::sort_cmp%s).unwrap()' % ('_rev' if rev else '')))
            sel = lambda rev: 'IsNone::sort_cmp_rev' if rev else 'IsNone::sort_cmp'
            general = lambda rev, sort: ('Box::new(vec.into_iter().to_trust(%s))' % K1,
                                         ('vec := self.titer().collect_trusted_vec1()',
                                          'vec.select_nth_unstable_by(kth, %s)' % sel(rev), 'vec.truncate(%s)' % K1) +
                                         (('vec.sort_unstable_by(%s).unwrap()' % sel(rev),) if sort else ()))
        exact_unsorted = ('Box::new(self.titer().filter(IsNone::not_none).to_trust(%s))' % K1, ())
        bad = []
        npts = 0
        for sort in (False, True):
            for rev in (False, True):
                for n in range(9 if run.tier == 'thorough' else 5):
                    for k in range(8 if run.tier == 'thorough' else 4):
                        npts += 1
                        rows = dtree.select_rows(t, {'self.titer().count_valid()': n, 'kth': k, 'sort': sort, 'rev': rev})
                        if rows is None or len(rows) != 1:
                            bad.append('sort=%s rev=%s n=%d k=%d: %s row(s)' % (sort, rev, n, k, 'unevaluable' if rows is None else len(rows)))
                            continue
                        if n > k + 1:
                            want = general(rev, sort)
                        elif sort:
                            want = small_sorted(rev)
                        elif n == k + 1 and not arg:
                            # either spelling is the k+1 valid elements in order
                            want = exact_unsorted
                            if not (_outcome(rows[0]) == dtree.Table([(frozenset(), want[0], want[1])])):
                                want = small_unsorted
                        else:
                            want = small_unsorted
                        if not (_outcome(rows[0]) == dtree.Table([(frozenset(), want[0], tuple(want[1]))])):
                            bad.append('sort=%s rev=%s n=%d k=%d: %s ; %s' % (sort, rev, n, k, rows[0][1][:70], list(rows[0][2])[:3]))
        run.ob('PART.nonnull', fn, 'outcome per (sort, rev, valid count vs k+1)', not bad, fn.loc(),
               '%d sample points: n > k+1 -> select_nth(k) + truncate(k+1) on a copy (then sort if asked); '
               'n <= k+1 -> the valid elements (sorted if asked) padded to k+1' % npts +
               ('' if not bad else ' ; ' + ' | '.join(bad[:3])))


def pct_of(run, F):
    import aggrules
    from algebra import parse_poly, defs_of, Poly
    fn = F.one('AggValidExt::vpercentile_of')
    t, env = aggrules.rtbl(fn)
    # a null score returns null before anything is counted
    nullrows = [(cs, l, ef) for cs, l, ef in t if '!VALID(score)' in cs]
    ok = len(nullrows) == 1 and nullrows[0][1] == 'NULL' and \
        not any('for_each' in e for e in nullrows[0][2]) and \
        all('VALID(score)' in cs for cs, l, ef in t if '!VALID(score)' not in cs)
    run.ob('NULL.first-test', fn, 'vpercentile_of: null score -> null', ok, fn.loc(),
           'rows on a null score: %s' % [(sorted(cs), l) for cs, l, ef in nullrows])
    LT, EQ, n = (Poly.atom(('sym', x)) for x in ('C[(a0 < score)]', 'C[(a0 == score)]', 'n'))
    half = Poly.const(1) * Poly({(): __import__('fractions').Fraction(1, 2)})
    one = Poly.const(1)
    want = {
        ('Strict', None): LT * n.inv(),
        ('Weak', None): (LT + EQ) * n.inv(),
        ('Rank', False): (LT + EQ) * n.inv(),
        # average of the ranks LT+1 .. LT+EQ
        ('Rank', True): ((LT + one) + (LT + EQ)) * half * n.inv(),
    }
    got = {}
    bad = []
    for cs, leaf, ef in t:
        if '!VALID(score)' in cs:
            continue
        meth = [c.split('::')[-1] for c in cs if c.startswith('method is ')]
        if '(0 == n)' in cs:
            if leaf != 'NULL':
                bad.append((sorted(cs), leaf))
            continue
        if '(0 != n)' not in cs or len(meth) != 1:
            bad.append((sorted(cs), leaf))
            continue
        tie = None
        if meth[0] == 'Rank':
            tie = '(1 < C[(a0 == score)])' in cs
            if not tie and '(C[(a0 == score)] <= 1)' not in cs:
                bad.append((sorted(cs), leaf))
        got[(meth[0], tie)] = parse_poly(leaf, defs_of(ef))
    okp = not bad and set(got) == set(want) and all(got[k] == want[k] for k in want)
    run.ob('AGG.table', fn, 'percentile-of proportions (rank / weak / strict)', okp, fn.loc(),
           '; '.join('%s%s = %s' % (k[0], '' if k[1] is None else ('[ties]' if k[1] else '[no tie]'),
                                    v.show()) for k, v in sorted(got.items(), key=str)) +
           (' ; unexpected rows %s' % bad if bad else ''))
