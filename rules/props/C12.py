"""C12 Quantiles, percentile ranks, ranks and partitions are true order statistics."""
import re

from common import TRUSTED, ASSUME, configs
import dtree
import sib
import nullrules as N
import aggrules as A
import seqrules
import seq as S
import lia
from algebra import Poly, Env, norm, read_block
from facts import (walk, walk_with_parents, peel, src, loc, callee_is, callee, strip_generics,
                   _pat_binds, is_local, alpha)


def check(run):
    for r, t in seqrules.RULES.items():
        run.rule(r, t)
    run.rule('ORD.cmp', 'every comparator handed to sort / select_nth in the order-statistic '
             'kernels is the null-last comparator (sort_cmp ascending, sort_cmp_rev descending) '
             'and the descending one is used exactly on the `rev` / upper-half arm')
    run.rule('ORD.positional', 'an order statistic never reads a fixed position of the working '
             'copy before it has been partitioned / sorted')
    run.rule('QNT.index', 'the quantile position is (n-1)*q with i = floor, j = ceil over the '
             'valid count n; select_nth(j) with the null-last comparator; the neighbour is the '
             'extreme of the head partition')
    run.rule('QNT.interp', 'interpolation arms: linear vi + (vj-vi)*(q-qi)/(qj-qi), lower vi, '
             'higher vj, midpoint (vi+vj)/2; in the mirrored upper-half arm lower/higher swap')
    run.rule('NULL.first-test', 'a path of a null-aware order statistic that yields a non-null '
             'result has tested a null predicate / the valid count of its input')
    run.rule('RANK.arms', 'the pct arm of vrank is the plain arm with every divisor multiplied '
             'by the valid count; nulls (sorted last) receive NaN; an all-null input is all null')
    run.rule('PART.nonnull', 'partition results never refer to a null: small inputs keep only '
             'not_none elements (or the first count_valid entries of a null-last sort) and pad '
             'with null / -1; the general path runs only when more than k+1 valid elements exist')
    run.rule('AGG.table', A.RULES['AGG.table'])
    for cfg in configs(run):
        F = run.facts(cfg)
        comparators(run, F)
        quantile(run, F)
        rank(run, F)
        partitions(run, F)
        A.check_tables(run, F)     # includes the percentile-of counting table
        pct_of(run, F)
    return run.finish(
        'other',
        'Structure of the order statistics: only the null-last comparators are used and the '
        'descending one exactly on the reverse arms; quantile index (n-1)q with floor/ceil, '
        'select_nth(j), neighbour from the head partition, interpolation formulas (polynomial '
        'normal form) and the lower/higher swap in the mirrored arm; no positional read of '
        'unsorted data; null inputs / empty valid sets give null on every path; vrank\'s pct '
        'arm mirrors the plain arm, nulls get NaN; partitions return k+1 entries on every path '
        '(LIA, all symbolic len / k / valid count), built from non-null elements and padding '
        'only. That the interpolated value equals the definition for every q (floating index '
        'arithmetic) and vrank\'s run-length bookkeeping are not decided.',
        ASSUME, TRUSTED,
        'instances = comparator sites, quantile lets and formulas, rank arms, partition return '
        'paths, percentile tables')


def comparators(run, F):
    n = 0
    for name in ('VecAggValidExt::vquantile', 'MapValidVec::vrank', 'MapValidVec::varg_partition',
                 'MapValidVec::vpartition'):
        fn = F.one(name)
        for x, parents in walk_with_parents(fn.hir):
            if x.get('k') == 'MethodCall' and x['method'] in ('sort_unstable_by', 'select_nth_unstable_by',
                                                             'sort_by', 'sort_unstable_by_key'):
                n += 1
                cmp_e = peel(x['ch'][-1])
                used = _cmp_used(fn, cmp_e)
                # which arm: nearest enclosing `if !rev` / `if q <= 0.5`
                want = None
                for p, child in zip(reversed(parents), [x] + list(reversed(parents))[:-1]):
                    if p.get('k') == 'If' and len(p['ch']) == 3:
                        c = src(peel(p['ch'][0]))
                        then = any(y is x for y in walk(p['ch'][1]))
                        if c in ('!rev',):
                            want = 'sort_cmp' if then else 'sort_cmp_rev'
                            break
                        if c == 'rev':
                            want = 'sort_cmp_rev' if then else 'sort_cmp'
                            break
                        if c == '(q <= 0.5)':
                            want = 'sort_cmp' if then else 'sort_cmp_rev'
                            break
                if want is None and used == {'sort_cmp', 'sort_cmp_rev'}:
                    # `let sort_func = if !rev { T::sort_cmp } else { T::sort_cmp_rev }`
                    want = 'both-by-rev'
                ok = (used == {want}) if want not in (None, 'both-by-rev') else \
                    (want == 'both-by-rev' and _rev_select(fn, cmp_e))
                run.ob('ORD.cmp', fn, '%s comparator @%s' % (x['method'], loc(x).split(':')[-1]), ok,
                       loc(x), 'uses %s, expected %s' % (sorted(used), want))
    run.floor('ORD.cmp', 'comparator sites', n, 10)


def _cmp_used(fn, e):
    """names of the IsNone comparators a comparator expression resolves to."""
    e = peel(e)
    out = set()
    if e.get('k') == 'Closure':
        calls = [y for y in walk(e) if y.get('k') == 'MethodCall']
        tail = peel(e['ch'][0])
        while tail.get('k') == 'Block' and 'expr' in tail:
            tail = peel(tail['expr'])
        if tail.get('k') == 'MethodCall' and callee_is(tail, 'IsNone::sort_cmp', 'IsNone::sort_cmp_rev'):
            out.add(tail['method'])
        else:
            out.add('other:' + src(tail)[:40])
        return out
    if e.get('k') == 'Path':
        if e.get('res') == 'local':
            # bound closure / fn pointer: look at its initialiser
            for y in walk(fn.hir):
                if y.get('k') == 'Block':
                    for s in y.get('stmts', []):
                        if s['k'] == 'Let' and s['pat'].get('local') == e['local'] and 'init' in s:
                            init = peel(s['init'])
                            if init.get('k') == 'If':
                                for b in init['ch'][1:]:
                                    out |= _cmp_used(fn, b)
                            else:
                                out |= _cmp_used(fn, init)
            return out
        d = strip_generics(e.get('def', ''))
        if d.endswith('IsNone::sort_cmp'):
            return {'sort_cmp'}
        if d.endswith('IsNone::sort_cmp_rev'):
            return {'sort_cmp_rev'}
    if e.get('k') == 'Block' and 'expr' in e:
        return _cmp_used(fn, e['expr'])
    return {'other:' + src(e)[:40]}


def _rev_select(fn, e):
    e = peel(e)
    for y in walk(fn.hir):
        if y.get('k') == 'Block':
            for s in y.get('stmts', []):
                if s['k'] == 'Let' and s['pat'].get('local') == e.get('local') and 'init' in s:
                    return src(peel(s['init'])) == 'if !rev { IsNone::sort_cmp } else { IsNone::sort_cmp_rev }'
    return False


def quantile(run, F):
    fn = F.one('VecAggValidExt::vquantile')
    s = src(fn.hir)
    t = N.tbl(fn)
    # n == 0 -> NaN before any selection
    ok0 = 'if (n == 0) { return v1::Ok(f64::NAN); }' in s and \
        s.index('if (n == 0) { return v1::Ok(f64::NAN); }') < s.index('select_nth_unstable_by')
    run.ob('NULL.first-test', fn, 'vquantile: no valid element -> null before any selection', ok0,
           fn.loc(), 'early return on n == 0')
    rng = '!RangeInclusive::new(0., 1.).contains(&q)' in s or 'contains(&q)' in s
    run.ob('NULL.first-test', fn, 'vquantile: q outside [0,1] is an error', rng and 'tensure' not in s and
           s.index('contains(&q)') < s.index('count_valid'), fn.loc(), 'range test first')
    run.ob('QNT.index', fn, 'count is count_valid and position is (n-1)*q',
           'let n = self.titer().count_valid();' in s and 'let len_1 = (n - 1).f64();' in s and
           s.count('let q_idx = (len_1 * q);') == 2 and
           s.count('let (i, j) = (q_idx.floor().usize(), q_idx.ceil().usize());') == 2 and
           'let q = (1. - q);' in s, fn.loc(), 'lets of the two arms')
    # positional reads
    idx = [x for x in walk(fn.hir) if x.get('k') == 'Index' and 'slc' in src(peel(x['ch'][0]))]
    run.ob('ORD.positional', fn, 'no fixed-position read of the working copy', not idx,
           loc(idx[0]) if idx else fn.loc(), 'positional reads: %s' % [src(x) for x in idx])
    arms = [x for x in walk(fn.hir) if x.get('k') == 'If' and src(peel(x['ch'][0])) == '(q <= 0.5)']
    if len(arms) != 1:
        run.ob('QNT.index', fn, 'two half arms', False, fn.loc(), 'no `if q <= 0.5`')
        return
    lo, hi = src(arms[0]['ch'][1]), src(arms[0]['ch'][2])
    run.ob('QNT.index', fn, 'lower-half arm',
           'slc.select_nth_unstable_by(j, |va, vb| va.sort_cmp(vb))' in lo and
           'head.titer().vmax()' in lo and 'if (i != j)' in lo and 'return v1::Ok(m.clone().cast())' in lo,
           loc(arms[0]['ch'][1]), lo[:160])
    run.ob('QNT.index', fn, 'upper-half arm (mirror)',
           'slc.select_nth_unstable_by(j, |va, vb| va.sort_cmp_rev(vb))' in hi and
           'head.titer().vmin()' in hi and 'if (i != j)' in hi, loc(arms[0]['ch'][2]), hi[:160])
    # mirrored arm: Lower -> m (the j-th from the top), Higher -> vi
    m2 = [x for x in walk(arms[0]['ch'][2]) if x.get('k') == 'Match' and src(peel(x['ch'][0])) == 'method']
    ok = len(m2) == 1
    if ok:
        a = {dtree.pat_src(y['pat']).split('::')[-1]: src(y['body']) for y in m2[0]['arms']}
        ok = a.get('Lower', '').startswith('return v1::Ok(m.clone().cast())') and \
            a.get('Higher', '').startswith('return v1::Ok(vi)')
    run.ob('QNT.interp', fn, 'mirrored arm swaps lower / higher', ok, loc(arms[0]['ch'][2]),
           str(a if m2 else None)[:200])
    # final interpolation
    mf = [x for x in walk(fn.hir) if x.get('k') == 'Match' and src(peel(x['ch'][0])) == 'method'
          and not any(y is x for y in walk(arms[0]))]
    ok = len(mf) == 1
    det = ''
    if ok:
        a = {dtree.pat_src(y['pat']).split('::')[-1]: y['body'] for y in mf[0]['arms']}
        sym = lambda z: Poly.atom(('sym', z))
        env = Env()
        lin = norm(try_ok(a['Linear']), env) if 'Linear' in a else None
        qi, qj = sym('i') * sym('len_1').inv(), sym('j') * sym('len_1').inv()
        want = sym('vi') + (sym('vj') - sym('vi')) * (sym('q') - qi) * (qj - qi).inv()
        ok = lin == want and src(try_ok(a.get('Lower', {}))) == 'vi' and \
            src(try_ok(a.get('Higher', {}))) == 'vj' and \
            norm(try_ok(a['MidPoint']), Env()) == (sym('vi') + sym('vj')) * Poly.const(2).inv()
        det = 'linear = %s' % (lin.show() if lin else None)
        ok = ok and set(a) == {'Linear', 'Lower', 'Higher', 'MidPoint'}
    run.ob('QNT.interp', fn, 'interpolation formulas', ok, fn.loc(), det)


def try_ok(e):
    """payload of `Ok(x)`"""
    e = peel(e)
    if e.get('k') == 'Block' and 'expr' in e:
        # `{ let ..; Ok(expr) }` : inline the lets
        env = Env()
        read_block(e, env)
        inner = peel(e['expr'])
        if inner.get('k') == 'Call' and len(inner['ch']) == 2:
            return _Subst(inner['ch'][1], env)
        return inner
    if e.get('k') == 'Call' and len(e.get('ch', [])) == 2:
        return e['ch'][1]
    return e


class _Subst(dict):
    """expression + the env of the lets before it (norm() reads env from the caller)"""
    def __init__(self, e, env):
        super().__init__(e)
        self.env = env


_norm = norm


def norm(e, env):     # noqa: F811  (local wrapper honouring _Subst)
    if isinstance(e, _Subst):
        return _norm(dict(e), e.env)
    return _norm(e, env)


def rank(run, F):
    fn = F.one('MapValidVec::vrank')
    s = src(fn.hir)
    arms = [x for x in walk(fn.hir) if x.get('k') == 'If' and src(peel(x['ch'][0])) == '!pct'
            and len(x['ch']) == 3]
    ok = len(arms) == 1
    run.ob('RANK.arms', fn, 'plain / pct arms', ok, fn.loc(), '%d `if !pct`' % len(arms))
    if ok:
        # seed the alpha names with everything bound outside the two arms
        names = {}
        for p in fn.params:
            for b in _pat_binds(p):
                names.setdefault(b['local'], 'o%d' % len(names))
        def seed(e):
            if e is arms[0]['ch'][1] or e is arms[0]['ch'][2]:
                return
            if e.get('k') == 'Block':
                for st in e.get('stmts', []):
                    if st['k'] == 'Let':
                        for b in _pat_binds(st['pat']):
                            names.setdefault(b['local'], 'o%d' % len(names))
            from facts import children
            for c in children(e):
                seed(c)
        seed(fn.hir)
        a = src(alpha(arms[0]['ch'][1], dict(names)))
        b = src(alpha(arms[0]['ch'][2], dict(names)))
        cnt = re.search(r'let (x\d+) = self\.titer\(\)\.count_valid\(\); ', b) or \
            re.search(r'let (x\d+) = o\d+\.titer\(\)\.count_valid\(\); ', b)
        det = 'no count_valid binding in the pct arm'
        okm = False
        if cnt:
            c = cnt.group(1)
            b2 = b.replace(cnt.group(0), '')
            b2 = re.sub(r'\((\w+) \* %s\)' % c, r'\1', b2)
            b2 = re.sub(r'\(\((\w+) as f64\) / \(%s as f64\)\)' % c, r'(\1 as f64)', b2)
            k = int(c[1:])
            b3 = re.sub(r'\bx(\d+)\b', lambda m: 'x%d' % (int(m.group(1)) - 1 if int(m.group(1)) > k
                                                              else int(m.group(1))), b2)
            d = sib.first_diff(a, b3)
            okm = d is None and c not in b2
            det = 'arms agree after removing the valid-count factor' if okm else \
                'first difference: %s' % (d or 'valid count used elsewhere')
        run.ob('RANK.arms', fn, 'pct arm = plain arm / valid count', okm, loc(arms[0]), det)
    run.ob('RANK.arms', fn, 'nulls (sorted last) receive NaN',
           s.count('if nan_flag { for i in idx..len { out.uset(idx_sorted.uget(i), f64::NAN.cast()) } }') == 2,
           fn.loc(), 'nan_flag tail loop present in both arms')
    run.ob('NULL.first-test', fn, 'vrank: all-null input is all null; empty is empty',
           'if self.uget(idx_sorted.uget(0)).is_none() { return Vec1::full(len, IsNone::none()); }' in s and
           'if (len == 0) { return Vec1::empty(); }' in s and 'full(len, 1.' not in s, fn.loc(),
           'early returns: %s' % re.findall(r'return [^;]+;', s)[:3])
    run.ob('ORD.positional', fn, 'argsort before any positional read',
           s.index('sort_unstable_by') < s.index('idx_sorted.uget(0)'), fn.loc(), 'order of sort and read')


def partitions(run, F):
    for name in ('MapValidVec::vpartition', 'MapValidVec::varg_partition'):
        fn = F.one(name)
        ev = seqrules.run_eval(fn)
        seqrules.check_len_sites(run, fn, ev)
        ksym = seqrules.param_sym(fn, 'kth')
        seqrules.check_ret_len(run, fn, ev, lambda W, k=ksym: {k: 1, 1: 1}, 'k + 1')
        s = src(fn.hir)
        # general path only with n >= k + 2
        gen = [(W, q, node) for W, q, node in ev.returns if q is not None and
               'truncate' in s and 'to_trust' in src(node) and 'into_iter()' in src(node) and
               'chain' not in src(node) and 'filter' not in src(node)]
        okg = bool(gen)
        for W, q, node in gen:
            fs = seqrules.facts_of(ev, W)
            vs = [k for f in fs for k in f if isinstance(k, str) and k.startswith('valid(')]
            okg = okg and bool(vs) and lia.entails_ge0(fs, lia.add(lia.sub(lia.L(vs[0]), {ksym: 1}), lia.L(-2)))
        run.ob('PART.nonnull', fn, 'general path needs more than k+1 valid elements', okg, fn.loc(),
               '%d general return path(s) dominated by valid >= k + 2' % len(gen))
        if 'varg' in name:
            ok = 'filter_map(|(i, v)| if v.not_none() { v1::Some((i as i32)) } else { v1::None })' in s and \
                '.chain(iter::repeat(-1)).take((kth + 1))' in s and \
                'idx_sorted.into_iter().take(n).chain(iter::repeat(-1)).take((kth + 1))' in s
            run.ob('PART.nonnull', fn, 'small input: indices of valid elements, padded with -1', ok, fn.loc(), '')
        else:
            ok = 'self.titer().filter(IsNone::not_none).chain(iter::repeat(IsNone::none())).take((kth + 1))' in s and \
                'vec.into_iter().chain(iter::repeat(IsNone::none())).take((kth + 1))' in s and \
                'if ((n == (kth + 1)) && !sort) { return Box::new(self.titer().filter(IsNone::not_none)' in s
            run.ob('PART.nonnull', fn, 'small input: valid elements, padded with null', ok, fn.loc(), '')
        ok = 'select_nth_unstable_by(kth, sort_func); ' in s and '.truncate((kth + 1));' in s and \
            s.index('select_nth_unstable_by(kth') < s.index('.truncate((kth + 1))')
        run.ob('PART.nonnull', fn, 'general path: select_nth(k) then truncate(k+1)', ok, fn.loc(), '')


def pct_of(run, F):
    import aggrules
    from algebra import parse_poly, defs_of, Poly
    fn = F.one('AggValidExt::vpercentile_of')
    t, env = aggrules.rtbl(fn)
    # a null score returns null before anything is counted
    nullrows = [(cs, l, ef) for cs, l, ef in t if '!VALID(score)' in cs]
    ok = len(nullrows) == 1 and nullrows[0][1] == 'NULL' and \
        not any('for_each' in e for e in nullrows[0][2]) and \
        all('VALID(score)' in cs for cs, l, ef in t if '!VALID(score)' not in cs)
    run.ob('NULL.first-test', fn, 'vpercentile_of: null score -> null', ok, fn.loc(),
           'rows on a null score: %s' % [(sorted(cs), l) for cs, l, ef in nullrows])
    LT, EQ, n = (Poly.atom(('sym', x)) for x in ('C[(a0 < score)]', 'C[(a0 == score)]', 'n'))
    half = Poly.const(1) * Poly({(): __import__('fractions').Fraction(1, 2)})
    one = Poly.const(1)
    want = {
        ('Strict', None): LT * n.inv(),
        ('Weak', None): (LT + EQ) * n.inv(),
        ('Rank', False): (LT + EQ) * n.inv(),
        # average of the ranks LT+1 .. LT+EQ
        ('Rank', True): ((LT + one) + (LT + EQ)) * half * n.inv(),
    }
    got = {}
    bad = []
    for cs, leaf, ef in t:
        if '!VALID(score)' in cs:
            continue
        meth = [c.split('::')[-1] for c in cs if c.startswith('method is ')]
        if '(0 == n)' in cs:
            if leaf != 'NULL':
                bad.append((sorted(cs), leaf))
            continue
        if '(0 != n)' not in cs or len(meth) != 1:
            bad.append((sorted(cs), leaf))
            continue
        tie = None
        if meth[0] == 'Rank':
            tie = '(1 < C[(a0 == score)])' in cs
            if not tie and '(C[(a0 == score)] <= 1)' not in cs:
                bad.append((sorted(cs), leaf))
        got[(meth[0], tie)] = parse_poly(leaf, defs_of(ef))
    okp = not bad and set(got) == set(want) and all(got[k] == want[k] for k in want)
    run.ob('AGG.table', fn, 'percentile-of proportions (rank / weak / strict)', okp, fn.loc(),
           '; '.join('%s%s = %s' % (k[0], '' if k[1] is None else ('[ties]' if k[1] else '[no tie]'),
                                    v.show()) for k, v in sorted(got.items(), key=str)) +
           (' ; unexpected rows %s' % bad if bad else ''))
