"""C04 Rolling covariance, correlation and regressions equal per-window least squares.

Decided here: window-state pairing (ACC.*) and gates (GATE.*) for the 2 kernels of
binary.rs and the 11 of reg.rs; the residual kernels' recomputation range.
"""
from common import TRUSTED, ASSUME, configs, add_rules
import acc
from kernels import find_kernels, KernelModel
from facts import walk, callee_is, src, loc, peel, is_local


def check(run):
    add_rules(run, ['ACC.pair', 'ACC.guard', 'ACC.order', 'ACC.exit', 'ACC.nocapture', 'GATE.form',
                    'GATE.dom', 'GATE.intrinsic'])
    run.rule('RESID.range', 'the residual statistics are recomputed over exactly the window '
             '`start.unwrap_or(0)..=end` with a pairwise null skip on both series')
    for cfg in configs(run):
        F = run.facts(cfg)
        ks = [k for k in find_kernels(F) if k.fn.file.endswith(('tea-rolling/src/binary.rs',
                                                                'tea-rolling/src/reg.rs'))]
        run.floor('ACC', 'rolling kernels in binary.rs + reg.rs', len(ks), 13)
        nacc = 0
        nres = 0
        for k in ks:
            m = KernelModel(k)
            nacc += acc.check_acc(run, m)
            acc.check_gate(run, m)
            if k.idx:
                nres += resid_range(run, m)
        run.floor('ACC.pair', 'accumulators in binary.rs + reg.rs', nacc, 57)
        run.floor('RESID.range', 'residual recomputation loops', nres, 3)
    if run.tier == 'thorough':
        import casrules
        run.rule('CAS.form', casrules.RULE)
        n = casrules.check_rolling(run, run.facts('base'), ('binary.rs', 'reg.rs'))
        run.floor('CAS.form', 'closed forms compared with their reference', n, 12)
    return run.finish(
        'other',
        'Structural necessary conditions: every accumulator of the 13 covariance / correlation '
        '/ regression kernels has an add update and an exactly inverse remove update under the '
        'same pairwise null guard; the statistic is read between them; the three residual '
        'kernels recompute over start.unwrap_or(0)..=end with pairwise null skip. '
        'Closed forms are compared with least squares in the thorough tier only; rounding is '
        'not decided.',
        ASSUME, TRUSTED,
        'instances = (kernel, accumulator), (kernel, gate) and residual-loop sites')


def resid_range(run, m):
    """`(start.unwrap_or(0)..=end).map(|j| { (self.uget(j), other.uget(j)) ... })`"""
    n = 0
    for e in walk(m.body):
        if e.get('k') == 'MethodCall' and e.get('method') == 'map' and \
                peel(e['ch'][0]).get('k') == 'Range':
            r = peel(e['ch'][0])
            lo, hi = peel(r['ch'][0]), peel(r['ch'][1])
            lo_ok = (lo.get('k') == 'MethodCall' and callee_is(lo, 'Option::unwrap_or') and
                     m.idx_tag(lo['ch'][0]) == 'OLDIDXOPT' and src(peel(lo['ch'][1])) == '0')
            hi_ok = r['incl'] and m.idx_tag(hi) == 'END'
            cl = peel(e['ch'][1])
            j = cl['params'][0].get('local') if cl.get('k') == 'Closure' else None
            ugets = [x for x in walk(cl) if x.get('k') == 'MethodCall' and
                     callee_is(x, 'Vec1View::uget')]
            idx_ok = len(ugets) == 2 and all(peel(u['ch'][1]).get('local') == j for u in ugets) \
                and {src(peel(u['ch'][0])) for u in ugets} == {'self', 'other'}
            # pairwise guard
            guards = [x for x in walk(cl) if x.get('k') == 'If']
            g_ok = False
            for g in guards:
                s = src(g['ch'][0])
                if s.count('.not_none()') == 2 and '&&' in s or ' & ' in s and s.count('.not_none()') == 2:
                    g_ok = True
            n += 1
            run.ob('RESID.range', m.k.fn, 'residual loop', lo_ok and hi_ok and idx_ok and g_ok,
                   loc(e), 'range `%s` (lower %s, upper %s), reads %s, pairwise guard %s'
                   % (src(r), 'ok' if lo_ok else 'BAD', 'ok' if hi_ok else 'BAD',
                      'ok' if idx_ok else 'BAD', 'ok' if g_ok else 'MISSING'))
    return n
