"""C04 Rolling covariance, correlation and regressions equal per-window least squares.

Decided here: window-state pairing (ACC.*) and gates (GATE.*) for the 2 kernels of
binary.rs and the 11 of reg.rs; the residual kernels' recomputation range.
"""
from common import TRUSTED, ASSUME, configs, add_rules
import acc
from kernels import find_kernels, KernelModel
from facts import walk, callee_is, src, loc, peel, is_local


def check(run):
    add_rules(run, ['ACC.pair', 'ACC.guard', 'ACC.order', 'ACC.exit', 'ACC.nocapture', 'GATE.form',
                    'GATE.dom', 'GATE.intrinsic'])
    run.rule('RESID.agg', 'the residual stream is reduced by the statistic the kernel is named after, '
             'called with at most that statistic\'s own minimum count (mean 1, std 2, skew 3): a '
             'larger literal would null windows on which the statistic is defined')
    run.rule('RESID.range', 'the residual statistics are recomputed over exactly the window '
             '`start.unwrap_or(0)..=end` with a pairwise null skip on both series')
    for cfg in configs(run):
        F = run.facts(cfg)
        # helpers this property stands on (rule sets owned by other properties, see common.deps)
        from common import deps as _deps
        _deps(run, F, 'drivers', 'isnone', 'accessors', 'agg_gates', 'casts', 'wrappers', 'fast_paths')
        ks = [k for k in find_kernels(F) if k.fn.file.endswith(('tea-rolling/src/binary.rs',
                                                                'tea-rolling/src/reg.rs'))]
        run.floor('ACC', 'rolling kernels in binary.rs + reg.rs', len(ks), 13)
        nacc = 0
        nres = 0
        for k in ks:
            m = KernelModel(k)
            nacc += acc.check_acc(run, m)
            acc.check_gate(run, m)
            if k.idx:
                nres += resid_range(run, m)
        run.floor('ACC.pair', 'accumulators in binary.rs + reg.rs', nacc, 57)
        run.floor('RESID.range', 'residual recomputation loops', nres, 3)
    if True:    # the algebraic comparison takes a few seconds: part of the quick tier too
        import casrules
        run.rule('CAS.form', casrules.RULE)
        n = casrules.check_rolling(run, run.facts('base'), ('binary.rs', 'reg.rs'))
        run.rule('VAR.floor', casrules.FLOOR_RULE)
        nf_ = casrules.check_floors(run, run.facts('base'), ('binary.rs',))
        run.floor('VAR.floor', 'variance floors', nf_, 2)
        run.floor('CAS.form', 'closed forms compared with their reference', n, 12)
    # every container the generic code can be instantiated with hands out its elements in logical order
    from common import dep_backends as _dep_backends
    _dep_backends(run)
    return run.finish(
        'other',
        'Structural necessary conditions: every accumulator of the 13 covariance / correlation '
        '/ regression kernels has an add update and an exactly inverse remove update under the '
        'same pairwise null guard; the statistic is read between them; the three residual '
        'kernels recompute over start.unwrap_or(0)..=end with pairwise null skip. '
        'Closed forms are compared with least squares by computer algebra (sympy as a normal-form comparator); rounding is '
        'not decided.',
        ASSUME, TRUSTED,
        'instances = (kernel, accumulator), (kernel, gate) and residual-loop sites')


def resid_range(run, m):
    """`(start.unwrap_or(0)..=end).map(|j| { (self.uget(j), other.uget(j)) ... })`"""
    import dtree
    import re as _re
    n = 0
    env = {lid: t for lid, t in m.tags.items()}
    for e in walk(m.body):
        if e.get('k') == 'MethodCall' and e.get('method') == 'map' and \
                peel(e['ch'][0]).get('ty', '').startswith(('std::ops::RangeInclusive', 'core::ops::RangeInclusive',
                                                            'std::ops::Range', 'core::ops::Range')) or \
                e.get('k') == 'MethodCall' and e.get('method') == 'map' and peel(e['ch'][0]).get('k') == 'Range':
            en = dtree.env_at(m.body, e, env)
            rng = dtree.canon(e['ch'][0], en)
            r_ok = rng == 'OLDIDXOPT.unwrap_or(0)..=END'
            cl = peel(e['ch'][1])
            idx_ok = g_ok = False
            det = ''
            if cl.get('k') == 'Closure':
                t = dtree.closure_table(m.body, cl, env)
                texts = [x for cs, l, ef in t for x in list(cs) + [l] + list(ef)]
                reads = set(_re.findall(r'(\w+)\.uget\((\w+)\)', ' ; '.join(texts)))
                idx_ok = reads == {('self', 'a0'), ('other', 'a0')}
                nonnull = [(cs, l) for cs, l, ef in t if l != 'NULL']
                g_ok = bool(nonnull) and all({'VALID(self.uget(a0))', 'VALID(other.uget(a0))'} <= set(cs)
                                             for cs, l in nonnull)
                det = 'reads %s' % sorted(reads)
            n += 1
            # what reduces the residuals: the parent method call on this map
            AGG = {'resid_mean': ('vmean', 1), 'resid_std': ('vstd', 2), 'resid_skew': ('vskew', 3)}
            stat = [k_ for k_ in AGG if k_ in m.k.name]
            red = [x for x in walk(m.body) if x.get('k') == 'MethodCall' and peel(x['ch'][0]) is e]
            if not red:
                # the stream bound to a name first: `let resid = (..).map(..); resid.vskew(3)`
                held = {s_['pat']['local'] for b_ in walk(m.body) if b_.get('k') == 'Block'
                        for s_ in b_.get('stmts', []) if s_['k'] == 'Let' and 'init' in s_ and
                        peel(s_['init']) is e and s_['pat'].get('k') == 'Binding'}
                red = [x for x in walk(m.body) if x.get('k') == 'MethodCall' and
                       peel(x['ch'][0]).get('res') == 'local' and peel(x['ch'][0]).get('local') in held]
            if stat:
                meth, K = AGG[stat[0]]
                okr = len(red) == 1 and red[0]['method'] == meth
                lit = None
                if okr and len(red[0]['ch']) > 1:
                    a_ = peel(red[0]['ch'][1])
                    lit = int(a_['v']) if a_.get('k') == 'Lit' and str(a_.get('v', '')).isdigit() else None
                    okr = lit is not None and lit <= K
                run.ob('RESID.agg', m.k.fn, 'residual aggregate', okr, loc(red[0]) if red else loc(e),
                       'reduced by `%s(%s)`; expected %s with a minimum count <= %d'
                       % (red[0]['method'] if red else '?', '' if lit is None else lit, meth, K))
            run.ob('RESID.range', m.k.fn, 'residual loop', r_ok and idx_ok and g_ok,
                   loc(e), 'range `%s` (%s), reads %s, pairwise guard %s; %s'
                   % (rng, 'ok' if r_ok else 'BAD', 'ok' if idx_ok else 'BAD', 'ok' if g_ok else 'MISSING', det))
    return n
