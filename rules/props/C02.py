"""C02 Rolling drivers call back once per position with exactly the right window."""
from common import TRUSTED, ASSUME, configs
import drivers
import backends


def check(run):
    for cfg in configs(run, extra_quick=('nd',)):
        F = run.facts(cfg)
        # helpers this property stands on (rule sets owned by other properties, see common.deps)
        from common import deps as _deps
        _deps(run, F, 'accessors')
        n = drivers.check_drivers(run, F)
        run.floor('IDX.driver', 'unchecked accesses in the 5 kernel-form drivers', n, 27)
        backends.check_fast_paths(run, F)
        from C07 import head_of
        backends.check_writes(run, F, head_of)
    # every container the generic code can be instantiated with hands out its elements in logical order
    from common import dep_backends as _dep_backends
    _dep_backends(run)
    return run.finish(
        'proof',
        'Obligations over the five kernel-form drivers and six iterator-form drivers of '
        'view.rs: every unchecked index is proved in bounds by linear arithmetic from the loop '
        'ranges; the warm-up and main loops partition [0,len) with one unconditional store at '
        'the loop position; callback arguments are (None | x[i-w+1] / i-w+1, x[i]) and the '
        'slice forms pass [max(0,i-w+1), i+1); iterator forms yield len items with the same '
        'pairing; every backend fast path is uninit(len) -> *_to(same args) -> assume_init. '
        'All symbolic in len and window.',
        ASSUME + ['two-series iterator forms: both series have equal length (documented)'],
        TRUSTED + ['Fourier-Motzkin LIA in rules/lia.py (can fail to prove, cannot wrongly prove)'],
        'instances = unchecked accesses, loops, stores, callback argument lists, iterator '
        'pieces, fast-path bodies')
