"""C03 Rolling extrema, arg-extrema, rank and normalisation are exact per window."""
from common import TRUSTED, ASSUME, configs, add_rules
import re
import acc
import idxkernel
import sib
import dtree
from algebra import Poly, Env, norm
from kernels import find_kernels, KernelModel, sym
from facts import (walk, walk_with_parents, children, peel, src, loc, callee_is, is_local,
                   _pat_binds, strip_generics, pat_src)


def check(run):
    add_rules(run, ['ACC.pair', 'ACC.guard', 'ACC.order', 'ACC.exit', 'GATE.form', 'GATE.dom'])
    for r, t in idxkernel.RULES.items():
        run.rule(r, t)
    extrema_rules(run)
    run.rule('RANK.count', 'the rank loop runs over start.unwrap_or(0)..end, counts strictly '
             'smaller non-null elements into rank and equal ones into n_repeat')
    run.rule('RANK.formula', 'average rank = rank + (n_repeat-1)/2, descending = (n+1) - that, '
             'pct divides by the valid count; a null current element gives null')
    run.rule('NORM.formula', 'z-score = (x - mean)/sample-std, min-max = (x-min)/(max-min); null '
             'when the spread is zero or x is null')
    run.rule('NORM.rescan', 'min-max normalisation rescans start..end for whichever cached '
             'extreme expired, with >= / <= (most recent wins), then folds in the current element')
    for cfg in configs(run):
        F = run.facts(cfg)
        if cfg == 'base': __import__('common').pins(run, F, 'number_prims')
        # helpers this property stands on (rule sets owned by other properties, see common.deps)
        from common import deps as _deps
        _deps(run, F, 'drivers', 'isnone', 'accessors', 'casts', 'wrappers', 'fast_paths')
        if cfg == 'base':
            _deps(run, F, 'ord')   # elements are compared through their own PartialOrd
        ks = {k.name: k for k in find_kernels(F) if k.fn.file.endswith(('cmp.rs', 'norm.rs'))}
        run.floor('C03', 'kernels in cmp.rs + norm.rs', len(ks), 7)
        if cfg == 'base':
            # the z-score's zero-spread test is on the window's variance itself
            import casrules
            run.rule('VAR.floor', casrules.FLOOR_RULE)
            nf_ = casrules.check_floors(run, F, ('norm.rs',))
            run.floor('VAR.floor', 'variance floors', nf_, 1)
        models = {}
        for name, k in ks.items():
            m = KernelModel(k)
            models[name] = m
            acc.check_acc(run, m)
            acc.check_gate(run, m)
            if k.idx:
                idxkernel.check_idx_kernel(run, m)
        extrema(run, ks, models)
        rank_kernel(run, models['ts_vrank_to'])
        zscore(run, models['ts_vzscore_to'])
        minmax(run, models['ts_vminmaxnorm_to'])
    # every container the generic code can be instantiated with hands out its elements in logical order
    from common import dep_backends as _dep_backends
    _dep_backends(run)
    return run.finish(
        'other',
        'Necessary structure of exactness for the 7 kernels of cmp.rs / norm.rs: the cached '
        'extreme is rescanned over start..=end exactly when its index expired and before use; '
        'ties replace the cache (most recent wins) through the null-last comparator; min and '
        'max kernels are mirror images; arg offsets are idx - start + 1; the rank loop counts '
        'over the window before the current element and the average-rank / descending / pct '
        'formulas are the defined ones; z-score and min-max closed forms; validity count '
        'paired; all unchecked reads in [0,end]. The loop invariant "cache = extreme of the '
        'window" itself is not derived.',
        ASSUME, TRUSTED,
        'instances = kernels x (expiry, tie, comparator, result, mirror, formula) sites')


def extrema_rules(run):
    run.rule('EXT.expiry', 'the cached extreme is re-established by a full rescan of '
             'start..=end exactly when its index has left the window (idx < start), before it '
             'is used; otherwise the incoming element is compared with the cache')
    run.rule('EXT.tie', 'rescan and incoming comparison both replace the cache on Less | Equal '
             '(the most recent of equal extremes wins), through the null-last comparator')
    run.rule('EXT.cmp', 'minimum kernels compare with sort_cmp, maximum kernels with '
             'sort_cmp_rev; no other comparison touches the cache')
    run.rule('EXT.result', 'arg-extrema report idx - start.unwrap_or(0) + 1; min/max report the '
             'cached value')
    run.rule('SIB.mirror', 'the maximum kernel is the minimum kernel with sort_cmp <-> sort_cmp_rev')


def extrema(run, ks, models=None):
    """the four rolling extreme kernels: expiry / tie / comparator / result sites and the min ~ max
    mirror (also run by C08: a null in the window never displaces a valid extreme, because every
    comparison that touches the cache is the null-last comparator in the kernel's own direction)"""
    if models is None:
        models = {n: KernelModel(k) for n, k in ks.items()}
    for name in ('ts_vargmin_to', 'ts_vmin_to', 'ts_vargmax_to', 'ts_vmax_to'):
        extreme_kernel(run, models[name], rev=('max' in name), arg=('arg' in name))
    for a, b in (('ts_vmin_to', 'ts_vmax_to'), ('ts_vargmin_to', 'ts_vargmax_to')):
        sa, sb = _mirror_sig(models[a]), _mirror_sig(models[b])
        diff = None
        if sa is None or sb is None:
            diff = 'cache variables not recognised'
        else:
            for part in ('body', 'rescan'):
                if sa[part] != sb[part]:
                    only_a = sorted(map(str, sa[part] - sb[part]))[:1]
                    only_b = sorted(map(str, sb[part] - sa[part]))[:1]
                    diff = '%s tables differ: %s  vs  %s' % (part, only_a, only_b)
                    break
        run.ob('SIB.mirror', ks[a].fn, '%s ~ %s' % (a, b), diff is None, ks[a].fn.loc(),
               'decision tables agree after sort_cmp_rev -> sort_cmp (%d + %d rows)' %
               (len(sa['body']), len(sa['rescan'])) if diff is None else diff)

def _mirror_sig(m):
    """Decision tables of an extreme kernel (closure body, rescan loop body) over role names,
    with the comparator name erased and independent assignments unordered."""
    m.classify()
    val, idx = _cache_vars(m)
    if len(val) != 1 or len(idx) != 1:
        return None
    env = {lid: t for lid, t in m.tags.items()}
    env[val[0]['updates'][0].target['local']] = 'CACHE'
    env[idx[0]['updates'][0].target['local']] = 'CIDX'
    cnt = acc.count_acc(m)
    if cnt is not None:
        env[cnt] = 'n'

    def sig(t):
        out = set()
        for cs, leaf, ef in t:
            groups = {}
            for e in ef:
                e = dtree.unprime(e).replace('sort_cmp_rev', 'sort_cmp')
                if e.startswith('for '):
                    e = '<rescan loop>'
                groups.setdefault(e.split(' ')[0], []).append(e)
            # `<=` is an accepted variant of the expiry test (see EXT.expiry)
            cs2 = frozenset(dtree.unprime(c).replace('sort_cmp_rev', 'sort_cmp')
                            .replace('(CIDX <= OLDIDXOPT)', '(CIDX < OLDIDXOPT)')
                            .replace('(OLDIDXOPT < CIDX)', '(OLDIDXOPT <= CIDX)') for c in cs)
            out.add((cs2, dtree.unprime(leaf), frozenset((k, tuple(v)) for k, v in groups.items())))
        return out
    body = sig(dtree.table(m.body, dict(env)))
    resc = set()
    for lp in [x for x in walk(m.body) if x.get('k') == 'For']:
        en = dtree.env_at(m.body, lp, dict(env))
        for b_ in _pat_binds(lp['pat']):
            en[b_['local']] = 'i'
        resc |= sig(dtree.table(lp['ch'][1], en))
    return {'body': body, 'rescan': resc}


def _ifs(e):
    return [x for x in walk(e) if x.get('k') == 'If']


def _cache_vars(m):
    """(value cache, index cache) of an extreme kernel, by role: both are only ever assigned
    (never accumulated); the index cache is the one assigned `Some(<position>)`."""
    accs = m.accumulators()
    ext = [a for a in accs.values() if all(u.op == 'Assign' for u in a['updates'])]
    idx = [a for a in ext if all(
        (lambda r: r.get('k') == 'Call' and strip_generics(r.get('callee', '')).endswith('Some') and
         (m.idx_tag(r['ch'][1]) == 'END' or peel(r['ch'][1]).get('k') == 'Path'))(peel(u.rhs))
        for u in a['updates'])]
    val = [a for a in ext if a not in idx]
    return val, idx


_CMP = re.compile(r'^(!?)(.+)\.(sort_cmp_rev|sort_cmp)\((.+)\) is (.+)$')


def _cmp_site(run, fn, node, block, env, where, cmpname, subj_want, idx_want):
    """Decision table of one comparison site: the cache is replaced by (subject, position)
    exactly on Less | Equal of `subject.<cmpname>(&cache)` and left alone otherwise."""
    t = dtree.table(block, env)
    upd, keep, sites, effs = set(), set(), set(), set()
    ok_rows = True
    for cs, leaf, ef in t:
        cc = [_CMP.match(c) for c in cs if '.sort_cmp' in c]
        ef = tuple(e for e in ef if ' := ' not in e)
        if len(cc) != 1 or cc[0] is None:
            ok_rows = False
            continue
        neg, subj, name, arg_, pats = cc[0].groups()
        sites.add((subj, name, arg_))
        ps = {x.strip() for x in pats.split('|')}
        if neg:
            # `cmp != Greater` is `cmp is Less | Equal`
            ps = {'Ordering::Less', 'Ordering::Equal', 'Ordering::Greater'} - ps
        if ef:
            effs.add(frozenset(ef))
            upd |= ps
        else:
            keep |= ps
    cmp_ok = ok_rows and sites == {(subj_want, cmpname, 'CACHE')}
    run.ob('EXT.cmp', fn, '%s comparison' % where, cmp_ok, loc(node),
           'compares %s (expected %s.%s(&cache))' % (sorted(sites), subj_want, cmpname))
    tie_ok = ok_rows and upd == {'Ordering::Less', 'Ordering::Equal'} and \
        not (keep & {'Ordering::Less', 'Ordering::Equal'})
    run.ob('EXT.tie', fn, '%s update arms' % where, tie_ok, loc(node),
           'cache replaced on %s, kept on %s' % (sorted(upd), sorted(keep)))
    want = frozenset({'CACHE = %s' % subj_want, 'CIDX = Some(%s)' % idx_want})
    run.ob('EXT.tie', fn, '%s assigns (value, index)' % where, effs == {want}, loc(node),
           '; '.join(sorted(' , '.join(sorted(e)) for e in effs)))


def extreme_kernel(run, m, rev, arg):
    fn = m.k.fn
    m.classify()
    val, idx = _cache_vars(m)
    if len(val) != 1 or len(idx) != 1:
        run.ob('EXT.expiry', fn, 'cache variables', False, fn.loc(),
               'found value caches %s, index caches %s' % ([a['name'] for a in val], [a['name'] for a in idx]))
        return
    V, I = val[0]['name'], idx[0]['name']
    vloc, iloc = val[0]['updates'][0].target['local'], idx[0]['updates'][0].target['local']
    env = {lid: t for lid, t in m.tags.items()}
    env[vloc], env[iloc] = 'CACHE', 'CIDX'
    cmpname = 'sort_cmp_rev' if rev else 'sort_cmp'
    other = 'sort_cmp' if rev else 'sort_cmp_rev'
    # expiry test: `idx < start` (`<=` is an accepted variant: the rescan covers start..=end)
    EXP = (['(CIDX < OLDIDXOPT)'], ['(CIDX <= OLDIDXOPT)'])
    exp_if = [x for x in _ifs(m.body)
              if dtree.conj(x['ch'][0], dict(env)) in EXP or dtree.conj(x['ch'][0], dict(env), False) in EXP]
    ok = len(exp_if) == 1 and len(exp_if[0]['ch']) == 3
    run.ob('EXT.expiry', fn, 'expiry test `%s < start`' % I, ok, loc(exp_if[0]) if exp_if else fn.loc(),
           '%d expiry test(s) with an else branch' % len(exp_if))
    if not ok:
        return
    X = exp_if[0]
    then, els = X['ch'][1], X['ch'][2]
    if dtree.conj(X['ch'][0], dict(env)) not in EXP:
        then, els = els, then       # written through its negation (`idx >= start`): branches swapped
    # rescan: for i in start..=end over OLDIDX..END
    loops = [x for x in walk(then) if x.get('k') == 'For']
    okr = False
    det = 'no rescan loop'
    if len(loops) == 1:
        r = peel(loops[0]['ch'][0])
        lo, hi = (peel(r['ch'][0]), peel(r['ch'][1])) if r.get('k') == 'Range' else (None, None)
        okr = r.get('k') == 'Range' and r['incl'] and m.idx_tag(lo) == 'OLDIDX' and \
            m.idx_tag(hi) == 'END'
        det = 'rescan range `%s`' % src(r)
        # the rescan starts from the element at start
        init = [u for u in m.updates if u.target['local'] == vloc and
                any(y is u.node for y in walk(then)) and not any(y is u.node for y in walk(loops[0]))]
        okr = okr and len(init) == 1 and m.tag_of(init[0].rhs) == 'OLD0'
        det += '; seeded with x[start]: %s' % (len(init) == 1 and m.tag_of(init[0].rhs) == 'OLD0')
    run.ob('EXT.expiry', fn, 'rescan covers start..=end', okr, loc(then), det)
    # tie rule + comparator in rescan and incoming, as decision tables
    if len(loops) == 1:
        lenv = dict(env)
        for b in _pat_binds(loops[0]['pat']):
            lenv[b['local']] = 'i'
        _cmp_site(run, fn, loops[0], loops[0]['ch'][1], lenv, 'rescan', cmpname, 'self.uget(i)', 'i')
    _cmp_site(run, fn, els, els, dict(env), 'incoming', cmpname, 'NEW0', 'END')
    ncmp = [x for x in walk(m.body) if x.get('k') == 'MethodCall' and callee_is(x, 'IsNone::' + cmpname)]
    run.ob('EXT.tie', fn, 'two comparison sites', len(ncmp) == 2, loc(X),
           '%d comparison site(s)' % len(ncmp))
    # no stray use of the other comparator
    stray = [x for x in walk(m.body) if x.get('k') == 'MethodCall' and callee_is(x, 'IsNone::' + other)]
    run.ob('EXT.cmp', fn, 'no %s' % other, not stray, loc(stray[0]) if stray else fn.loc(),
           '%d use(s) of the opposite comparator' % len(stray))
    # first valid element seeds the cache
    first = [x for x in _ifs(m.body) if dtree.conj(x['ch'][0], dict(env)) == ['!VALID(CIDX)']]
    okf = False
    if len(first) == 1:
        ups = [u for u in m.updates if any(u.node is y for y in walk(first[0]['ch'][1]))]
        okf = {u.target['local'] for u in ups} == {vloc, iloc} and 'VALID(NEW0)' in ups[0].guards and \
            all((m.idx_tag(peel(u.rhs)['ch'][1]) == 'END') if u.target['local'] == iloc else
                (m.tag_of(u.rhs) == 'NEW0') for u in ups)
    run.ob('EXT.expiry', fn, 'first valid element seeds the cache', okf,
           loc(first[0]) if first else fn.loc(), 'under v.is_some() && %s.is_none()' % I)
    # order: seed < expiry < result < count decrement
    res_reads = [x for x in walk(m.body) if x.get('k') == 'Path' and x.get('local') in (vloc, iloc)
                 and x['_seq'] > max(y['_seq'] for y in walk(X))]
    run.ob('EXT.expiry', fn, 'cache read only after the expiry step', bool(res_reads) and
           (not first or first[0]['_seq'] < X['_seq']), loc(X),
           '%d read(s) of the cache after the expiry step' % len(res_reads))
    # result expression
    if arg:
        # `idx.map(f)`, `idx.map_or(d, f)`, `idx.map_or_else(d, f)`: the closure is the last argument
        maps = [x for x in walk(m.body) if x.get('k') == 'MethodCall' and
                x['method'] in ('map', 'map_or', 'map_or_else') and peel(x['ch'][0]).get('local') == iloc]
        okm = False
        det = 'no `%s.map(..)`' % I
        if len(maps) == 1:
            from algebra import parse_poly
            cl = peel(maps[0]['ch'][-1])
            en_c = dtree.env_at(m.body, cl['ch'][0], dict(env)) if cl.get('k') == 'Closure' else {}
            body_s = dtree.canon(cl['ch'][0], en_c) if cl.get('k') == 'Closure' else '?'
            p = parse_poly(body_s)
            want_p = parse_poly('((a0 - OLDIDXOPT.unwrap_or(0)) + 1)')
            okm = p == want_p
            det = 'offset = %s' % body_s
        run.ob('EXT.result', fn, '1-based offset from the window start', okm,
               loc(maps[0]) if maps else fn.loc(), det)
    else:
        lv = acc.result_leaves(m, acc.count_acc(m), acc.gate_form(m)['local'])
        nn = [e for e, g in lv if not acc.is_null_literal(e)]
        okm = len(nn) == 1 and peel(nn[0]).get('local') == vloc
        run.ob('EXT.result', fn, 'reports the cached value', okm, fn.loc(),
               'non-null result: %s' % [src(e)[:40] for e in nn])


def rank_kernel(run, m):
    from algebra import parse_poly, defs_of
    fn = m.k.fn
    env = {lid: t for lid, t in m.tags.items()}
    loops = [x for x in walk(m.body) if x.get('k') == 'For']
    ok = len(loops) == 1
    det = '%d loop(s)' % len(loops)
    rank_v = nrep_v = None
    if ok:
        en_l = dtree.env_at(m.body, loops[0], env)
        rng = dtree.canon(loops[0]['ch'][0], en_l)
        okr = rng == 'OLDIDXOPT.unwrap_or(0)..END'
        en_b = dict(en_l)
        for b_ in _pat_binds(loops[0]['pat']):
            en_b[b_['local']] = 'i'
        tbl = dtree.table(loops[0]['ch'][1], en_b)
        want = dtree.Table([
            (frozenset({'VALID(self.uget(i))', '(self.uget(i) < NEW0)'}), '()', ('rank AddAssign 1.',)),
            (frozenset({'VALID(self.uget(i))', '(NEW0 == self.uget(i))'}), '()', ('nrep AddAssign 1',)),
            (frozenset({'VALID(self.uget(i))', '(NEW0 < self.uget(i))'}), '()', ()),
            (frozenset({'!VALID(self.uget(i))'}), '()', ())])
        okt = tbl == want
        for cs, l, ef in tbl:
            for e in ef:
                mm = re.match(r"(\w+)'* AddAssign 1(\.?)$", e)
                if mm:
                    if mm.group(2):
                        rank_v = mm.group(1)
                    else:
                        nrep_v = mm.group(1)
        g = dtree.guards_at(m.body, loops[0], env)
        guard = bool(g) and 'VALID(NEW0)' in g[0]
        run.ob('RANK.count', fn, 'loop range', okr, loc(loops[0]), 'range `%s`' % rng)
        run.ob('RANK.count', fn, 'loop body', okt and guard, loc(loops[0]),
               'table %s; under v.not_none(): %s' % (dtree.show(tbl), guard))
    else:
        run.ob('RANK.count', fn, 'loop range', False, fn.loc(), det)
    # formulas: the value written to the output per (rev, pct), as polynomials over
    # rank / n_repeat / n with helper lets substituted
    m.classify()
    cnt_local = acc.count_acc(m)
    env2 = dict(env)
    if cnt_local is not None:
        env2['__names__'] = {cnt_local: 'n'}
        env2[cnt_local] = 'n'
    t = dtree.table(m.body, env2)
    sym = lambda x: Poly.atom(('sym', x))
    rank, nrep, n = sym(rank_v or '?'), sym(nrep_v or '?'), sym('n')
    half = Poly.const(1) * Poly({(): __import__('fractions').Fraction(1, 2)})
    asc = rank + half * (nrep - Poly.const(1))
    desc = (n + Poly.const(1)) - rank - half * (nrep - Poly.const(1))
    want = {('asc', 'abs'): asc, ('desc', 'abs'): desc, ('asc', 'pct'): asc * n.inv(), ('desc', 'pct'): desc * n.inv()}
    got = {}
    nullcur_ok = True
    n_null = 0
    for cs, leaf, ef in t:
        u = dtree.unprime
        cs_u = {u(c) for c in cs}
        if '(min_periods <= n)' not in cs_u:
            continue
        efu = [u(e) for e in ef]
        defs = defs_of(efu)
        val = None
        lf = u(leaf)
        for e in reversed(efu):
            mm = re.match(r'%s (?:=|:=) (.*)$' % re.escape(lf), e)
            if mm:
                val = mm.group(1)
                break
        if val is None:
            val = lf
        if '!VALID(NEW0)' in cs_u:
            n_null += 1
            # the current element is null: rank is set to NaN before the formula
            nullcur_ok = nullcur_ok and any(re.fullmatch(r'%s = NULL' % re.escape(rank_v or '?'), e) for e in efu)
            continue
        if 'VALID(NEW0)' not in cs_u:
            continue
        key = ('desc' if 'rev' in cs_u else 'asc' if '!rev' in cs_u else '?',
               'pct' if 'pct' in cs_u else 'abs' if '!pct' in cs_u else '?')
        # accumulators keep their names: only immutable helper lets are definitions
        defs = {k: v for k, v in defs.items() if k not in (rank_v, nrep_v, 'n')}
        p_ = parse_poly(val, defs)
        got.setdefault(key, set()).add(p_)
    for k in sorted(want):
        g_ = got.get(k, set())
        run.ob('RANK.formula', fn, '%s %s' % k, g_ == {want[k]}, fn.loc(),
               'got %s, expected %s' % ([x.show() for x in g_] or 'nothing', want[k].show()))
    run.ob('RANK.formula', fn, 'null current element', nullcur_ok and n_null > 0, fn.loc(),
           'rank = NaN on the %d null-element path(s): %s' % (n_null, nullcur_ok))


def _nonnull_leaf_poly(m):
    gf = acc.gate_form(m)
    lv = acc.result_leaves(m, acc.count_acc(m), gf['local'])
    nn = [e for e, g in lv if not acc.is_null_literal(e)]
    return nn


def _env_for(m, node):
    """Env with the immutable lets that dominate `node` inside the closure (block-wise)."""
    from algebra import read_block
    env = Env()
    m._name_tags(env)
    def rec(e):
        if e is node:
            return True
        if e.get('k') == 'Block':
            saved = dict(env.vals)
            for s in e.get('stmts', []):
                x = s.get('init') or s.get('e')
                if x is not None and any(y is node for y in walk(x)):
                    return rec(x) if x is not node else True
                read_block({'stmts': [s]}, env)
                m._name_tags(env)
            if 'expr' in e and any(y is node for y in walk(e['expr'])):
                return rec(e['expr']) if e['expr'] is not node else True
            env.vals.clear()
            env.vals.update(saved)
            return False
        for c in children(e):
            if any(y is node for y in walk(c)):
                return rec(c) if c is not node else True
        return False
    rec(m.body)
    return env


def zscore(run, m):
    fn = m.k.fn
    nn = _nonnull_leaf_poly(m)
    ok = len(nn) == 1
    det = '%d non-null leaf/leaves' % len(nn)
    if ok:
        env = _env_for(m, nn[0])
        p = norm(nn[0], env)
        v, s, s2, n = sym('NEW0'), sym('sum'), sym('sum2'), sym('n')
        mean = s * n.inv()
        var = s2 * n.inv() - mean * mean
        inner = var * n * (n - Poly.const(1)).inv()
        want = (v - mean) * Poly.atom(('fn', 'sqrt', (inner.freeze(),))).inv()
        ok = p == want
        det = 'got %s ; expected %s' % (p.show()[:200], want.show()[:200])
        # spread-zero guard
        g = [x for x, ps in walk_with_parents(m.body) if x is nn[0]]
    run.ob('NORM.formula', fn, 'z-score closed form', ok, loc(nn[0]) if nn else fn.loc(), det)
    conds = [src(peel(x['ch'][0])) for x in walk(m.body) if x.get('k') == 'If' and
             nn and any(y is nn[0] for y in walk(x['ch'][1]))]
    run.ob('NORM.formula', fn, 'z-score guards', any('var' in c and 'EPS' in c and '>' in c for c in conds)
           and any('not_none' in c for c in conds), fn.loc(), 'conditions: %s' % conds)


def _minmax_roles(m):
    """The four caches of ts_vminmaxnorm by role: the maximum's value cache starts from (and is
    re-seeded with) the type's minimum, the minimum's from the type's maximum; each index cache
    is the variable assigned a position in the same branch as its value cache."""
    import dtree as D
    m.classify()
    roles = {}
    pre_env = {}
    for st in m.k.pre:
        if st.get('k') == 'Let' and 'init' in st:
            for p_, v_ in ([(st['pat'], st['init'])] if st['pat'].get('k') == 'Binding' else
                           list(zip(st['pat'].get('ch', []), peel(st['init']).get('ch', [])))
                           if peel(st['init']).get('k') == 'Tup' else []):
                if p_.get('k') == 'Binding':
                    c = D.canon(v_, {})
                    if c == 'Number::min_()':
                        roles[p_['local']] = 'MAXV'
                    elif c == 'Number::max_()':
                        roles[p_['local']] = 'MINV'
    # index caches: assigned next to the value cache
    for blk in walk(m.body):
        if blk.get('k') != 'Block':
            continue
        asg = [peel(s_.get('e', {})) for s_ in blk.get('stmts', []) if s_['k'] in ('Semi', 'Expr')]
        asg = [a for a in asg if a.get('k') == 'Assign' and peel(a['ch'][0]).get('res') == 'local']
        tg = [peel(a['ch'][0])['local'] for a in asg]
        for which, idxname in (('MAXV', 'MAXI'), ('MINV', 'MINI')):
            vl = [l for l, r in roles.items() if r == which]
            if vl and vl[0] in tg:
                for a in asg:
                    l = peel(a['ch'][0])['local']
                    r = peel(a['ch'][1])
                    if l not in roles and r.get('k') == 'Path' and r.get('res') == 'local' and \
                            (m.idx_tag(r) == 'END' or r.get('ty') == 'usize') and \
                            asg.index(a) in (tg.index(vl[0]) - 1, tg.index(vl[0]) + 1):
                        roles[l] = idxname
    return roles


def minmax(run, m):
    from algebra import parse_poly
    fn = m.k.fn
    roles = _minmax_roles(m)
    ok_roles = sorted(roles.values()) == ['MAXI', 'MAXV', 'MINI', 'MINV']
    run.ob('NORM.rescan', fn, 'cache variables', ok_roles, fn.loc(),
           'value / index caches by role: %s' % sorted(roles.values()))
    if not ok_roles:
        return
    env = {lid: t for lid, t in m.tags.items()}
    env.update(roles)
    cnt = acc.count_acc(m)
    if cnt is not None:
        env[cnt] = 'n'
    u = dtree.unprime
    t = dtree.table(m.body, dict(env))
    # closed form and guards
    nonnull = [(cs, l, ef) for cs, l, ef in t if l != 'NULL']
    okf = bool(nonnull)
    det = '%d non-null path(s)' % len(nonnull)
    want = (parse_poly('NEW0') - parse_poly('MINV')) * (parse_poly('MAXV') - parse_poly('MINV')).inv()
    for cs, l, ef in nonnull:
        csu = {u(c) for c in cs}
        if parse_poly(u(l)) != want:
            okf = False
            det = 'value %s' % l
    run.ob('NORM.formula', fn, 'min-max closed form', okf, fn.loc(), det + ' ; expected ' + want.show())
    okg = bool(nonnull) and all({'(min_periods <= n)', 'VALID(NEW0)'} <= {u(c) for c in cs} and
                                ('(MAXV != MINV)' in {u(c) for c in cs} or '(MINV != MAXV)' in {u(c) for c in cs})
                                for cs, l, ef in nonnull)
    run.ob('NORM.formula', fn, 'min-max guards', okg, fn.loc(),
           'non-null only with n >= min_periods, a valid element and max != min')
    # rescans: one loop per combination of expired caches, over start..end, re-seeded first
    V = 'VALID(self.uget(i))'
    UPD = {'MAX': ('(MAXV <= self.uget(i))', '(self.uget(i) < MAXV)', ('MAXV = self.uget(i)', 'MAXI = i')),
           'MIN': ('(self.uget(i) <= MINV)', '(MINV < self.uget(i))', ('MINV = self.uget(i)', 'MINI = i'))}
    EXP = {'MAX': '(MAXI < OLDIDXOPT)', 'MIN': '(MINI < OLDIDXOPT)'}
    SEED = {'MAX': 'MAXV = Number::min_()', 'MIN': 'MINV = Number::max_()'}
    loops = [x for x in walk(m.body) if x.get('k') == 'For']
    seen = set()
    for lp in loops:
        g = dtree.guards_at(m.body, lp, dict(env))
        gc = {u(c) for c in (g[0] if g else [])}
        which = tuple(k for k in ('MAX', 'MIN') if EXP[k] in gc)
        key = 'rescan under expired %s' % (' + '.join(which) or 'nothing')
        en_l = dict(g[1]) if g else dict(env)
        rng = u(dtree.canon(lp['ch'][0], en_l))
        for b_ in _pat_binds(lp['pat']):
            en_l[b_['local']] = 'i'
        bt = dtree.Table((frozenset(u(c) for c in cs), l, tuple(sorted(u(e) for e in ef)))
                         for cs, l, ef in dtree.table(lp['ch'][1], en_l))
        rows = [(frozenset({'!' + V}), '()', ())]
        import itertools
        for combo in itertools.product((True, False), repeat=len(which)):
            cs = {V}
            ef = []
            for k, hit in zip(which, combo):
                cs.add(UPD[k][0] if hit else UPD[k][1])
                if hit:
                    ef.extend(UPD[k][2])
            rows.append((frozenset(cs), '()', tuple(sorted(ef))))
        good = bool(which) and rng == 'OLDIDXOPT..END' and 'VALID(OLDIDXOPT)' in gc and bt == dtree.Table(rows)
        # the expired caches are re-seeded from the sentinel before the loop, in the same branch
        seeds = set()
        for blk in walk(m.body):
            if blk.get('k') == 'Block' and (any(peel(s_.get('e', {})) is lp for s_ in blk.get('stmts', [])) or
                                            ('expr' in blk and peel(blk['expr']) is lp)):
                for s_ in blk['stmts']:
                    x_ = peel(s_.get('e', {}))
                    if x_ is lp:
                        break
                    if x_.get('k') in ('Assign',):
                        seeds.add(u(dtree.canon(x_, dict(g[1]) if g else dict(env))))
                    if x_.get('k') == 'Block' and x_.get('multi_assign'):
                        for s2 in x_['stmts']:
                            seeds.add(u(dtree.canon(s2['e'], dict(g[1]) if g else dict(env))))
        good_seed = seeds == {SEED[k] for k in which}
        run.ob('NORM.rescan', fn, key, good and good_seed, loc(lp),
               'range %s; seeds %s; table %s' % (rng, sorted(seeds), dtree.show(bt)))
        seen.add(which)
    run.ob('NORM.rescan', fn, 'dispatch', seen == {('MAX',), ('MIN',), ('MAX', 'MIN')}, fn.loc(),
           'rescan loops for expired combinations %s' % sorted(seen))
    # current element folded in with >= / <= (most recent wins), before the result is read
    folds = {}
    for x in walk(m.body):
        if x.get('k') != 'If' or any(x is y for lp in loops for y in walk(lp)):
            continue
        g = dtree.guards_at(m.body, x, dict(env))
        if not g or 'VALID(NEW0)' not in {u(c) for c in g[0]}:
            continue
        c = [u(c_) for c_ in dtree.conj(x['ch'][0], dict(g[1]))]
        for k, cond, eff in (('MAX', '(MAXV <= NEW0)', {'MAXV = NEW0', 'MAXI = END'}),
                             ('MIN', '(NEW0 <= MINV)', {'MINV = NEW0', 'MINI = END'})):
            if c == [cond]:
                bt = dtree.table(x, dict(g[1]))
                upd = [set(u(e) for e in ef) for cs, l, ef in bt if ef]
                folds[k] = upd == [eff] and len(x['ch']) == 2
    run.ob('NORM.rescan', fn, 'current element folded in', folds == {'MAX': True, 'MIN': True}, fn.loc(),
           'v >= max replaces (max, idx), v <= min replaces (min, idx): %s' % folds)
