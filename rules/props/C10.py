"""C10 Kernels never index out of bounds and initialise every output slot exactly once."""
from common import TRUSTED, ASSUME, configs
import drivers
import backends
import idxkernel
import seqrules
import seq as S
import lia
from lia import L
from kernels import find_kernels, KernelModel
from facts import (walk, walk_with_parents, peel, src, loc, callee_is, strip_generics, _pat_binds,
                   is_local)

UNCHECKED = ('Vec1View::uget', 'Vec1View::uslice', 'Vec1View::uvget', 'Vec1Mut::uget_mut',
             'UninitVec::uset', 'UninitRefMut::uset', 'UninitVec::assume_init')
UNCHECKED_M = ('get_unchecked', 'get_unchecked_mut', 'assume_init', 'uset', 'uget', 'uslice',
               'uvget', 'uget_mut')

# sites this technique cannot decide (declared, not alarmed)
UNDECIDED = {
    ('tea-map/src/vec_map.rs', 'vrank'):
        'run-length bookkeeping: that every slot is written once and `i - j` never underflows '
        'needs the loop invariant repeat_num <= i + 1 over sorted data',
}


def is_unchecked(x):
    return x.get('k') in ('MethodCall', 'Call') and (
        callee_is(x, *UNCHECKED) or x.get('method') in UNCHECKED_M)


def check(run):
    run.rule('IDX.checked', 'an unchecked access outside the drivers is dominated by a bounds '
             'test (`index < self.len()`, a length equality, or a loop over 0..len) that proves it')
    run.rule('IDX.perm', 'comparator closures of the partition kernels index the series only '
             'with elements of an index vector built as 0..len and merely permuted / truncated')
    run.rule('IDX.select', '`select_nth_unstable_by(k)` is reached only with k < length of the '
             'working copy')
    run.rule('IDX.pass', 'a backend accessor passes its index argument unchanged to the '
             'container\'s own unchecked accessor')
    run.rule('IDX.unsafe-only', 'every call of an unchecked accessor in the workspace belongs '
             'to a function covered by one of the rules above (or is declared undecidable)')
    for r, t in idxkernel.RULES.items():
        run.rule(r, t)
    for cfg in configs(run, extra_quick=('nd',)):
        F = run.facts(cfg)
        # helpers this property stands on (rule sets owned by other properties, see common.deps)
        from common import deps as _deps
        _deps(run, F, 'accessors')
        claimed = set()
        n = drivers.check_drivers(run, F, rules=('IDX.driver', 'IDX.other', 'DRV.cover',
                                                 'DRV.early', 'DRV.iter', 'SEQ.len'))
        for nm in drivers.TO_FNS + drivers.ITER_FNS:
            claimed.add(('tea-core/src/vec_core/cores/view.rs', nm))
        if cfg == 'base':
            # a trusted consumer allocates the announced length and exposes exactly that many slots:
            # every `to_trust(len)` declaration site must announce the number of items really yielded
            import C09 as _C09
            import lag as _lag
            import seqrules as _sq
            for r_, t_ in _sq.RULES.items():
                run.rule(r_, t_)
            _lag.check_lag(run, F, rules=('SEQ.len', 'SEQ.ret-len', 'SEQ.underflow'))
            for name_, _c in _C09.SEQ_FNS:
                fn_ = F.one(name_)
                ev_ = _sq.run_eval(fn_)
                _sq.check_len_sites(run, fn_, ev_)
                ksym_ = _sq.param_sym(fn_, 'kth')
                _sq.check_ret_len(run, fn_, ev_, lambda W, k=ksym_: {k: 1, 1: 1}, 'k + 1')
            _C09.other_sites(run, F)
        backends.check_fast_paths(run, F)
        from C07 import head_of
        backends.check_writes(run, F, head_of)
        for fn in backends.vec1view_impl_fns(F):
            if fn.name in backends.ROLL:
                claimed.add((fn.file, fn.name))
        nk = 0
        for k in find_kernels(F):
            if k.idx:
                nk += idxkernel.check_idx_kernel(run, KernelModel(k))
                claimed.add((k.fn.file, k.fn.name))
        run.floor('IDX.kernel', 'unchecked reads in window-index kernels', nk, 30)
        # generic: evaluator-proved sites
        nchk = 0
        for fn in F.fns:
            if fn.kind == 'Closure' or fn.hir is None:
                continue
            key = (fn.file, fn.name)
            if key in claimed or key in UNDECIDED:
                continue
            sites = [x for x in walk(fn.hir) if is_unchecked(x)]
            if not sites:
                continue
            if fn.impl_trait and fn.name in ('uget', 'uslice', 'uget_mut', 'uset', 'assume_init',
                                             'uvget'):
                claimed.add(key)
                pass_through(run, fn, sites)
                continue
            if fn.name in ('varg_partition',):
                claimed.add(key)
                perm_rule(run, fn, sites)
                select_rule(run, fn)
                continue
            if fn.container == 'trait' and fn.name in ('uvget', 'uslice'):
                # default bodies forwarding to the required accessor with the same arguments
                claimed.add(key)
                pass_through(run, fn, sites)
                continue
            claimed.add(key)
            nchk += checked_rule(run, fn, sites)
        for nm in ('MapValidVec::vpartition', 'VecAggValidExt::vquantile'):
            select_rule(run, F.one(nm))
        run.floor('IDX.checked', 'checked-wrapper sites', nchk, 7)
        # who may call
        for fn in F.fns:
            if fn.kind == 'Closure' or fn.hir is None:
                continue
            if any(is_unchecked(x) for x in walk(fn.hir)):
                key = (fn.file, fn.name)
                if key in UNDECIDED:
                    run.unproven.append('%s::%s: %s' % (key[0], key[1], UNDECIDED[key]))
                    continue
                run.ob('IDX.unsafe-only', fn, 'unchecked accessor user', key in claimed, fn.loc(),
                       'covered' if key in claimed else
                       'function calls an unchecked accessor but no rule covers it')
    # every container the generic code can be instantiated with hands out its elements in logical order
    from common import dep_backends as _dep_backends
    _dep_backends(run)
    # the buffers every kernel writes into / every collector returns are the backends' own, of the requested size
    from common import dep_alloc as _dep_alloc
    _dep_alloc(run, polars=True)
    return run.finish(
        'other',
        'All call sites of the unchecked accessors (uget / uslice / uset / uget_mut / '
        'assume_init / get_unchecked) are enumerated from resolved callees. Drivers: indices '
        'proved in bounds by LIA, the loops partition [0,len) with one store per slot, no '
        'return before writing while len > 0, second-series reads dominated by a length check; '
        'fast paths are the uninit(len) -> *_to -> assume_init skeleton; index kernels read '
        'only indices in [0,end]; checked wrappers are dominated by their bounds test; '
        'partition comparators index with a permutation of 0..len; select_nth(k) has k < len. '
        'vrank\'s data-dependent writes are declared undecidable here (not alarmed).',
        ASSUME, TRUSTED + ['Fourier-Motzkin LIA in rules/lia.py'],
        'instances = unchecked-accessor call sites grouped by covering rule')


def pass_through(run, fn, sites):
    params = [b['name'] for p in fn.params for b in _pat_binds(p)][1:]
    for x in sites:
        a = [src(peel(c)) for c in (x['ch'][1:])]
        idx_args = [s for s in a if s in params or '..' in s or 's!' in s]
        ok = all(p in ' '.join(a) for p in params if p in ('index', 'idx', 'start', 'end', 'i'))
        # arguments must be the bare parameters (or a range / slice-spec built from them)
        bare = all(s in params or s.replace(' ', '') in ('start..end', '(start..end)') or
                   s in ('v', '_v') for s in a)
        run.ob('IDX.pass', fn, '%s for %s: %s' % (fn.name, fn.impl_self or 'default', src(x)[:60]),
               ok and bare, loc(x), 'arguments (%s) from parameters (%s)' % (', '.join(a),
                                                                          ', '.join(params)))


def perm_rule(run, fn, sites):
    # index vector locals: `let mut idx_sorted = Vec1Create::range(None, <len> as i32, None)`
    vec_locals = {}
    for x in walk(fn.hir):
        if x.get('k') == 'Block':
            for s in x.get('stmts', []):
                if s['k'] == 'Let' and 'init' in s and s['pat'].get('k') == 'Binding':
                    init = peel(s['init'])
                    if init.get('k') == 'Call' and callee_is(init, 'Vec1Create::range'):
                        a = [src(peel(c)) for c in init['ch'][1:]]
                        if a[0].endswith('None') and a[2].endswith('None') and \
                                a[1] in ('(self.len() as i32)', '(slc.len() as i32)'):
                            vec_locals[s['pat']['local']] = a[1]
    for e, parents in walk_with_parents(fn.hir):
        if not is_unchecked(e) or not callee_is(e, 'Vec1View::uget'):
            continue
        cl = [p for p in parents if p.get('k') == 'Closure']
        ok = False
        why = 'not inside a comparator closure'
        if cl:
            c = cl[-1]
            pnames = {b['local'] for p in c['params'] for b in _pat_binds(p)}
            idx = peel(e['ch'][1])
            while idx.get('k') in ('Cast',) or (idx.get('k') == 'Unary' and idx['op'] == 'Deref'):
                idx = peel(idx['ch'][0])
            from_param = idx.get('res') == 'local' and idx['local'] in pnames
            # the closure must be used only as a comparator of an index vector
            users = _closure_users(fn, c)
            ok = from_param and is_local(peel(e['ch'][0]), 'self') and bool(users) and \
                all(u in vec_locals for u in users)
            why = 'index is the comparator\'s own argument: %s; comparator applied to index ' \
                  'vector(s) built as 0..len: %s' % (from_param, bool(users) and
                                                     all(u in vec_locals for u in users))
        run.ob('IDX.perm', fn, src(e)[:60] + ' @' + loc(e).split(':')[-1], ok, loc(e), why)
    # the index vectors are only permuted / truncated / consumed
    for lid, ln in vec_locals.items():
        bad = []
        for x in walk(fn.hir):
            if x.get('k') == 'MethodCall' and peel(x['ch'][0]).get('local') == lid:
                if x['method'] not in ('sort_unstable_by', 'select_nth_unstable_by', 'truncate',
                                       'into_iter', 'len'):
                    bad.append(x['method'])
            if x.get('k') in ('Assign', 'AssignOp', 'Index') and \
                    peel(x['ch'][0]).get('local') == lid:
                bad.append(x['k'])
        run.ob('IDX.perm', fn, 'index vector #%d only permuted' % lid, not bad, fn.loc(),
               'built from 0..%s; other uses: %s' % (ln, bad or 'none'))


def _closure_users(fn, c):
    """locals on which the closure (directly or via a `let sort_func = |..|` binding) is used
    as a comparator."""
    users = set()
    binder = None
    for x in walk(fn.hir):
        if x.get('k') == 'Block':
            for s in x.get('stmts', []):
                if s['k'] == 'Let' and peel(s.get('init', {})) is c:
                    binder = s['pat'].get('local')
    for x in walk(fn.hir):
        if x.get('k') == 'MethodCall' and x['method'] in ('sort_unstable_by', 'select_nth_unstable_by'):
            fa = peel(x['ch'][-1])
            if fa is c or (binder is not None and fa.get('local') == binder):
                r = peel(x['ch'][0])
                if r.get('res') == 'local':
                    users.add(r['local'])
    return users


def select_rule(run, fn):
    ev = seqrules.run_eval(fn)
    seen = {}
    for kind, node, W, forms, recv, _ in ev.accesses:
        if kind != 'select_nth':
            continue
        fs = seqrules.facts_of(ev, W)
        k, ln = forms
        ok = k is not None and lia.entails_lt(fs, k, ln)
        key = id(node)
        if key not in seen or (seen[key][1] and not ok):
            seen[key] = (node, ok, k, ln)
    # non-linear k (vquantile: j = ceil((n-1)q)) : bounded by the audited fact j <= n - 1
    for x in walk(fn.hir):
        if x.get('k') == 'MethodCall' and x['method'] == 'select_nth_unstable_by' and \
                id(x) not in seen:
            ksrc = src(peel(x['ch'][1]))
            seen[id(x)] = (x, None, ksrc, None)
    nonlin = [v for v in seen.values() if v[1] is None]
    if nonlin:
        # quantile index: j = ceil(Q * (n-1)) with Q = q or 1 - q, 0 <= q <= 1 tested on the path,
        # n the valid count and n >= 1 on the path: so j <= n - 1 < len.  Read from the decision
        # table with the lets expanded, so variable names and statement order do not matter.
        import re as _re
        import dtree as _dt
        import nullrules as _N
        from algebra import defs_of
        NV = 'self.titer().count_valid()'
        t = _N.tbl(fn)
        nsel, bad = 0, []
        for cs, leaf, ef in t:
            defs = defs_of(ef)
            pure = {k_: v_ for k_, v_ in defs.items() if 'select_nth' not in v_ and 'collect_trusted' not in v_}

            def expand(x, depth=0):
                for k_, v_ in pure.items():
                    x = _re.sub(r"\b%s\b(?!')" % k_, lambda _m: v_, x)
                return x if depth > 3 or not any(_re.search(r"\b%s\b" % k_, x) for k_ in pure) else expand(x, depth + 1)
            for e_ in ef:
                m_ = _re.search(r'select_nth_unstable_by\((.*), [\w:|, .()]+\)$', expand(e_))
                if 'select_nth_unstable_by(' not in e_:
                    continue
                nsel += 1
                arg = m_.group(1) if m_ else '?'
                forms = {'(%s * %s).ceil().usize()' % tuple(sorted((Q, '(%s - 1)' % NV)))
                         for Q in ('q', '(1. - q)')}
                in_range = '0...=1..contains(q)' in cs
                cc = [c for c in cs if NV in c and _dt.holds(c, {NV: 0}) is not None]
                positive = bool(cc) and not all(_dt.holds(c, {NV: 0}) for c in cc)
                if arg not in forms or not in_range or not positive:
                    bad.append('%s under %s' % (arg[:70], sorted(cs)[:3]))
        run.ob('IDX.select', fn, 'select_nth_unstable_by(ceil(Q * (n - 1)))', nsel >= len(nonlin) and not bad,
               loc(nonlin[0][0]), ('k = ceil(Q*(n-1)) with Q in {q, 1-q}, q in [0,1] tested on the path, '
                                   'n = valid count >= 1 on the path: k <= n-1 < len; %d selection(s) on %d path(s)'
                                   % (len(nonlin), nsel)) if not bad else 'not of that form: %s' % bad[:2])
    for node, ok, k, ln in seen.values():
        if ok is None:
            continue
        run.ob('IDX.select', fn, 'select_nth_unstable_by(%s)' % (
            S._clean(lia.show(k)) if k is not None else '?'),
            ok, loc(node), 'k %s length %s' % ('<' if ok else 'NOT proved <',
                                               S._clean(lia.show(ln))))


def checked_rule(run, fn, sites):
    ev = seqrules.run_eval(fn)
    per = {}
    for kind, node, W, forms, recv, lp in ev.accesses:
        if kind not in ('uget', 'uset', 'uslice'):
            continue
        fs = seqrules.facts_of(ev, W)
        bound = L('len(%s)' % recv)
        if kind == 'uslice':
            ok = all(f is not None for f in forms) and lia.entails_ge0(fs, forms[0]) and \
                lia.entails_le(fs, forms[0], forms[1]) and lia.entails_le(fs, forms[1], bound)
        else:
            ok = forms[0] is not None and lia.entails_ge0(fs, forms[0]) and \
                lia.entails_lt(fs, forms[0], bound)
        if not ok and recv != 'self':
            # lengths related by an equality test on the path
            ok = forms[0] is not None and lia.entails_lt(fs, forms[0], L('len(self)')) and \
                lia.entails_le(fs, L('len(self)'), bound)
        k = id(node)
        if k not in per or (per[k][1] and not ok):
            per[k] = (node, ok, forms, recv)
    found = {id(n) for n, _, _, _ in per.values()}
    n = 0
    for x in sites:
        if x.get('method') == 'assume_init' or callee_is(x, 'UninitVec::assume_init'):
            continue
        n += 1
        if id(x) in per:
            node, ok, forms, recv = per[id(x)]
            run.ob('IDX.checked', fn, src(x)[:70], ok, loc(x),
                   'index %s %s len(%s)' % ([S._clean(lia.show(f)) if f is not None else '?'
                                             for f in forms], 'proved <' if ok else 'NOT proved <',
                                            recv))
        else:
            run.ob('IDX.checked', fn, src(x)[:70], False, loc(x),
                   'unchecked access not reached by the evaluator (inside a closure / '
                   'unsupported construct)')
    return n
