"""C01 Rolling moments and weighted averages equal from-scratch window evaluation.

Decided here (structure, not values): the incrementally maintained window state of the
16 kernels in tea-rolling/src/features.rs cannot drift: each accumulator's remove update
is the exact inverse of its add update (ACC.pair), under the same null predicate
(ACC.guard), the statistic is read between add and remove (ACC.order), and the kernel
sees only the driver-supplied elements (ACC.nocapture); the min_periods gate (GATE.*).
"""
from common import TRUSTED, ASSUME, configs, add_rules
import acc
from kernels import find_kernels, KernelModel

K_TABLE = {'std': 2, 'var': 2, 'skew': 3, 'kurt': 4}


def expected_K(name):
    base = name[:-3] if name.endswith('_to') else name
    for k, v in K_TABLE.items():
        if base in ('ts_' + k, 'ts_v' + k):
            return v
    return None


def check(run):
    add_rules(run, ['ACC.pair', 'ACC.guard', 'ACC.order', 'ACC.exit', 'ACC.nocapture', 'GATE.form',
                    'GATE.dom', 'GATE.intrinsic', 'GATE.K', 'SIB.plain-valid'])
    import fdiff
    nf = fdiff.check(run, run.facts('full'))
    run.floor('FDIFF', 'fractional-difference kernels (config full)', nf, 2)
    for cfg in configs(run):
        F = run.facts(cfg)
        # helpers this property stands on (rule sets owned by other properties, see common.deps)
        from common import deps as _deps
        _deps(run, F, 'drivers', 'isnone', 'accessors', 'casts', 'wrappers', 'fast_paths')
        ks = [k for k in find_kernels(F) if k.fn.file.endswith('tea-rolling/src/features.rs')]
        run.floor('ACC', 'rolling kernels in features.rs', len(ks), 16)
        nacc = 0
        for k in ks:
            m = KernelModel(k)
            nacc += acc.check_acc(run, m)
            acc.check_gate(run, m, expected_K(k.name))
        run.floor('ACC.pair', 'accumulators in features.rs', nacc, 48)
        models = {k.name: KernelModel(k) for k in ks}
        npairs = 0
        for base in ('sum', 'mean', 'ewm', 'wma', 'std', 'var', 'skew', 'kurt'):
            pn, vn = 'ts_%s_to' % base, 'ts_v%s_to' % base
            if pn in models and vn in models:
                npairs += 1
                acc.check_plain_valid(run, models[pn], models[vn])
        run.floor('SIB.plain-valid', 'plain / null-aware kernel pairs', npairs, 8)
    if True:    # the algebraic comparison takes a few seconds: part of the quick tier too
        import casrules
        run.rule('CAS.form', casrules.RULE)
        n = casrules.check_rolling(run, run.facts('base'), ('features.rs',))
        run.rule('VAR.floor', casrules.FLOOR_RULE)
        nf_ = casrules.check_floors(run, run.facts('base'), ('features.rs',))
        run.floor('VAR.floor', 'variance floors', nf_, 8)
        run.floor('CAS.form', 'closed forms compared with their reference', n, 14)
    # every container the generic code can be instantiated with hands out its elements in logical order
    from common import dep_backends as _dep_backends
    _dep_backends(run)
    return run.finish(
        'other',
        'Structural necessary conditions for "the window state never drifts": for each of the '
        '16 remove/add kernels of features.rs every accumulator update is classified (count, '
        'power sum, linear weights, exponential) and its remove update is shown to be the exact '
        'algebraic inverse of its add update on the expiring element, under the same null '
        'guard, with the statistic read between the two. Fractional difference (feature fdiff): '
        'weight generator table, weight/slice alignment on every path (LIA over slice length, '
        'valid count and window), nulls skipped before ranking. Values and rounding are not decided.',
        ASSUME, TRUSTED,
        'instances = (kernel, accumulator) pairs and (kernel, gate) sites found from the '
        'resolved callee Vec1View::rolling_apply; non-trivial = has a guard / a result read')
