"""C16 Time values: NaT is absorbing and unit changes agree with the calendar."""
from common import TRUSTED, ASSUME, configs
import timerules as T
import nullrules as N


def check(run):
    for r, t in T.RULES.items():
        run.rule(r, t)
    run.rule('CAST.null', N.RULES['CAST.null'])
    for cfg in configs(run, extra_quick=('full',)):
        F = run.facts(cfg)
        if cfg == 'base': __import__('common').pins(run, F, 'time_prims', 'time_fields')
        if cfg == 'full':
            n = T.check_polars_units(run, F)
            run.floor('TBL.polars-unit', 'polars datetime TIter impls', n, 3)
            continue
        n = T.check_consts(run, F)
        run.floor('TBL.const', 'unit constants', n, 10)
        n = T.check_unit_table(run, F)
        run.floor('TBL.unit', 'unit pairs', n, 12)
        n = T.check_ops(run, F)
        run.floor('NAT.guard', 'operator impls', n, 9)
        n = T.check_conversions(run, F)
        run.floor('NAT.guard', 'conversions', n, 8)
        T.check_cr_table(run, F)
        n = T.check_ctors(run, F)
        run.floor('NAT.ctor', 'optional constructors', n, 6)
        # casts involving time types: null -> null
        ncast = 0
        for fn, S, U in N.cast_instances(F):
            pass
        ncast = _time_casts(run, F)
        run.floor('CAST.null', 'time cast instances', ncast, 60)
    return run.finish(
        'other',
        'NaT absorption: each of the 9 operator impls on DateTime / TimeDelta / Time yields a '
        'value only on paths where every NaT-capable operand was tested; into_unit, as_cr, '
        'into_opt_i64, strftime, duration_trunc test NaT first; TryFrom into the calendar type '
        'either tests NaT or uses a fallible constructor whose range excludes i64::MIN ticks; '
        'Option/Default constructors give NaT; casts between time types and nullable types map '
        'null to null (time -> float listed as known findings). Unit table: all 12 ordered '
        'pairs, finer->coarser by div_euclid (toward the past), coarser->finer by multiplication '
        'with the exact ratio; constants have their defining values; polars unit arms agree. '
        'The conversions to and from the calendar type are chrono\'s own constructor / accessor for '
        'the unit (or denote the same instant on a grid with pre-epoch fractions and the range '
        'limits, TBL.cr); chrono\'s own round trip is trusted.',
        ASSUME, TRUSTED + ['chrono: from_timestamp / _millis / _micros return None for i64::MIN; '
                           'from_timestamp_nanos is total (read from chrono 0.4.45 source)'],
        'instances = operator impls, conversions, unit pairs, constants, cast instances')


def _time_casts(run, F):
    import dtree
    n = 0
    for fn, S, U in N.cast_instances(F):
        if 'tea_time' not in S and 'tea_time' not in U:
            continue
        if not (N.nullable(S) and N.nullable(U)):
            continue
        n += 1
        key = 'Cast<%s> for %s' % (N._short(U), N._short(S))
        fnq = 'tea_dtype::<impl %s>' % key
        t = N.tbl(fn)
        leaf = N.one_leaf(t)
        body = __import__('facts').src(fn.hir)
        if leaf == 'PANIC' or N.panics(fn) or all(l == 'PANIC' for _, l, _ in t):
            run.ob('CAST.null', fnq, key, True, fn.loc(), 'unsupported conversion panics', trivial=True)
            continue
        if (S, U) in N.AUDITED_CASTS:
            run.ob('CAST.null', fnq, key, N.AUDITED_CASTS[(S, U)][0] in body, fn.loc(),
                   'audited: ' + N.AUDITED_CASTS[(S, U)][1])
            continue
        ok, why = N.null_preserving(fn, S, U, t, leaf, body)
        run.ob('CAST.null', fnq, key, ok, fn.loc(), why)
    return n
