"""C08 NaN and None are the same null, and nulls are transparent to valid aggregations."""
from common import TRUSTED, ASSUME, configs
import nullrules as N
import aggrules as A
import acc
from kernels import find_kernels, KernelModel

FILES = ('tea-core/src/agg.rs', 'tea-agg/src/lib.rs', 'tea-agg/src/vec_valid.rs',
         'tea-core/src/vec_core/iter_traits.rs', 'tea-rolling/src/features.rs',
         'tea-rolling/src/cmp.rs', 'tea-rolling/src/norm.rs', 'tea-rolling/src/binary.rs',
         'tea-rolling/src/reg.rs', 'tea-map/src/valid_iter.rs', 'tea-map/src/vec_map.rs')
AUDITED_UNWRAP = {
    ('vcount_value', 'x'): 'x is the parameter of the vfold callback (only non-null elements)',
    ('vclip', 'lower'): 'bound unwrapped under its own not_none() flag (lower_flag arm)',
    ('vclip', 'upper'): 'bound unwrapped under its own not_none() flag (upper_flag arm)',
    ('vcut', 'bins.titer().map(IsNone::unwrap)'): 'bin edges: non-null by the property\'s precondition',
}


def check(run):
    for r in ('NULL.unwrap', 'NULL.fold', 'NULL.only-trait', 'NUL.coherent', 'CAST.null', 'CAST.value',
              'NUL.default'):
        run.rule(r, N.RULES[r])
    run.rule('ACC.guard', acc.RULES['ACC.guard'])
    run.rule('ACC.pair', acc.RULES['ACC.pair'])
    run.rule('ACC.order', acc.RULES['ACC.order'])
    run.rule('ACC.exit', acc.RULES['ACC.exit'])
    run.rule('ACC.nocapture', acc.RULES['ACC.nocapture'])
    for cfg in configs(run):
        F = run.facts(cfg)
        if cfg == 'base': __import__('common').pins(run, F, 'number_prims')
        # helpers this property stands on (rule sets owned by other properties, see common.deps)
        from common import deps as _deps
        _deps(run, F, 'drivers', 'accessors', 'wrappers', 'fast_paths')
        A.check_folds(run, F)
        nu = N.check_unwrap(run, F, FILES, AUDITED_UNWRAP)
        run.floor('NULL.unwrap', 'IsNone::unwrap sites in null-aware code', nu, 100)
        nf = N.check_only_trait(run, F, FILES + ('tea-core/src/vec_core/cores/view.rs',),
                                allow=(('get_backend_name', 'get_backend_name'),))
        run.floor('NULL.only-trait', 'functions inspected', nf, 150)
        # the two encodings agree: IsNone coherence + null-preserving casts
        N.check_isnone(run, F)
        N.check_defaults(run, F)
        N.check_casts(run, F, skip_time=True)
        # order statistics see nulls last in both directions: only the null-last comparators
        import C12
        run.rule('ORD.cmp', 'every comparator handed to sort / select_nth in the order-statistic '
                 'kernels is the null-last comparator, the descending one exactly on the reverse arms')
        C12.comparators(run, F)
        # ranks are taken among the valid elements only: the percentile arm divides by the valid count
        # on every tie path, and nulls (sorted last) receive null
        for r_ in ('NULL.first-test', 'RANK.arms'):
            run.rule(r_, 'as in C12: structure of vrank (a null inserted into the series changes no rank of a '
                         'valid element: every divisor of the pct arm is the valid count)')
        C12.rank(run, F)
        # a null never displaces a valid rolling extreme: every comparison that touches the cached
        # extreme (incoming element and rescan) is the null-last comparator in the kernel's direction
        import C03
        C03.extrema_rules(run)
        C03.extrema(run, {k.name: k for k in find_kernels(F) if k.fn.file.endswith('cmp.rs')})
        # nulls never enter a rolling accumulator; two-series kernels delete pairwise
        for k in find_kernels(F):
            if not k.custom:
                acc.check_acc(run, KernelModel(k))
    # every container the generic code can be instantiated with hands out its elements in logical order
    from common import dep_backends as _dep_backends
    _dep_backends(run)
    return run.finish(
        'other',
        'Parametricity argument, checked structurally: null-aware code is generic over '
        'T: IsNone and reaches nullness only through IsNone / Cast (no is_nan, TypeId, '
        'transmute or backend branching); every IsNone::unwrap of an element is dominated by a '
        'null test on that element or sits in a fold-helper callback, and the helpers skip '
        'exactly the nulls; rolling accumulators are updated only under the (pairwise) null '
        'guard; the IsNone impls of float and Option are coherent and casts map null to null. '
        'Hence re-encoding NaN <-> None cannot change which elements are seen. Numeric '
        'equality of the results is a consequence, not separately computed.',
        ASSUME, TRUSTED,
        'instances = unwrap sites, fold helpers, functions inspected for representation '
        'access, IsNone impl methods, Cast instances, accumulator guards')
