"""C06 Rolling and lagging results never depend on later (or pre-window) data."""
from common import TRUSTED, ASSUME, configs, add_rules
import acc
import drivers
import idxkernel
import lag
from kernels import find_kernels, KernelModel
from facts import _pat_binds, loc


def check(run):
    add_rules(run, ['ACC.pair', 'ACC.guard', 'ACC.order', 'ACC.exit', 'ACC.nocapture'])
    for r, t in idxkernel.RULES.items():
        run.rule(r, t)
    run.rule('EXT.expiry', 'the cached extreme is re-established by a full rescan of the window '
             'exactly when its index has left the window, before it is used (so no pre-window '
             'value survives in the cache)')
    run.rule('EXT.tie', 'rescan / incoming comparison replace the cache through the null-last comparator')
    run.rule('EXT.cmp', 'minimum kernels compare with sort_cmp, maximum kernels with sort_cmp_rev')
    run.rule('EXT.result', 'the reported value is the cached extreme / its offset in the window')
    run.rule('NORM.rescan', 'min-max normalisation rescans the window for whichever cached extreme '
             'expired, re-seeding it from the sentinel, then folds in the current element')
    run.rule('NORM.formula', 'min-max closed form and its null guards')
    add_rules(run, ['GATE.form', 'GATE.dom', 'GATE.intrinsic', 'GATE.K'])
    run.rule('LEN.free', 'nothing a rolling kernel closure reads is computed from the length of '
             'the series (which is information about positions right of the cursor); only the window '
             'handed to the driver and the default of an omitted min_periods may be')
    run.rule('ACC.exact', 'min / max / arg-extrema / rank kernels keep no arithmetic '
             'accumulator besides the validity count, so pre-window history cannot leak into '
             'them through rounding')
    for cfg in configs(run, extra_quick=('full',)):
        F = run.facts(cfg)
        # helpers this property stands on (rule sets owned by other properties, see common.deps)
        from common import deps as _deps
        _deps(run, F, 'isnone', 'accessors', 'wrappers', 'fast_paths')
        ks = find_kernels(F)
        run.floor('C06', 'rolling entry points', len(ks), 38 if cfg == 'full' else 36)
        nidx = 0
        for k in ks:
            m = KernelModel(k)
            if k.idx:
                nidx += idxkernel.check_idx_kernel(run, m)
                acc.check_acc(run, m)
            elif k.custom:
                caps = [c['place'] for c in m.cl.get('captures', [])]
                bad = [c for c in caps if c.split('.')[0].strip('*&() ') in ('self', 'other')]
                run.ob('IDX.kernel.custom', k.fn, 'closure captures', not bad, loc(m.cl),
                       'captures %s' % sorted(caps))
            else:
                acc.check_acc(run, m)
            # prefix stability of the gate: an explicit min_periods must not be combined with
            # anything that depends on the series length (GATE.form), and results are read
            # only under the gate on the window's own count (GATE.dom)
            if any(b['name'] == 'min_periods' for p_ in k.fn.params for b in _pat_binds(p_)):
                from C01 import expected_K
                acc.check_gate(run, m, expected_K(k.name))
            acc.check_len_free(run, k)
            if k.fn.file.endswith('cmp.rs'):
                m.classify()
                arith = [a['name'] for a in m.accumulators().values()
                         if any(u.op != 'Assign' for u in a['updates'])
                         and not any(u.block == 'add' and u.poly.is_const() for u in a['updates'])]
                run.ob('ACC.exact', k.fn, 'arithmetic accumulators', not arith, k.fn.loc(),
                       'arithmetic state: %s' % (arith or 'none besides the count'))
        run.floor('IDX.kernel', 'unchecked reads in window-index kernels', nidx, 30)
        # cached extremes must be re-established from the window alone once they expire
        import C03
        models = {k.name: KernelModel(k) for k in ks if k.fn.file.endswith(('cmp.rs', 'norm.rs'))}
        for name in ('ts_vargmin_to', 'ts_vmin_to', 'ts_vargmax_to', 'ts_vmax_to'):
            C03.extreme_kernel(run, models[name], rev=('max' in name), arg=('arg' in name))
        C03.minmax(run, models['ts_vminmaxnorm_to'])
        drivers.check_drivers(run, F, rules=('IDX.driver', 'IDX.other', 'DRV.cover', 'DRV.args',
                                             'DRV.iter'))
        if cfg == 'base':
            lag.check_lag(run, F, rules=('SEQ.causal',))
    # every container the generic code can be instantiated with hands out its elements in logical order
    from common import dep_backends as _dep_backends
    _dep_backends(run)
    return run.finish(
        'other',
        'No look-ahead: remove/add kernels see only the driver-supplied elements '
        '(ACC.nocapture); every unchecked read in a window-index kernel has an index proved '
        '<= end (IDX.kernel); drivers read indices <= the output position (DRV.args/DRV.iter); '
        'positive-lag adaptors read source positions <= p (SEQ.causal). Pre-window '
        'independence: every accumulator is exactly invertible (ACC.pair), and the extrema / '
        'rank kernels keep no arithmetic state. "Bit-for-bit" follows from these structural '
        'facts; it is not separately computed.',
        ASSUME, TRUSTED,
        'instances = kernels, unchecked reads, driver obligations, lag-adaptor pieces')
