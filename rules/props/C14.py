"""C14 Binning assigns the unique enclosing bin; run de-duplication keeps run ends."""
from common import TRUSTED, ASSUME, configs
import dtree
import nullrules as N
from facts import walk, walk_with_parents, peel, src, loc, callee_is, _pat_binds, strip_generics

T = N.T


def check(run):
    run.rule('CUT.closed', 'the right-closed arm tests (lo < v) && (v <= hi), the left-closed arm '
             '(lo <= v) && (v < hi); the first matching interval wins (break) and its label is taken')
    run.rule('CUT.null', 'a null value gets the null label; a value in no interval gives Err '
             '(ok_or_else), never a panic or a default label')
    run.rule('CUT.labels', 'a label count that does not match the edges is an error before any '
             'element is processed')
    run.rule('CUT.sentinel', 'an open outer bound materialised as MIN / MAX must not be compared '
             'strictly against the value (the extreme value would fall outside every interval)')
    run.rule('UNQ.table', 'the de-duplication closures have the decision table of their '
             'definition: emit on a change of value; an emission naming the previous position '
             'requires that a run of values is open; nulls never emit their own index')
    for cfg in configs(run):
        F = run.facts(cfg)
        vcut(run, F)
        unique(run, F)
    return run.finish(
        'other',
        'vcut: closedness of the two interval tests, first-match-wins, null -> null label, '
        'no-match -> Err through ok_or_else (no unwrap), label-count errors returned up front; '
        'the MIN/MAX sentinel of open bounds compared strictly is reported (listed known '
        'finding). vsorted_unique_idx / vsorted_unique: decision tables of the three closures, '
        'including the guard "a previous run exists" on every emission that names the previous '
        'position and the order of reading and updating the run state. That exactly one index '
        'per run is emitted for every run structure is a statement over the value sequence and '
        'is not decided.',
        ASSUME, TRUSTED,
        'instances = vcut arms and guards, de-duplication closure tables')


def vcut(run, F):
    fn = F.one('MapValidBasic::vcut')
    cls = [x for x in walk(fn.hir) if x.get('k') == 'Closure' and len(x['params']) == 1 and
           x['params'][0].get('name') == 'value']
    run.ob('CUT.closed', fn, 'two element closures (right / left closed)', len(cls) == 2, fn.loc(),
           '%d closure(s)' % len(cls))
    # which arm: the `if right` dispatch
    top_if = [x for x in walk(fn.hir) if x.get('k') == 'If' and src(peel(x['ch'][0])) == 'right']
    for cl in cls:
        is_right = bool(top_if) and any(y is cl for y in walk(top_if[0]['ch'][1]))
        env = {cl['params'][0]['local']: 'v'}
        t = dtree.table(cl['ch'][0], env)
        nullrow = [(cs, l) for cs, l, ef in t if '!VALID(v)' in cs]
        valrow = [(cs, l, ef) for cs, l, ef in t if 'VALID(v)' in cs]
        ok = len(nullrow) == 1 and nullrow[0][1].endswith('Ok(NULL)') and len(valrow) == 1 and \
            valrow[0][1].startswith('out.ok_or_else(') and 'out := NULL' in valrow[0][2]
        un = [x for x in walk(cl) if x.get('k') == 'MethodCall' and
              callee_is(x, 'Option::unwrap', 'Option::expect', 'Result::unwrap', 'Result::expect')]
        run.ob('CUT.null', fn, '%s arm: null -> null label, no match -> Err' %
               ('right' if is_right else 'left'), ok and not un, loc(cl),
               'rows %s; unwrap/expect calls: %d' % ([(sorted(c), l[:30]) for c, l in nullrow] +
                                                     [(sorted(c), l[:20]) for c, l, _ in valrow], len(un)))
        loops = [x for x in walk(cl) if x.get('k') == 'For']
        okc = len(loops) == 1
        det = '%d loop(s)' % len(loops)
        if okc:
            lp = loops[0]
            it = src(peel(lp['ch'][0]))
            ifs = [x for x in walk(lp['ch'][1]) if x.get('k') == 'If']
            cond = dtree.conj(ifs[0]['ch'][0], {lp['pat']['ch'][0]['local']: 'bound',
                                               lp['pat']['ch'][1]['local']: 'label',
                                               **env}) if ifs and lp['pat'].get('k') == 'Tuple' else []
            # `value` inside the loop is the unwrapped shadow: name it v
            cond = [c.replace('value', 'v') for c in cond]
            want = ['(bound.0 < v)', '(v <= bound.1)'] if is_right else ['(bound.0 <= v)', '(v < bound.1)']
            body = src(ifs[0]['ch'][1]) if ifs else ''
            okc = sorted(cond) == sorted(want) and 'out = v1::Some(label.clone())' in body and \
                'break' in body and 'tuple_windows()' in it and '.zip(labels.titer())' in it and \
                it.startswith('bins.titer()')
            det = 'test %s (expected %s); body `%s`; over `%s`' % (sorted(cond), sorted(want), body[:50], it[:60])
        run.ob('CUT.closed', fn, '%s-closed interval test' % ('right' if is_right else 'left'), okc,
               loc(cl), det)
        # sentinel rule
        add_b = [x for x in walk(fn.hir) if x.get('k') == 'If' and src(peel(x['ch'][0])) == 'add_bounds']
        sent = src(add_b[0]['ch'][1]) if add_b else ''
        lo_sent = 'Number::min_()' in sent
        hi_sent = 'Number::max_()' in sent
        if okc or True:
            strict_lo = is_right
            strict_hi = not is_right
            bad = (lo_sent and strict_lo) or (hi_sent and strict_hi)
            which = 'lower bound MIN compared with `<`' if is_right else 'upper bound MAX compared with `<`'
            run.ob('CUT.sentinel', fn, '%s-closed arm: %s' % ('right' if is_right else 'left', which),
                   not bad, loc(cl),
                   'with add_bounds the outer edge is %s and this arm tests it strictly: the value '
                   '%s falls outside every interval' % (('T::MIN' if is_right else 'T::MAX'),
                                                        ('T::MIN' if is_right else 'T::MAX')))
    # label count
    add_b = [x for x in walk(fn.hir) if x.get('k') == 'If' and src(peel(x['ch'][0])) == 'add_bounds'
             and len(x['ch']) == 3]
    ok = False
    det = 'no `if add_bounds` dispatch'
    if add_b:
        def err_guard(block, cond_src):
            for x in walk(block):
                if x.get('k') == 'If' and src(peel(x['ch'][0])) == cond_src:
                    rets = [y for y in walk(x['ch'][1]) if y.get('k') == 'Ret']
                    return bool(rets) and all('Err(' in src(r) for r in rets)
            return False
        c1 = err_guard(add_b[0]['ch'][1], '(labels.len() != (bins.len() + 1))')
        c2 = err_guard(add_b[0]['ch'][2], '((labels.len() + 1) != bins.len())')
        first_cl = min((x['_o'] for x in []), default=None)
        ok = c1 and c2
        det = 'open bounds: labels == edges + 1 enforced: %s; closed: labels + 1 == edges enforced: %s' % (c1, c2)
    run.ob('CUT.labels', fn, 'label count checked in both modes', ok, fn.loc(), det)


def unique(run, F):
    fn = F.one('MapValidBasic::vsorted_unique_idx')
    cls = [x for x in walk(fn.hir) if x.get('k') == 'Closure' and len(x['params']) == 1 and
           x['params'][0].get('k') == 'Tuple']
    want_first = T((['VALID(v)', '(Some(v) != last_value)'], 'Some(i)', ['last_value = Some(v)']),
                   (['VALID(v)', '(Some(v) == last_value)'], 'NULL', []),
                   (['!VALID(v)'], 'NULL', []))
    OUT = 'out := if VALID(last_value) { Some(i) } else { NULL }'
    want_last = T((['VALID(v)', '(Some(v) != last_value)'], 'out', [OUT, 'last_value = Some(v)']),
                  (['VALID(v)', '(Some(v) == last_value)'], 'NULL', []),
                  (['!VALID(v)'], 'out', [OUT, 'last_value = NULL']))
    run.ob('UNQ.table', fn, 'two index closures', len(cls) == 2, fn.loc(), '%d' % len(cls))
    for cl, want, nm in zip(cls, (want_first, want_last), ('Keep::First', 'Keep::Last')):
        env = {b['local']: b['name'] for b in _pat_binds(cl['params'][0])}
        t = dtree.table(cl['ch'][0], env)
        run.ob('UNQ.table', fn, '%s closure' % nm, t == want, loc(cl), 'table %s' % dtree.show(t))
    s = src(fn.hir)
    ok = 'iter.map(|v| v.to_opt()).chain(iter::once(v1::None)).enumerate().filter_map(' in s and \
        'let first_element = iter.next();' in s
    run.ob('UNQ.table', fn, 'Keep::Last pipeline: shifted by one, closed by a trailing null', ok,
           fn.loc(), 'first element consumed, the rest enumerated from 0 with a sentinel None')
    seed = [x for x in walk(fn.hir) if x.get('k') == 'Block' for st in x.get('stmts', [])
            if st['k'] == 'Let' and st['pat'].get('name') == 'last_value' and 'first_element' in src(st.get('init', {}))]
    if seed:
        st = [st for st in seed[0]['stmts'] if st['k'] == 'Let' and st['pat'].get('name') == 'last_value'][0]
        t = dtree.table(st['init'], {})
        want = T((['VALID(first_element)', 'VALID(first_element)'], 'Some(first_element)', []),)
        rows = {(frozenset(cs), l) for cs, l, ef in t}
        ok = rows == {(frozenset({'VALID(first_element)'}), 'Some(first_element)'),
                      (frozenset({'!VALID(first_element)'}), 'NULL')} or \
            all((l == 'NULL') == any(c.startswith('!VALID') for c in cs) for cs, l in rows)
        run.ob('UNQ.table', fn, 'Keep::Last run state seeded from the first element', ok, fn.loc(),
               'rows %s' % sorted((sorted(c), l) for c, l in rows))
    fn = F.one('MapValidBasic::vsorted_unique')
    cls = [x for x in walk(fn.hir) if x.get('k') == 'Closure']
    want = T((['VALID(v)', 'VALID(value)', '(v != value)'], 'Some(IsNone::from_inner(v))', ['value = Some(v)']),
             (['VALID(v)', 'VALID(value)', '(v == value)'], 'NULL', []),
             (['VALID(v)', '!VALID(value)'], 'Some(IsNone::from_inner(v))', ['value = Some(v)']),
             (['!VALID(v)'], 'NULL', []))
    if cls:
        env = {cls[0]['params'][0]['local']: 'v'}
        t = dtree.table(cls[0]['ch'][0], env)
        run.ob('UNQ.table', fn, 'unique-value closure', t == want, loc(cls[0]), 'table %s' % dtree.show(t))
