"""C14 Binning assigns the unique enclosing bin; run de-duplication keeps run ends."""
from common import TRUSTED, ASSUME, configs
import dtree
import nullrules as N
from facts import walk, walk_with_parents, peel, src, loc, callee_is, _pat_binds, strip_generics

T = N.T


def check(run):
    run.rule('CUT.closed', 'the right-closed arm tests (lo < v) && (v <= hi), the left-closed arm '
             '(lo <= v) && (v < hi); the first matching interval wins (break) and its label is taken')
    run.rule('CUT.null', 'a null value gets the null label; a value in no interval gives Err '
             '(ok_or_else), never a panic or a default label')
    run.rule('CUT.labels', 'a label count that does not match the edges is an error before any '
             'element is processed')
    run.rule('CUT.sentinel', 'an open outer bound materialised as MIN / MAX must not be compared '
             'strictly against the value (the extreme value would fall outside every interval)')
    run.rule('UNQ.table', 'the de-duplication closures have the decision table of their '
             'definition: emit on a change of value; an emission naming the previous position '
             'requires that a run of values is open; nulls never emit their own index')
    for cfg in configs(run):
        F = run.facts(cfg)
        # `number_prims`: the open outer bounds of vcut are Number::min_() / max_()
        if cfg == 'base': __import__('common').pins(run, F, 'agg_delegates', 'number_prims')
        # helpers this property stands on (rule sets owned by other properties, see common.deps)
        from common import deps as _deps
        _deps(run, F, 'isnone')
        if cfg == 'base':
            _deps(run, F, 'ord')   # elements are compared through their own PartialOrd
        vcut(run, F)
        unique(run, F)
    # every container the generic code can be instantiated with hands out its elements in logical order
    from common import dep_backends as _dep_backends
    _dep_backends(run)
    return run.finish(
        'other',
        'vcut: closedness of the two interval tests, first-match-wins, null -> null label, '
        'no-match -> Err through ok_or_else (no unwrap), label-count errors returned up front; '
        'the MIN/MAX sentinel of open bounds compared strictly is reported (listed known '
        'finding). vsorted_unique_idx / vsorted_unique: decision tables of the three closures, '
        'including the guard "a previous run exists" on every emission that names the previous '
        'position and the order of reading and updating the run state. That exactly one index '
        'per run is emitted for every run structure is a statement over the value sequence and '
        'is not decided.',
        ASSUME, TRUSTED,
        'instances = vcut arms and guards, de-duplication closure tables')


def vcut(run, F):
    import re
    fn = F.one('MapValidBasic::vcut')
    env0 = N.self_env(fn)
    # element closures: the one-parameter closures that scan the intervals in a loop
    cls = [x for x in walk(fn.hir) if x.get('k') == 'Closure' and len(x['params']) == 1 and
           any(y.get('k') == 'For' for y in walk(x))]
    run.ob('CUT.closed', fn, 'two element closures (right / left closed)', len(cls) == 2, fn.loc(),
           '%d closure(s)' % len(cls))
    add_b = [x for x in walk(fn.hir) if x.get('k') == 'If' and dtree.conj(x['ch'][0], dict(env0)) == ['add_bounds']
             and len(x['ch']) == 3]
    sent = dtree.canon(add_b[0]['ch'][1], dict(env0)) if add_b else ''
    lo_sent = 'Number::min_()' in sent
    hi_sent = 'Number::max_()' in sent
    seen_arms = set()
    for cl in cls:
        g = dtree.guards_at(fn.hir, cl, env0)
        gc = set(g[0]) if g else set()
        is_right = 'right' in gc
        arm = 'right' if is_right else 'left'
        if not ({'right', '!right'} & gc):
            run.ob('CUT.closed', fn, 'closure selected by the `right` flag', False, loc(cl), 'guards %s' % sorted(gc))
            continue
        seen_arms.add(arm)
        t = dtree.closure_table(fn.hir, cl, env0)
        nullrow = [(cs, l, ef) for cs, l, ef in t if '!VALID(a0)' in cs]
        valrow = [(cs, l, ef) for cs, l, ef in t if 'VALID(a0)' in cs]
        ok = len(nullrow) == 1 and nullrow[0][1].endswith('Ok(NULL)') and not nullrow[0][2]
        outv = None
        if ok and len(valrow) == 1:
            # `out.ok_or_else(|| err)`
            m = re.match(r"(\w+)'*\.ok_or_else\(", valrow[0][1])
            outv = m.group(1) if m else None
            ok = outv is not None and ('%s := NULL' % outv) in valrow[0][2]
        elif ok and len(valrow) == 2:
            # `match out { Some(l) => Ok(l), None => Err(..) }`
            hit = [r for r in valrow if re.fullmatch(r"(?:v1::)?Ok\((\w+)'*\)", r[1])]
            mis = [r for r in valrow if re.match(r"(?:v1::)?Err\(", r[1])]
            ok = len(hit) == 1 and len(mis) == 1
            if ok:
                outv = re.fullmatch(r"(?:v1::)?Ok\((\w+)'*\)", hit[0][1]).group(1)
                ok = any(re.fullmatch(r"VALID\(%s'*\)" % outv, c) for c in hit[0][0]) and \
                    any(re.fullmatch(r"!VALID\(%s'*\)" % outv, c) for c in mis[0][0]) and \
                    all(('%s := NULL' % outv) in r[2] for r in valrow)
        else:
            ok = False
        un = [x for x in walk(cl) if x.get('k') == 'MethodCall' and
              callee_is(x, 'Option::unwrap', 'Option::expect', 'Result::unwrap', 'Result::expect')]
        run.ob('CUT.null', fn, '%s arm: null -> null label, no match -> Err' % arm, ok and not un, loc(cl),
               'rows %s; unwrap/expect calls: %d' % ([(sorted(c), l[:30]) for c, l, _ in nullrow] +
                                                     [(sorted(c), l[:20]) for c, l, _ in valrow], len(un)))
        loops = [x for x in walk(cl) if x.get('k') == 'For']
        okc = len(loops) == 1
        det = '%d loop(s)' % len(loops)
        if okc:
            lp = loops[0]
            en_l = dtree.env_at(fn.hir, lp, env0)
            it = dtree.canon(lp['ch'][0], en_l)
            asg = [x for x in walk(lp['ch'][1]) if x.get('k') == 'Assign']
            okc = len(asg) == 1
            det = '%d assignment(s) in the loop' % len(asg)
            if okc:
                gg, en_a = dtree.guards_at(fn.hir, asg[0], env0)
                flat = []
                for c in gg:
                    flat += dtree._split_and(c[1:-1]) if c.startswith('((') or (c.startswith('(') and ' && ' in c) else [c]
                conds = dtree.simplify(frozenset(c for c in flat if c not in gc and c != 'VALID(a0)')) or frozenset()
                tgt, val = dtree.canon(asg[0]['ch'][0], en_a), dtree.canon(asg[0]['ch'][1], en_a)
                # loop pattern `(bound, label)` or `((lo, hi), label)`: the names of the interval
                # ends and of the label, whatever the destructuring
                pat = lp.get('pat', {})
                lo_n = hi_n = lab_n = None
                if pat.get('k') == 'Tuple' and len(pat.get('ch', [])) == 2:
                    pi, pl = pat['ch']
                    if pl.get('k') == 'Binding':
                        lab_n = en_a.get(pl['local'])
                    if pi.get('k') == 'Binding':
                        lo_n, hi_n = '%s.0' % en_a.get(pi['local']), '%s.1' % en_a.get(pi['local'])
                    elif pi.get('k') == 'Tuple' and len(pi.get('ch', [])) == 2 and \
                            all(q.get('k') == 'Binding' for q in pi['ch']):
                        lo_n, hi_n = en_a.get(pi['ch'][0]['local']), en_a.get(pi['ch'][1]['local'])
                want = {'(%s < a0)' % lo_n, '(a0 <= %s)' % hi_n} if is_right else \
                    {'(%s <= a0)' % lo_n, '(a0 < %s)' % hi_n}
                # first match wins: a `break` follows the assignment in the same block
                brk = any(x.get('k') == 'Block' and any(peel(st.get('e', {})) is asg[0] for st in x.get('stmts', []))
                          and any(y.get('k') == 'Break' for st in x.get('stmts', []) for y in walk(st.get('e', {}))
                                  ) or (x.get('k') == 'Block' and 'expr' in x and peel(x['expr']).get('k') == 'Break'
                                        and any(peel(st.get('e', {})) is asg[0] for st in x.get('stmts', [])))
                          for x in walk(lp['ch'][1]))
                shape = re.fullmatch(r'(\w+)\.titer\(\)\.tuple_windows\(\)\.zip\(labels\.titer\(\)\)', it)
                okc = set(conds) == want and tgt == outv and lab_n is not None and val == 'Some(%s)' % lab_n and brk and bool(shape)
                det = 'test %s (expected %s); `%s = %s`%s; over `%s`' % (
                    sorted(conds), sorted(want), tgt, val, ' then break' if brk else ' WITHOUT break', it[:70])
        run.ob('CUT.closed', fn, '%s-closed interval test' % arm, okc, loc(cl), det)
        # sentinel rule
        strict_lo = is_right
        strict_hi = not is_right
        bad = (lo_sent and strict_lo) or (hi_sent and strict_hi)
        which = 'lower bound MIN compared with `<`' if is_right else 'upper bound MAX compared with `<`'
        run.ob('CUT.sentinel', fn, '%s-closed arm: %s' % (arm, which), not bad, loc(cl),
               'with add_bounds the outer edge is %s and this arm tests it strictly: the value '
               '%s falls outside every interval' % (('T::MIN' if is_right else 'T::MAX'),
                                                    ('T::MIN' if is_right else 'T::MAX')))
    run.ob('CUT.closed', fn, 'one closure per closedness', seen_arms == {'right', 'left'}, fn.loc(),
           'arms %s' % sorted(seen_arms))
    # label count: decided on all (add_bounds, #labels, #edges) with counts 0..5
    t = N.tbl(fn)
    bad = []
    for ab in (True, False):
        for nl in range(6):
            for nb in range(6):
                want_err = (nl != nb + 1) if ab else (nl + 1 != nb)
                got = []
                for cs, leaf, ef in t:
                    vals = [dtree.holds(c, {'add_bounds': ab, 'labels.len()': nl, 'bins.len()': nb,
                                            'right': True}) for c in cs]
                    if None in vals:
                        bad.append('unrecognised condition %s' % sorted(cs))
                        break
                    if all(vals):
                        got.append('Err' if leaf.startswith('v1::Err(') or leaf.startswith('Err(') else 'Ok')
                if got != ['Err' if want_err else 'Ok']:
                    bad.append('add_bounds=%s labels=%d edges=%d: %s' % (ab, nl, nb, got))
    run.ob('CUT.labels', fn, 'label count checked in both modes', not bad, fn.loc(),
           '72 (mode, #labels, #edges) points: Err exactly when labels != edges + 1 (open bounds) / '
           'labels + 1 != edges' + ('' if not bad else ' ; ' + '; '.join(bad[:3])))


def unique(run, F):
    import re
    fn = F.one('MapValidBasic::vsorted_unique_idx')
    env0 = N.self_env(fn)
    cls = [x for x in walk(fn.hir) if x.get('k') == 'Closure' and len(x['params']) == 1 and
           x['params'][0].get('k') == 'Tuple']
    # a0 = position, a1 = element, `last` = the run state captured by the closure
    want_first = T((['VALID(a1)', '(Some(a1) != last)'], 'Some(a0)', ['last = Some(a1)']),
                   (['VALID(a1)', '(Some(a1) == last)'], 'NULL', []),
                   (['!VALID(a1)'], 'NULL', []))
    OUT = 'out := if VALID(last) { Some(a0) } else { NULL }'
    want_last = T((['VALID(a1)', '(Some(a1) != last)'], 'out', [OUT, 'last = Some(a1)']),
                  (['VALID(a1)', '(Some(a1) == last)'], 'NULL', []),
                  (['!VALID(a1)'], 'out', [OUT, 'last = NULL']))
    # the emission may equally be written inline in both branches (no helper let)
    want_last2 = T((['VALID(a1)', '(Some(a1) != last)', 'VALID(last)'], 'Some(a0)', ['last = Some(a1)']),
                   (['VALID(a1)', '(Some(a1) != last)', '!VALID(last)'], 'NULL', ['last = Some(a1)']),
                   (['VALID(a1)', '(Some(a1) == last)'], 'NULL', []),
                   (['!VALID(a1)', 'VALID(last)'], 'Some(a0)', ['last = NULL']),
                   (['!VALID(a1)', '!VALID(last)'], 'NULL', ['last = NULL']))
    run.ob('UNQ.table', fn, 'two index closures', len(cls) == 2, fn.loc(), '%d' % len(cls))
    by_arm = {}
    for cl in cls:
        g = dtree.guards_at(fn.hir, cl, env0)
        arm = [c for c in (g[0] if g else []) if c.startswith('keep is ')]
        by_arm[arm[0].split('::')[-1] if arm else '?'] = cl
    for nm, wants in (('First', (want_first,)), ('Last', (want_last, want_last2))):
        cl = by_arm.get(nm)
        if cl is None:
            run.ob('UNQ.table', fn, 'Keep::%s closure' % nm, False, fn.loc(), 'no closure under `keep is Keep::%s`' % nm)
            continue
        # Option combinators are control flow (`last.as_ref().map(|_| i)` is `if last.is_some() ..`)
        import pinned
        hx = pinned.expand_options(fn.hir)
        clx = [x for x in walk(hx) if x.get('k') == 'Closure' and x.get('sp') == cl.get('sp')]
        t = dtree.closure_table(hx, clx[0], env0) if clx else dtree.closure_table(fn.hir, cl, env0)
        run.ob('UNQ.table', fn, 'Keep::%s closure' % nm, any(t == w for w in wants), loc(cl),
               'table %s' % dtree.show(t))
    # Keep::Last pipeline: the first element seeds the run state, the rest are enumerated from 0
    # and closed by one trailing null
    ft = N.tblx(fn)
    last_rows = [(cs, l, ef) for cs, l, ef in ft if 'keep is Keep::Last' in cs]
    ok = len(last_rows) >= 1
    det = '%d row(s) for Keep::Last' % len(last_rows)
    seeds_seen = set()
    for cs, leaf, ef in last_rows:
        defs = {}
        for e in ef:
            if ' := ' in e:
                k_, v_ = e.split(' := ', 1)
                defs[k_] = v_
        it = [k_ for k_, v_ in defs.items() if v_ == 'self.into_iter()']
        if len(it) != 1:
            ok = False
            det = 'no single `self.into_iter()` binding'
            break
        itn = it[0]
        firsts = [k_ for k_, v_ in defs.items() if v_ == '%s.next()' % itn]
        if not firsts and any('%s.next()' % itn in c for c in cs):
            # the first element is consumed in place (`match iter.next() { .. }`): the same
            # single call, spelled by its expression instead of a name
            firsts = ['%s.next()' % itn]
            defs = dict(defs)
        head = '%s.map(|a0| a0).chain(iter::once(NULL)).enumerate().filter_map(' % itn
        pipe = [k_ for k_, v_ in defs.items() if v_.startswith(head)]
        order = [e.split(' := ')[0] for e in ef if ' := ' in e]
        # the pipeline is either bound to a name that is returned or returned directly
        ret_ok = (len(pipe) == 1 and leaf == 'Box::new(%s)' % pipe[0]) or \
            (not pipe and leaf.startswith('Box::new(' + head))
        named = len(firsts) == 1 and firsts[0] in order
        if not (len(firsts) == 1 and ret_ok and
                (not pipe or not named or order.index(firsts[0]) < order.index(pipe[0]))):
            ok = False
            det = 'first element: %s; pipeline: %s; returns %s' % (firsts, pipe, leaf[:40])
            break
        fe = firsts[0]
        # run state seeded from the first element: Some(first) when it is valid, else null
        about = frozenset(c for c in cs if fe in c)
        seed = [v_ for k_, v_ in defs.items() if v_ in ('Some(%s)' % fe, 'NULL') and
                (not named or order.index(firsts[0]) < order.index(k_)) and
                (not pipe or order.index(k_) < order.index(pipe[0]))]
        seeds_seen.add((about, tuple(seed)))
        det = 'first element consumed, the rest enumerated from 0 with a sentinel None'
    if ok:
        fe_names = {c for a_, _ in seeds_seen for c in a_}
        norm_ = {(frozenset(re.sub(r'v\d+(\.next\(\))?', 'F', c) for c in a_),
                  tuple(re.sub(r'v\d+(\.next\(\))?', 'F', x) for x in sd))
                 for a_, sd in seeds_seen}
        oks = norm_ == {(frozenset({'VALID(F)'}), ('Some(F)',)), (frozenset({'!VALID(F)'}), ('NULL',))}
        run.ob('UNQ.table', fn, 'Keep::Last run state seeded from the first element', oks, fn.loc(),
               'seed per validity of the first element: %s' % sorted((sorted(a_), sd) for a_, sd in norm_))
    run.ob('UNQ.table', fn, 'Keep::Last pipeline: shifted by one, closed by a trailing null', ok,
           fn.loc(), det)
    # the canonical form merges `Some(v)` with `v.not_none()`; the element-level null test of the
    # first element is therefore checked on the typed tree: between `next()` and the pipeline the
    # first element goes through IsNone::not_none / is_none / to_opt
    cl_last = by_arm.get('Last')
    if cl_last is not None:
        from facts import walk_with_parents
        arm_blk = None
        for x, parents in walk_with_parents(fn.hir):
            if x is cl_last:
                blks = [p_ for p_ in parents if p_.get('k') == 'Block']
                arm_blk = blks[-1] if blks else None
        tests = []
        if arm_blk is not None:
            for st in arm_blk.get('stmts', []):
                body_ = st.get('init') or st.get('e') or {}
                if any(y is cl_last for y in walk(body_)):
                    break
                tests += [y for y in walk(body_) if y.get('k') == 'MethodCall' and
                          callee_is(y, 'IsNone::not_none', 'IsNone::is_none', 'IsNone::to_opt')]
        run.ob('UNQ.table', fn, 'Keep::Last: the first element is null-tested before it seeds the run state',
               bool(tests), fn.loc(), '%d element-level null test(s) before the pipeline' % len(tests))
    fn = F.one('MapValidBasic::vsorted_unique')
    # the element closure is the outermost closure of the body with Option combinators written
    # as the control flow they abbreviate
    import pinned as _pinned
    from facts import children as _children
    xroot = _pinned.expand_options(fn.hir)

    def _tops(e):
        if e.get('k') == 'Closure':
            yield e
            return
        for c in _children(e):
            yield from _tops(c)
    cls = list(_tops(xroot))
    want = T((['VALID(a0)', 'VALID(value)', '(a0 != value)'], 'Some(IsNone::from_inner(a0))', ['value = Some(a0)']),
             (['VALID(a0)', 'VALID(value)', '(a0 == value)'], 'NULL', []),
             (['VALID(a0)', '!VALID(value)'], 'Some(IsNone::from_inner(a0))', ['value = Some(a0)']),
             (['!VALID(a0)'], 'NULL', []))
    if cls:
        t = dtree.closure_table(xroot, cls[0], N.self_env(fn))
        run.ob('UNQ.table', fn, 'unique-value closure', t == want, loc(cls[0]), 'table %s' % dtree.show(t))
