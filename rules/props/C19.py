"""C19 Generators and collectors build exactly the requested sequence."""
import re

from common import TRUSTED, ASSUME, configs
import tl
import nullrules as N
import dtree
import seqrules
import seq as S
from lia import L
from algebra import Poly, Env, norm, read_block
from facts import walk, walk_with_parents, peel, src, loc, callee_is, callee, strip_generics, _pat_binds


def check(run):
    for r in ('TL.struct', 'TL.consumer', 'TL.write'):
        run.rule(r, tl.RULES[r])
    run.rule('GEN.linspace', 'linspace(a, b, n) starts at a with step (b-a)/(n-1) (zero when n <= 1) '
             'and has n elements; element i is start + step*i')
    run.rule('GEN.full', 'full(len, v) is repeat_n(v, len) collected with the trusted collector')
    run.rule('GEN.create', 'Vec1Create::range / linspace default the start to 0 and the step to 1 '
             'and map the generator through from_inner')
    run.rule('COLL.delegate', 'the provided collectors only forward to the required one (order '
             'and content preserved): collect_from_trusted -> collect_from_iter, collect_with_len '
             '-> to_trust(len), optional -> unwrap_or_else(none)')
    run.rule('COLL.try', 'a fallible collector contains no unwrap / expect / panic: the first '
             'Err is returned with `?` or by collecting into a Result')
    run.rule('RANGE.trunc', 'in a function generic over Number a quotient must not flow into '
             'ceil() / floor(): on the integer instances these are the identity, so the count '
             'is truncated')
    run.rule('RANGE.neg-cast', 'a possibly negative element count must not be cast to usize '
             'unguarded')
    for cfg in configs(run, extra_quick=('nd',)):
        F = run.facts(cfg)
        tl.check_structs(run, F)
        tl.check_consumers(run, F)
        tl.check_write_trust_iter(run, F)
        linspace_rules(run, F)
        collectors(run, F)
        try_collectors(run, F, cfg)
    return run.finish(
        'other',
        'Linspace is an exact-size state machine (k = len - index, decremented per item from '
        'either end) whose element i is start + step*i; linspace() sets step = (b-a)/(n-1) and '
        'len = n; full is repeat_n(v,len); provided collectors forward unchanged; trusted '
        'consumers write one slot per item in order and fallible collection returns at the '
        'first Err before any further write; no fallible collector unwraps; write_trust_iter '
        'decision tree. The element count of range() is linted structurally (quotient into '
        'ceil on a Number-generic type; negative count cast to usize) - both are listed known '
        'findings. Float end-point "up to rounding" is not decided.',
        ASSUME, TRUSTED,
        'instances = iterator state machines, generator formulas, collector bodies per backend')


def linspace_rules(run, F):
    def one(q):
        return [f for f in F.fns if f.crate == 'tea_core' and f.qpath.endswith(q)][0]
    # element formula in next / next_back
    for q in ('Iterator>::next', 'DoubleEndedIterator>::next_back'):
        fn = [f for f in F.fns if f.crate == 'tea_core' and f.file.endswith('linspace.rs') and
              f.qpath.endswith(q)][0]
        t = N.tbl(fn)
        # `i` is the pre-increment index (next) / the post-decrement len (next_back)
        if q.endswith('::next'):
            want = N.T((['(self.index < self.len)'], 'Some(((self.step * i) + self.start))',
                        ['i := self.index', 'self.index AddAssign 1']),
                       (['(self.len <= self.index)'], 'NULL', []))
        else:
            want = N.T((['(self.index < self.len)'], "Some(((self.len' * self.step) + self.start))",
                        ['self.len SubAssign 1']),     # the leaf is evaluated after the effects
                       (['(self.len <= self.index)'], 'NULL', []))
        ok = t == want
        run.ob('GEN.linspace', fn, 'Linspace::%s element' % fn.name, ok, fn.loc(),
               'table %s' % dtree.show(t))
    fn = one('linspace::linspace')
    t = N.tbl(fn)
    s = src(fn.hir)
    env = Env()
    read_block(fn.hir, env)
    step_if = [x for x in walk(fn.hir) if x.get('k') == 'If' and src(peel(x['ch'][0])) == '(n > 1)']
    ok = len(step_if) == 1
    det = 'no `if n > 1`'
    if ok:
        e2 = Env()
        p = norm(step_if[0]['ch'][1], e2)
        sym = lambda x: Poly.atom(('sym', x))
        want = (sym('b') - sym('a')) * (sym('n') - Poly.const(1)).inv()
        z = src(peel(step_if[0]['ch'][2]))
        ok = p == want and z.endswith('zero()')
        det = 'step = %s when n > 1 else %s' % (p.show(), z)
    st = [x for x in walk(fn.hir) if x.get('k') == 'Struct']
    fields = {f['field']: src(f['e']) for f in st[0]['fields']} if st else {}
    ok2 = fields == {'start': 'a', 'step': 'step', 'index': '0', 'len': 'n'}
    run.ob('GEN.linspace', fn, 'linspace(a, b, n)', ok and ok2, fn.loc(), det + '; fields %s' % fields)
    # range(): element count lints
    fn = one('linspace::range')
    for x, parents in walk_with_parents(fn.hir):
        if x.get('k') == 'MethodCall' and callee_is(x, 'Number::ceil', 'Number::floor'):
            r = peel(x['ch'][0])
            quo = r.get('k') == 'Binary' and r['op'] == 'Div'
            if not quo and r.get('res') == 'local':
                # let-bound quotient
                for y in walk(fn.hir):
                    if y.get('k') == 'Block':
                        for s_ in y.get('stmts', []):
                            if s_['k'] == 'Let' and s_['pat'].get('local') == r['local']:
                                q_ = peel(s_.get('init', {}))
                                quo = q_.get('k') == 'Binary' and q_['op'] == 'Div'
            generic = 'T' == x.get('ty')
            run.ob('RANGE.trunc', fn, '`%s`' % src(x), not (quo and generic), loc(x),
                   'quotient of type %s flows into %s(): identity on the integer instances of '
                   'Number, so range(0, 5, 2) has 2 elements instead of 3' % (x.get('ty'), x['method']))
        if x.get('k') == 'MethodCall' and callee_is(x, 'Cast::cast') and x.get('ty') == 'usize':
            src_ty = peel(x['ch'][0]).get('ty')
            guarded = any(p.get('k') == 'If' for p in parents)
            run.ob('RANGE.neg-cast', fn, '`%s` as usize' % src(peel(x['ch'][0])), guarded or src_ty == 'usize',
                   loc(x), 'a count of type %s (negative when the step points away from the end, e.g. '
                   'range(5, 2, 1) on i32) is cast to usize with no sign test' % src_ty)
    # full
    fn = [f for f in F.fns if f.crate == 'tea_core' and f.qpath.endswith('Vec1::full')][0]
    s = src(fn.hir)
    run.ob('GEN.full', fn, 'full', s == 'let iter = iter::repeat_n(v, len); Vec1::collect_from_trusted(iter)'
           or s.replace('Self::', 'Vec1::') == 'let iter = iter::repeat_n(v, len); Vec1::collect_from_trusted(iter)',
           fn.loc(), s)
    for nm, want in (('Vec1Create::range', 'let start = start.unwrap_or(Zero::zero()); let step = step.unwrap_or(One::one()); '
                      'Vec1::collect_from_trusted(linspace::range(start, end, step).map(IsNone::from_inner))'),
                     ('Vec1Create::linspace', 'let start = start.unwrap_or(Zero::zero()); '
                      'Vec1::collect_from_trusted(linspace::linspace(start, end, num).map(IsNone::from_inner))')):
        fn = [f for f in F.fns if f.crate == 'tea_core' and f.qpath.endswith(nm)][0]
        s = src(fn.hir)
        run.ob('GEN.create', fn, nm, s == want, fn.loc(), s)


def collectors(run, F):
    want = {
        'Vec1::collect_from_trusted': 'Vec1::collect_from_iter(iter)',
        'Vec1::try_collect_from_trusted': 'Vec1::try_collect_from_iter(iter)',
        'Vec1::collect_with_len': 'Vec1::collect_from_trusted(iter.to_trust(len))',
        'Vec1::collect_from_opt_iter': 'let iter = iter.map(|v| v.unwrap_or_else(IsNone::none)); Vec1::collect_from_iter(iter)',
        'Vec1::empty': 'Vec1::collect_from_iter(iter::empty())',
        'Vec1Collect::collect_vec1': 'Vec1::collect_from_iter(self.into_iter())',
        'Vec1Collect::collect_trusted_vec1': 'Vec1::collect_from_trusted(self.into_iter())',
        'Vec1Collect::collect_vec1_with_len': 'Vec1::collect_with_len(self.into_iter(), len)',
        'Vec1OptCollect::collect_vec1_opt': 'Vec1::collect_from_opt_iter(self.into_iter())',
        'Vec1TryCollect::try_collect_vec1': 'Vec1::try_collect_from_iter(self.into_iter())',
        'Vec1TryCollect::try_collect_trusted_vec1': 'Vec1::try_collect_from_trusted(self.into_iter())',
        'CollectTrustedToVec::collect_trusted_to_vec': 'CollectTrusted::collect_from_trusted(self)',
        'TryCollectTrustedToVec::try_collect_trusted_to_vec': 'CollectTrusted::try_collect_from_trusted(self)',
        'ToTrustIter>::to_trust': 'TrustIter::new(self.into_iter(), len)',
    }
    for q, w in want.items():
        fs = [f for f in F.fns if f.crate == 'tea_core' and f.qpath.endswith(q) and f.kind != 'Closure']
        if not fs:
            run.ob('COLL.delegate', 'tea_core', q, False, '', 'function not found')
            continue
        s = src(fs[0].hir)
        run.ob('COLL.delegate', fs[0], q.split('::')[-1] + ' of ' + q.split('::')[0], s == w, fs[0].loc(), s)


def try_collectors(run, F, cfg):
    n = 0
    for fn in F.fns:
        if fn.kind == 'Closure' or fn.hir is None or not fn.name.startswith('try_collect'):
            continue
        if fn.crate != 'tea_core':
            continue
        n += 1
        bad = []
        for x in walk(fn.hir):
            if x.get('k') == 'MethodCall' and callee_is(x, 'Option::unwrap', 'Result::unwrap',
                                                       'Option::expect', 'Result::expect'):
                # size-hint upper bound expect is the TrustedLen contract, not an item error
                if 'size_hint' in src(x):
                    continue
                bad.append(src(x)[:50])
        who = fn.impl_self or fn.trait or ''
        run.ob('COLL.try', fn, '%s for %s' % (fn.name, N._short(who)[:40]), not bad, fn.loc(),
               'unwrap/expect on items: %s' % bad if bad else 'no unwrap of items')
    run.floor('COLL.try', 'fallible collectors (config %s)' % cfg, n, 8)
