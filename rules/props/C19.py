"""C19 Generators and collectors build exactly the requested sequence."""
import re

from common import TRUSTED, ASSUME, configs
import tl
import nullrules as N
import pinned
import dtree
import seqrules
import seq as S
from lia import L
from algebra import Poly, Env, norm, read_block
from facts import walk, walk_with_parents, peel, src, loc, callee_is, callee, strip_generics, _pat_binds


def check(run):
    for r in ('TL.struct', 'TL.consumer', 'TL.write'):
        run.rule(r, tl.RULES[r])
    run.rule('GEN.linspace', 'linspace(a, b, n) starts at a with step (b-a)/(n-1) (zero when n <= 1) '
             'and has n elements; element i is start + step*i')
    run.rule('GEN.full', 'full(len, v) is repeat_n(v, len) collected with the trusted collector')
    run.rule('GEN.create', 'Vec1Create::range / linspace default the start to 0 and the step to 1 '
             'and map the generator through from_inner')
    run.rule('COLL.delegate', 'the provided collectors only forward to the required one (order '
             'and content preserved): collect_from_trusted -> collect_from_iter, collect_with_len '
             '-> to_trust(len), optional -> unwrap_or_else(none)')
    run.rule('COLL.try', 'a fallible collector contains no unwrap / expect / panic: the first '
             'Err is returned with `?` or by collecting into a Result')
    run.rule('RANGE.trunc', 'in a function generic over Number a quotient must not flow into '
             'ceil() / floor(): on the integer instances these are the identity, so the count '
             'is truncated')
    run.rule('RANGE.neg-cast', 'a possibly negative element count must not be cast to usize '
             'unguarded')
    for cfg in configs(run, extra_quick=('nd',)):
        F = run.facts(cfg)
        if cfg == 'base': __import__('common').pins(run, F, 'core_defaults')
        tl.check_structs(run, F)
        tl.check_consumers(run, F)
        tl.check_write_trust_iter(run, F)
        linspace_rules(run, F)
        collectors(run, F)
        try_collectors(run, F, cfg)
    # the buffers every kernel writes into / every collector returns are the backends' own, of the requested size
    from common import dep_alloc as _dep_alloc
    _dep_alloc(run, polars=False)
    return run.finish(
        'other',
        'Linspace is an exact-size state machine (k = len - index, decremented per item from '
        'either end) whose element i is start + step*i; linspace() sets step = (b-a)/(n-1) and '
        'len = n; full is repeat_n(v,len); provided collectors forward unchanged; trusted '
        'consumers write one slot per item in order and fallible collection returns at the '
        'first Err before any further write; no fallible collector unwraps; write_trust_iter '
        'decision tree. The element count of range() is linted structurally (quotient into '
        'ceil on a Number-generic type; negative count cast to usize) - both are listed known '
        'findings. Float end-point "up to rounding" is not decided.',
        ASSUME, TRUSTED,
        'instances = iterator state machines, generator formulas, collector bodies per backend')


def linspace_rules(run, F):
    def one(q):
        return [f for f in F.fns if f.crate == 'tea_core' and f.qpath.endswith(q)][0]
    # element formula in next / next_back
    for q in ('Iterator>::next', 'DoubleEndedIterator>::next_back'):
        fn = [f for f in F.fns if f.crate == 'tea_core' and f.file.endswith('linspace.rs') and
              f.qpath.endswith(q)][0]
        t = N.tbl(fn)
        # item path: under index < len, `next` yields start + step * index and advances index by
        # one; `next_back` shrinks len by one and yields start + step * (len - 1).  Values are
        # compared as polynomials with the path's lets substituted and the state update read as
        # a delta, so `self.index += 1`, `let i = self.index; self.index = i + 1` are the same.
        import tl as _tl
        from algebra import parse_poly as _pp, defs_of as _defs
        rows = [(cs, l, list(ef)) for cs, l, ef in t]
        item = [r for r in rows if r[0] == frozenset({'(self.index < self.len)'})]
        none = [r for r in rows if r[0] == frozenset({'(self.len <= self.index)'})]
        ok = len(rows) == 2 and len(item) == 1 and len(none) == 1 and none[0][1] == 'NULL' and not none[0][2]
        if ok:
            cs, leaf, ef = item[0]
            state, defs = {}, {}

            def post(x):
                # `self.f'` is the field after the updates seen so far: old value + delta
                return re.sub(r"self\.(\w+)'+", lambda m_: '(self.%s + %d)' % (m_.group(1), state.get(m_.group(1), 0)), x)
            good = True
            for x in ef:
                m_ = re.match(r"(v\d+)'* := (.*)$", x)
                if m_:
                    defs[m_.group(1)] = post(m_.group(2))
                    continue
                d = _tl._effect_delta(post(x), defs)
                if d is None:
                    good = False
                    break
                state[d[0]] = state.get(d[0], 0) + d[1]
            m_ = re.fullmatch(r'Some\((.*)\)', leaf)
            try:
                val = _pp(post(m_.group(1)), defs) if m_ and good else None
            except Exception:
                val = None
            if q.endswith('::next'):
                want_v = _pp('(self.start + (self.step * self.index))', {})
                ok = good and state == {'index': 1} and val is not None and val == want_v
            else:
                want_v = _pp('(self.start + (self.step * (self.len - 1)))', {})
                ok = good and state == {'len': -1} and val is not None and val == want_v
        run.ob('GEN.linspace', fn, 'Linspace::%s element' % fn.name, ok, fn.loc(),
               'table %s' % dtree.show(t))
    fn = one('linspace::linspace')
    t = N.tbl(fn)
    from algebra import parse_poly
    # Linspace { start: a, step, index: 0, len: n } with step = (b - a)/(n - 1) for n >= 2, else 0
    bad = []
    for nv in range(6):
        rows = dtree.select_rows(t, {'n': nv})
        if rows is None or len(rows) != 1:
            bad.append('n=%d: %s row(s)' % (nv, 'unevaluable' if rows is None else len(rows)))
            continue
        m = re.fullmatch(r'Linspace\{(.*)\}', rows[0][1])
        fields = dict(x.split(': ', 1) for x in dtree._split_top(m.group(1))) if m else {}
        stepv = fields.get('step', '?')
        if nv >= 2:
            okp = parse_poly(stepv) == (parse_poly('b') - parse_poly('a')) * (parse_poly('n') - Poly.const(1)).inv()
        else:
            okp = stepv in ('Zero::zero()', '0', '0.')
        if not (okp and fields.get('start') == 'a' and fields.get('index') == '0' and fields.get('len') == 'n'
                and set(fields) == {'start', 'step', 'index', 'len'}) or rows[0][2]:
            bad.append('n=%d: %s' % (nv, rows[0][1][:80]))
    run.ob('GEN.linspace', fn, 'linspace(a, b, n)', not bad, fn.loc(),
           'step = (b - a)/(n - 1) for n >= 2 else zero; start a, index 0, len n' + ('' if not bad else ' ; ' + '; '.join(bad[:3])))
    # range(): element count lints
    fn = one('linspace::range')
    for x, parents in walk_with_parents(fn.hir):
        if x.get('k') == 'MethodCall' and callee_is(x, 'Number::ceil', 'Number::floor'):
            r = peel(x['ch'][0])
            quo = r.get('k') == 'Binary' and r['op'] == 'Div'
            if not quo and r.get('res') == 'local':
                # let-bound quotient
                for y in walk(fn.hir):
                    if y.get('k') == 'Block':
                        for s_ in y.get('stmts', []):
                            if s_['k'] == 'Let' and s_['pat'].get('local') == r['local']:
                                q_ = peel(s_.get('init', {}))
                                quo = q_.get('k') == 'Binary' and q_['op'] == 'Div'
            generic = 'T' == x.get('ty')
            run.ob('RANGE.trunc', fn, 'element count: generic quotient into %s()' % x['method'], not (quo and generic), loc(x),
                   'quotient of type %s flows into %s(): identity on the integer instances of '
                   'Number, so range(0, 5, 2) has 2 elements instead of 3' % (x.get('ty'), x['method']))
        if x.get('k') == 'MethodCall' and callee_is(x, 'Cast::cast') and x.get('ty') == 'usize':
            src_ty = peel(x['ch'][0]).get('ty')
            guarded = any(p.get('k') == 'If' for p in parents)
            run.ob('RANGE.neg-cast', fn, 'element count cast to usize', guarded or src_ty == 'usize',
                   loc(x), 'a count of type %s (negative when the step points away from the end, e.g. '
                   'range(5, 2, 1) on i32) is cast to usize with no sign test' % src_ty)
    # full
    fn = [f for f in F.fns if f.crate == 'tea_core' and f.qpath.endswith('Vec1::full')][0]
    s = N.one_leaf(N.tbl(fn))
    run.ob('GEN.full', fn, 'full', s == 'Vec1::collect_from_trusted(iter::repeat_n(v, len))', fn.loc(), str(s))
    for nm, want in (('Vec1Create::range', 'Vec1::collect_from_trusted(linspace::range(p0.unwrap_or(Zero::zero()), p1, '
                      'p2.unwrap_or(One::one())).map(IsNone::from_inner))'),
                     ('Vec1Create::linspace', 'Vec1::collect_from_trusted(linspace::linspace(p0.unwrap_or(Zero::zero()), '
                      'p1, p2).map(IsNone::from_inner))')):
        fn = [f for f in F.fns if f.crate == 'tea_core' and f.qpath.endswith(nm)][0]
        s = N.one_leaf(pinned.tbl(fn))         # parameters by position
        run.ob('GEN.create', fn, nm, s == want, fn.loc(), str(s))


def collectors(run, F):
    want = {
        'Vec1::collect_from_trusted': 'Vec1::collect_from_iter(p0)',
        'Vec1::try_collect_from_trusted': 'Vec1::try_collect_from_iter(p0)',
        'Vec1::collect_with_len': 'Vec1::collect_from_trusted(p0.to_trust(p1))',
        'Vec1::collect_from_opt_iter': 'Vec1::collect_from_iter(p0.map(|a0| a0.unwrap_or(NULL)))',
        'Vec1::empty': 'Vec1::collect_from_iter(iter::empty())',
        'Vec1Collect::collect_vec1': 'Vec1::collect_from_iter(self.into_iter())',
        'Vec1Collect::collect_trusted_vec1': 'Vec1::collect_from_trusted(self.into_iter())',
        'Vec1Collect::collect_vec1_with_len': 'Vec1::collect_with_len(self.into_iter(), p0)',
        'Vec1OptCollect::collect_vec1_opt': 'Vec1::collect_from_opt_iter(self.into_iter())',
        'Vec1TryCollect::try_collect_vec1': 'Vec1::try_collect_from_iter(self.into_iter())',
        'Vec1TryCollect::try_collect_trusted_vec1': 'Vec1::try_collect_from_trusted(self.into_iter())',
        'CollectTrustedToVec::collect_trusted_to_vec': 'self.collect_from_trusted()',
        'TryCollectTrustedToVec::try_collect_trusted_to_vec': 'self.try_collect_from_trusted()',
        'ToTrustIter>::to_trust': 'TrustIter::new(self.into_iter(), p0)',
    }
    for q, w in want.items():
        fs = [f for f in F.fns if f.crate == 'tea_core' and f.qpath.endswith(q) and f.kind != 'Closure']
        if not fs:
            run.ob('COLL.delegate', 'tea_core', q, False, '', 'function not found')
            continue
        s = N.one_leaf(pinned.tbl(fs[0]))      # parameters by position
        run.ob('COLL.delegate', fs[0], q.split('::')[-1] + ' of ' + q.split('::')[0], s == w, fs[0].loc(), str(s))


def try_collectors(run, F, cfg):
    n = 0
    for fn in F.fns:
        if fn.kind == 'Closure' or fn.hir is None or not fn.name.startswith('try_collect'):
            continue
        if fn.crate != 'tea_core':
            continue
        n += 1
        bad = []
        for x in walk(fn.hir):
            if x.get('k') == 'MethodCall' and callee_is(x, 'Option::unwrap', 'Result::unwrap',
                                                       'Option::expect', 'Result::expect'):
                # size-hint upper bound expect is the TrustedLen contract, not an item error
                if 'size_hint' in src(x):
                    continue
                bad.append(src(x)[:50])
        who = fn.impl_self or fn.trait or ''
        run.ob('COLL.try', fn, '%s for %s' % (fn.name, N._short(who)[:40]), not bad, fn.loc(),
               'unwrap/expect on items: %s' % bad if bad else 'no unwrap of items')
    run.floor('COLL.try', 'fallible collectors (config %s)' % cfg, n, 8)
