"""C19 Generators and collectors build exactly the requested sequence."""
import re

from common import TRUSTED, ASSUME, configs
import tl
import nullrules as N
import dtree
import seqrules
import seq as S
from lia import L
from algebra import Poly, Env, norm, read_block
from facts import walk, walk_with_parents, peel, src, loc, callee_is, callee, strip_generics, _pat_binds


def check(run):
    for r in ('TL.struct', 'TL.consumer', 'TL.write'):
        run.rule(r, tl.RULES[r])
    run.rule('GEN.linspace', 'linspace(a, b, n) starts at a with step (b-a)/(n-1) (zero when n <= 1) '
             'and has n elements; element i is start + step*i')
    run.rule('GEN.full', 'full(len, v) is repeat_n(v, len) collected with the trusted collector')
    run.rule('GEN.create', 'Vec1Create::range / linspace default the start to 0 and the step to 1 '
             'and map the generator through from_inner')
    run.rule('COLL.delegate', 'the provided collectors only forward to the required one (order '
             'and content preserved): collect_from_trusted -> collect_from_iter, collect_with_len '
             '-> to_trust(len), optional -> unwrap_or_else(none)')
    run.rule('COLL.try', 'a fallible collector contains no unwrap / expect / panic: the first '
             'Err is returned with `?` or by collecting into a Result')
    run.rule('RANGE.trunc', 'in a function generic over Number a quotient must not flow into '
             'ceil() / floor(): on the integer instances these are the identity, so the count '
             'is truncated')
    run.rule('RANGE.neg-cast', 'a possibly negative element count must not be cast to usize '
             'unguarded')
    for cfg in configs(run, extra_quick=('nd',)):
        F = run.facts(cfg)
        if cfg == 'base': __import__('common').pins(run, F, 'core_defaults')
        tl.check_structs(run, F)
        tl.check_consumers(run, F)
        tl.check_write_trust_iter(run, F)
        linspace_rules(run, F)
        collectors(run, F)
        try_collectors(run, F, cfg)
    return run.finish(
        'other',
        'Linspace is an exact-size state machine (k = len - index, decremented per item from '
        'either end) whose element i is start + step*i; linspace() sets step = (b-a)/(n-1) and '
        'len = n; full is repeat_n(v,len); provided collectors forward unchanged; trusted '
        'consumers write one slot per item in order and fallible collection returns at the '
        'first Err before any further write; no fallible collector unwraps; write_trust_iter '
        'decision tree. The element count of range() is linted structurally (quotient into '
        'ceil on a Number-generic type; negative count cast to usize) - both are listed known '
        'findings. Float end-point "up to rounding" is not decided.',
        ASSUME, TRUSTED,
        'instances = iterator state machines, generator formulas, collector bodies per backend')


def linspace_rules(run, F):
    def one(q):
        return [f for f in F.fns if f.crate == 'tea_core' and f.qpath.endswith(q)][0]
    # element formula in next / next_back
    for q in ('Iterator>::next', 'DoubleEndedIterator>::next_back'):
        fn = [f for f in F.fns if f.crate == 'tea_core' and f.file.endswith('linspace.rs') and
              f.qpath.endswith(q)][0]
        t = N.tbl(fn)
        # `i` is the pre-increment index (next) / the post-decrement len (next_back)
        if q.endswith('::next'):
            want = N.T((['(self.index < self.len)'], 'Some(((self.step * i) + self.start))',
                        ['i := self.index', 'self.index AddAssign 1']),
                       (['(self.len <= self.index)'], 'NULL', []))
        else:
            want = N.T((['(self.index < self.len)'], "Some(((self.len' * self.step) + self.start))",
                        ['self.len SubAssign 1']),     # the leaf is evaluated after the effects
                       (['(self.len <= self.index)'], 'NULL', []))
        ok = t == want
        run.ob('GEN.linspace', fn, 'Linspace::%s element' % fn.name, ok, fn.loc(),
               'table %s' % dtree.show(t))
    fn = one('linspace::linspace')
    t = N.tbl(fn)
    from algebra import parse_poly
    # Linspace { start: a, step, index: 0, len: n } with step = (b - a)/(n - 1) for n >= 2, else 0
    bad = []
    for nv in range(6):
        rows = dtree.select_rows(t, {'n': nv})
        if rows is None or len(rows) != 1:
            bad.append('n=%d: %s row(s)' % (nv, 'unevaluable' if rows is None else len(rows)))
            continue
        m = re.fullmatch(r'Linspace\{(.*)\}', rows[0][1])
        fields = dict(x.split(': ', 1) for x in dtree._split_top(m.group(1))) if m else {}
        stepv = fields.get('step', '?')
        if nv >= 2:
            okp = parse_poly(stepv) == (parse_poly('b') - parse_poly('a')) * (parse_poly('n') - Poly.const(1)).inv()
        else:
            okp = stepv in ('Zero::zero()', '0', '0.')
        if not (okp and fields.get('start') == 'a' and fields.get('index') == '0' and fields.get('len') == 'n'
                and set(fields) == {'start', 'step', 'index', 'len'}) or rows[0][2]:
            bad.append('n=%d: %s' % (nv, rows[0][1][:80]))
    run.ob('GEN.linspace', fn, 'linspace(a, b, n)', not bad, fn.loc(),
           'step = (b - a)/(n - 1) for n >= 2 else zero; start a, index 0, len n' + ('' if not bad else ' ; ' + '; '.join(bad[:3])))
    # range(): element count lints
    fn = one('linspace::range')
    for x, parents in walk_with_parents(fn.hir):
        if x.get('k') == 'MethodCall' and callee_is(x, 'Number::ceil', 'Number::floor'):
            r = peel(x['ch'][0])
            quo = r.get('k') == 'Binary' and r['op'] == 'Div'
            if not quo and r.get('res') == 'local':
                # let-bound quotient
                for y in walk(fn.hir):
                    if y.get('k') == 'Block':
                        for s_ in y.get('stmts', []):
                            if s_['k'] == 'Let' and s_['pat'].get('local') == r['local']:
                                q_ = peel(s_.get('init', {}))
                                quo = q_.get('k') == 'Binary' and q_['op'] == 'Div'
            generic = 'T' == x.get('ty')
            run.ob('RANGE.trunc', fn, 'element count: generic quotient into %s()' % x['method'], not (quo and generic), loc(x),
                   'quotient of type %s flows into %s(): identity on the integer instances of '
                   'Number, so range(0, 5, 2) has 2 elements instead of 3' % (x.get('ty'), x['method']))
        if x.get('k') == 'MethodCall' and callee_is(x, 'Cast::cast') and x.get('ty') == 'usize':
            src_ty = peel(x['ch'][0]).get('ty')
            guarded = any(p.get('k') == 'If' for p in parents)
            run.ob('RANGE.neg-cast', fn, 'element count cast to usize', guarded or src_ty == 'usize',
                   loc(x), 'a count of type %s (negative when the step points away from the end, e.g. '
                   'range(5, 2, 1) on i32) is cast to usize with no sign test' % src_ty)
    # full
    fn = [f for f in F.fns if f.crate == 'tea_core' and f.qpath.endswith('Vec1::full')][0]
    s = N.one_leaf(N.tbl(fn))
    run.ob('GEN.full', fn, 'full', s == 'Vec1::collect_from_trusted(iter::repeat_n(v, len))', fn.loc(), str(s))
    for nm, want in (('Vec1Create::range', 'Vec1::collect_from_trusted(linspace::range(start.unwrap_or(Zero::zero()), end, '
                      'step.unwrap_or(One::one())).map(IsNone::from_inner))'),
                     ('Vec1Create::linspace', 'Vec1::collect_from_trusted(linspace::linspace(start.unwrap_or(Zero::zero()), '
                      'end, num).map(IsNone::from_inner))')):
        fn = [f for f in F.fns if f.crate == 'tea_core' and f.qpath.endswith(nm)][0]
        s = N.one_leaf(N.tbl(fn))
        run.ob('GEN.create', fn, nm, s == want, fn.loc(), str(s))


def collectors(run, F):
    want = {
        'Vec1::collect_from_trusted': 'Vec1::collect_from_iter(iter)',
        'Vec1::try_collect_from_trusted': 'Vec1::try_collect_from_iter(iter)',
        'Vec1::collect_with_len': 'Vec1::collect_from_trusted(iter.to_trust(len))',
        'Vec1::collect_from_opt_iter': 'Vec1::collect_from_iter(iter.map(|a0| a0.unwrap_or(NULL)))',
        'Vec1::empty': 'Vec1::collect_from_iter(iter::empty())',
        'Vec1Collect::collect_vec1': 'Vec1::collect_from_iter(self.into_iter())',
        'Vec1Collect::collect_trusted_vec1': 'Vec1::collect_from_trusted(self.into_iter())',
        'Vec1Collect::collect_vec1_with_len': 'Vec1::collect_with_len(self.into_iter(), len)',
        'Vec1OptCollect::collect_vec1_opt': 'Vec1::collect_from_opt_iter(self.into_iter())',
        'Vec1TryCollect::try_collect_vec1': 'Vec1::try_collect_from_iter(self.into_iter())',
        'Vec1TryCollect::try_collect_trusted_vec1': 'Vec1::try_collect_from_trusted(self.into_iter())',
        'CollectTrustedToVec::collect_trusted_to_vec': 'self.collect_from_trusted()',
        'TryCollectTrustedToVec::try_collect_trusted_to_vec': 'self.try_collect_from_trusted()',
        'ToTrustIter>::to_trust': 'TrustIter::new(self.into_iter(), len)',
    }
    for q, w in want.items():
        fs = [f for f in F.fns if f.crate == 'tea_core' and f.qpath.endswith(q) and f.kind != 'Closure']
        if not fs:
            run.ob('COLL.delegate', 'tea_core', q, False, '', 'function not found')
            continue
        s = N.one_leaf(N.tbl(fs[0]))
        run.ob('COLL.delegate', fs[0], q.split('::')[-1] + ' of ' + q.split('::')[0], s == w, fs[0].loc(), str(s))


def try_collectors(run, F, cfg):
    n = 0
    for fn in F.fns:
        if fn.kind == 'Closure' or fn.hir is None or not fn.name.startswith('try_collect'):
            continue
        if fn.crate != 'tea_core':
            continue
        n += 1
        bad = []
        for x in walk(fn.hir):
            if x.get('k') == 'MethodCall' and callee_is(x, 'Option::unwrap', 'Result::unwrap',
                                                       'Option::expect', 'Result::expect'):
                # size-hint upper bound expect is the TrustedLen contract, not an item error
                if 'size_hint' in src(x):
                    continue
                bad.append(src(x)[:50])
        who = fn.impl_self or fn.trait or ''
        run.ob('COLL.try', fn, '%s for %s' % (fn.name, N._short(who)[:40]), not bad, fn.loc(),
               'unwrap/expect on items: %s' % bad if bad else 'no unwrap of items')
    run.floor('COLL.try', 'fallible collectors (config %s)' % cfg, n, 8)
