"""C17 Date-time, duration and time-of-day arithmetic obeys its inverse laws."""
from common import TRUSTED, ASSUME, configs
import timerules as T


def check(run):
    for r in ('SIB.ops', 'TIME.months', 'TBL.time', 'TBL.const', 'NAT.guard', 'TBL.cr', 'TIME.trunc'):
        run.rule(r, T.RULES[r])
    for cfg in configs(run):
        F = run.facts(cfg)
        if cfg == 'base': __import__('common').pins(run, F, 'time_prims', 'timelike')
        T.check_mirrors(run, F)
        T.check_months(run, F)
        T.check_time_ctors(run, F)
        T.check_consts(run, F)
        T.check_ops(run, F)
        # every operator and duration_trunc goes through as_cr and back
        T.check_cr_table(run, F)
        T.check_trunc(run, F)
    return run.finish(
        'other',
        'The structural part of the inverse laws: subtraction of a duration is the addition '
        'body with every sign flipped (DateTime, Time, TimeDelta: alpha-normalised mirror '
        'comparison); negation, addition, subtraction and integer scaling of durations act on '
        'both the month and the fixed component; month components reach a date-time only '
        'through chrono::Months; Time constructors use the named constants per component and '
        'from_cr / as_cr / parse agree on the modulus; constants have their defining values. '
        'Truncation by a month count takes the modulus of 12*year + a zero-based month and '
        'moves to day 1 / midnight on every such path (TIME.trunc); the DateTime <-> chrono '
        'conversions every operator goes through denote the same instant (TBL.cr); NaT '
        'primitives, Timelike accessors and delegations have their confirmed tables (PIN.table). '
        'The group laws themselves, end-of-month clamping and the month-free part of '
        'duration_trunc are calendar computations delegated to chrono and are NOT decided.',
        ASSUME, TRUSTED + ['chrono Months / Duration arithmetic'],
        'instances = operator mirror pairs, component-wise operator bodies, Time constructors, '
        'constants')
