"""C13 Element-wise mapping operations follow their positional definitions."""
from common import TRUSTED, ASSUME, configs
import re
import lag
import dtree
import algebra
import nullrules as N
from facts import walk, children, peel, src, loc, callee_is, _pat_binds, strip_generics


def fn_env(fn):
    """parameter names (lets are bound by dtree.env_at on the way to each closure)"""
    return N.self_env(fn)


def xhir(fn):
    """the body with Option combinators written as the control flow they abbreviate"""
    if not hasattr(fn, '_xhir'):
        import pinned
        fn._xhir = pinned.expand_options(fn.hir)
    return fn._xhir


def _pair_param(e):
    """closure over one (lagged, current) pair: a tuple pattern or a pair bound whole"""
    if len(e['params']) != 1:
        return False
    p = e['params'][0]
    return p.get('k') == 'Tuple' or (p.get('k') == 'Binding' and dtree._tuple_arity(p.get('ty')) == 2)


def closure_tables(fn):
    """(closure node, decision table, guards) of every closure of fn; parameters are a0, a1 ..,
    captured state is named as at the definition site (kept lets positional)"""
    env0 = fn_env(fn)
    out = []
    root = xhir(fn)

    def tops(e):
        # the element closures are the outermost ones (a closure inside a closure is part of its
        # parent's table)
        if e.get('k') == 'Closure':
            yield e
            return
        for c in children(e):
            yield from tops(c)
    for e in tops(root):
        if e.get('k') == 'Closure':
            t = dtree.closure_table(root, e, env0)
            # `<=` folded to `<`: at the bound itself both choices give the same value
            t = dtree.Table((frozenset(c.replace('<=', '<') for c in cs), leaf, ef) for cs, leaf, ef in t)
            out.append((e, t))
    return out


def T(*rows):
    return dtree.Table((frozenset(c), leaf, tuple(ef)) for c, leaf, ef in rows)


FILL = T((['mask_func(a0)'], 'value', []), (['!mask_func(a0)'], 'a0', []))
FFILL = T((['mask_func(a0)', 'VALID(last_valid)'], 'last_valid', []),
          (['mask_func(a0)', '!VALID(last_valid)', 'VALID(value)'], 'value', []),
          (['mask_func(a0)', '!VALID(last_valid)', '!VALID(value)'], 'NULL', []),
          (['!mask_func(a0)'], 'a0', ['last_valid = Some(a0)']))
CLIP_BOTH = T((['VALID(a0)', '(a0 < lower)'], 'lower', []),
              (['VALID(a0)', '(lower < a0)', '(upper < a0)'], 'upper', []),   # `<=` folded to `<` (equal at the bound)
              (['VALID(a0)', '(lower < a0)', '(a0 < upper)'], 'a0', []),
              (['!VALID(a0)'], 'a0', []))
CLIP_LO = T((['VALID(a0)', '(a0 < lower)'], 'lower', []), (['VALID(a0)', '(lower < a0)'], 'a0', []), (['!VALID(a0)'], 'a0', []))
CLIP_HI = T((['VALID(a0)', '(upper < a0)'], 'upper', []), (['VALID(a0)', '(a0 < upper)'], 'a0', []), (['!VALID(a0)'], 'a0', []))


def check(run):
    run.rule('MAP.table', 'the element closure of fill / ffill / bfill / clip has exactly the '
             'decision table of its definition (which value on which predicate of the element '
             'alone; fill touches only masked elements, clip leaves nulls and in-range values '
             'unchanged, forward fill remembers only unmasked elements)')
    run.rule('MAP.delegate', 'fill / ffill / bfill are the masked forms with the null predicate; '
             'abs / vabs map the element-wise absolute value')
    run.rule('MAP.stateless', 'element-wise adaptors mutate no captured state')
    run.rule('MAP.bfill-order', 'backward fill runs the forward-fill state machine over the '
             'reversed input and materialises it before reversing back')
    run.rule('SEQ.elemfn', 'difference is current - lagged, percentage change is '
             'current / lagged - 1 guarded by both operands being non-null and a non-zero base')
    for cfg in configs(run):
        F = run.facts(cfg)
        if cfg == 'base': __import__('common').pins(run, F, 'agg_delegates')
        # helpers this property stands on (rule sets owned by other properties, see common.deps)
        from common import deps as _deps
        _deps(run, F, 'isnone', 'casts')
        if cfg == 'base':
            _deps(run, F, 'ord')   # elements are compared through their own PartialOrd
        lag.check_lag(run, F)
        elem_fns(run, F)
        maps(run, F)
    # every container the generic code can be instantiated with hands out its elements in logical order
    from common import dep_backends as _dep_backends
    _dep_backends(run)
    return run.finish(
        'other',
        'Lag family (shift, vshift, vdiff, vpct_change): for all symbolic len and n the '
        'returned pipeline has length len and output position p is x[p-n] when that exists, '
        'the fill value otherwise (SEQ.pos, by LIA over position functions); the element '
        'functions are current - lagged and current/lagged - 1 under the stated guards. '
        'fill/ffill/bfill/clip closures have exactly the decision table of their definition. '
        'Idempotence/containment of clip follow from the table for lower <= upper; they are '
        'not separately computed.',
        ASSUME, TRUSTED,
        'instances = to_trust sites, return paths, position-function pieces, closure decision '
        'tables')


def elem_fns(run, F):
    from algebra import parse_poly
    fn = F.one('MapValidVec::vdiff')
    n = 0
    for e, t in closure_tables(fn):
        if _pair_param(e):
            n += 1
            # (lagged a0, current a1) -> current - lagged
            ok = t == T(([], '(a1 - a0)', []))
            run.ob('SEQ.elemfn', fn, 'difference closure #%d' % n, ok, loc(e),
                   'closure over (lagged a0, current a1): %s' % dtree.show(t))
    run.floor('SEQ.elemfn', 'vdiff pair closures', n, 2)
    fn = F.one('MapValidVec::vpct_change')
    n = 0
    for e, t in closure_tables(fn):
        if _pair_param(e):
            n += 1
            nonnull = [(cs, leaf) for cs, leaf, ef in t if leaf != 'NULL']
            ok = len(nonnull) == 1 and parse_poly(nonnull[0][1]) == parse_poly('((a1 / a0) - 1.)') and \
                {'VALID(a0)', 'VALID(a1)'} <= set(nonnull[0][0]) and \
                any(c in ('(0. != a0)', '(a0 != 0.)') for c in nonnull[0][0])
            run.ob('SEQ.elemfn', fn, 'percentage-change closure #%d' % n, ok, loc(e),
                   'non-null leaf: %s' % [(sorted(c), l) for c, l in nonnull])
    run.floor('SEQ.elemfn', 'vpct_change pair closures', n, 2)
    # the zero-lag arms (neither `0 < n` nor `n < 0`): the element paired with itself.
    # pct_change: null on a null or zero base, else 0; diff: null stays null, else zero
    nz = 0
    for name in ('MapValidVec::vpct_change', 'MapValidVec::vdiff'):
        fn = F.one(name)
        for e, t in closure_tables(fn):
            if len(e['params']) != 1 or e['params'][0].get('k') != 'Binding' or _pair_param(e):
                continue
            g = dtree.guards_at(xhir(fn), e, fn_env(fn))
            gc = set(g[0]) if g else set()
            if '(0 < n)' in gc or '(n < 0)' in gc or not any('unsigned_abs' in c for c in gc):
                continue
            nz += 1
            if name.endswith('vpct_change'):
                want = T((['!VALID(a0)'], 'NULL', []), (['(0. != a0)', 'VALID(a0)'], '0.', []),
                         (['(0. == a0)', 'VALID(a0)'], 'NULL', []))
                ok = t == want
            else:
                rows = [(frozenset(cs), leaf) for cs, leaf, ef in t]
                ok = len(rows) == 2 and \
                    any(cs == frozenset({'!VALID(a0)'}) and leaf in ('a0', 'NULL') for cs, leaf in rows) and \
                    any(cs == frozenset({'VALID(a0)'}) and leaf in ('Zero::zero()', '0', '0.') for cs, leaf in rows)
            run.ob('SEQ.elemfn', fn, 'zero-lag closure', ok, loc(e),
                   'element paired with itself: %s' % dtree.show(t))
    run.floor('SEQ.elemfn', 'zero-lag closures (vpct_change, vdiff)', nz, 2)


def maps(run, F):
    env_of = fn_env
    for name, want in (('MapValidBasic::fill_mask', FILL), ('MapValidBasic::ffill_mask', FFILL),
                       ('MapValidBasic::bfill_mask', FFILL)):
        fn = F.one(name)
        got = closure_tables(fn)
        run.ob('MAP.table', fn, 'closure count', len(got) == 1, fn.loc(), '%d element closure(s), expected 1' % len(got))
        for i, (e, t) in enumerate(got[:1]):
            run.ob('MAP.table', fn, 'decision table #1', t == want, loc(e),
                   'got %s' % dtree.show(t) if t != want else 'matches: %s' % dtree.show(t)[:2])
            if name.endswith('fill_mask') and 'ffill' not in name and 'bfill' not in name:
                _stateless(run, fn, e, 1)
    # clip: one closure per combination of present bounds, chosen by the dispatch on them
    fn = F.one('MapValidBasic::vclip')
    got = closure_tables(fn)
    run.ob('MAP.table', fn, 'closure count', len(got) == 3, fn.loc(), '%d element closure(s), expected 3' % len(got))
    seen = set()
    for i, (e, t) in enumerate(got):
        g = dtree.guards_at(xhir(fn), e, env_of(fn))
        gc = set(g[0]) if g else set()
        which = ('lower' if 'VALID(lower)' in gc else '') + ('upper' if 'VALID(upper)' in gc else '')
        want = {'lowerupper': CLIP_BOTH, 'lower': CLIP_LO, 'upper': CLIP_HI}.get(which)
        seen.add(which)
        run.ob('MAP.table', fn, 'decision table for bounds present: %s' % (which or 'none'),
               want is not None and t == want, loc(e), 'under %s got %s' % (sorted(gc), dtree.show(t)))
        _stateless(run, fn, e, i + 1)
    run.ob('MAP.table', fn, 'one closure per bound combination', seen == {'lowerupper', 'lower', 'upper'},
           fn.loc(), 'combinations %s' % sorted(seen))
    # delegations
    for name, target in [('MapValidBasic::fill', 'fill_mask'), ('MapValidBasic::ffill', 'ffill_mask'),
                         ('MapValidBasic::bfill', 'bfill_mask')]:
        fn = F.one(name)
        leaf = N.one_leaf(N.tbl(fn))
        ok = leaf == 'self.%s(IsNone::is_none, value)' % target
        calls = [x for x in walk(fn.hir) if x.get('k') == 'MethodCall' and x['method'] == target]
        ok = ok and len(calls) == 1 and callee_is(calls[0], 'MapValidBasic::' + target)
        run.ob('MAP.delegate', fn, '-> %s(is_none, value)' % target, ok, fn.loc(), str(leaf)[:100])
    for name, m in [('tea_map::MapBasic::abs', 'Number::abs'), ('MapValidBasic::vabs', 'IsNone::vabs')]:
        fn = F.one(name)
        # `self.map(|v| v.abs())` and `self.map(Number::abs)` are one spelling (eta), and the
        # function mapped is the trait's own (resolved callee / path)
        leaf = N.one_leaf(N.tbl(fn))
        res = [x for x in walk(fn.hir) if (x.get('k') in ('MethodCall', 'Call') and callee_is(x, m)) or
               (x.get('k') == 'Path' and strip_generics(x.get('def', '')).endswith(m))]
        ok = leaf == 'self.map(%s)' % m and bool(res)
        run.ob('MAP.delegate', fn, 'element-wise %s' % m, ok, fn.loc(), str(leaf))
    # bfill pipeline: self.rev().map(f).collect…().into_iter().rev()
    fn = F.one('MapValidBasic::bfill_mask')
    leaf = N.one_leaf(dtree.Table((cs, l, ()) for cs, l, ef in N.tbl(fn))) or ''
    defs = [e_ for cs, l, ef in N.tbl(fn) for e_ in ef]
    full = leaf
    for e_ in defs:
        mm = re.match(r'(v\d+) := (.*)$', e_)
        if mm and not mm.group(2).startswith(('NULL', 'Some(')):
            full = re.sub(r'\b%s\b' % mm.group(1), lambda _m: mm.group(2), full)
    ok = bool(re.fullmatch(r'self\.rev\(\)\.map\(\|a0\| .*\)\.collect\w*\(\)\.into_iter\(\)\.rev\(\)', full))
    run.ob('MAP.bfill-order', fn, 'pipeline', ok, fn.loc(), full[:40] + ' … ' + full[-60:])


def _stateless(run, fn, e, i):
    caps = {c['local'] for c in e.get('captures', [])}
    muts = [src(x) for x in walk(e['ch'][0]) if x.get('k') in ('Assign', 'AssignOp')
            and peel(x['ch'][0]).get('local') in caps]
    mb = [c['place'] for c in e.get('captures', []) if 'Mut' in c.get('by', '')]
    run.ob('MAP.stateless', fn, 'closure #%d state' % i, not muts and not mb,
           loc(e), 'mutated captures: %s' % (muts + mb or 'none'))
