"""C13 Element-wise mapping operations follow their positional definitions."""
from common import TRUSTED, ASSUME, configs
import lag
import dtree
import algebra
from facts import walk, peel, src, loc, callee_is, _pat_binds, strip_generics


def fn_env(fn):
    """Canonical names for the immutable lets of the function body (outside closures)."""
    env = {}
    def rec(e):
        if e.get('k') == 'Closure':
            return
        if e.get('k') == 'Block':
            for s in e.get('stmts', []):
                if s['k'] == 'Let' and 'init' in s:
                    init = peel(s['init'])
                    if s['pat'].get('k') == 'Binding' and not s['pat'].get('mut'):
                        env[s['pat']['local']] = dtree.canon(init, env)
                    elif s['pat'].get('k') == 'Tuple' and init.get('k') == 'Tup':
                        for p_, v_ in zip(s['pat']['ch'], init['ch']):
                            if p_.get('k') == 'Binding':
                                env[p_['local']] = dtree.canon(v_, env)
        from facts import children
        for c in children(e):
            rec(c)
    rec(fn.hir)
    return env


def closure_tables(fn):
    env0 = fn_env(fn)
    out = []
    for e in walk(fn.hir):
        if e.get('k') == 'Closure':
            env = dict(env0)
            for i, p in enumerate(e['params']):
                bs = _pat_binds(p)
                if p.get('k') == 'Binding':
                    env[bs[0]['local']] = 'v' if i == 0 else bs[0]['name']
                else:
                    for j, b in enumerate(bs):
                        env[b['local']] = 'ab'[j] if j < 2 else b['name']
            t = dtree.table(e['ch'][0], env)
            t = {(frozenset(c.replace('<=', '<') for c in cs), leaf, ef) for cs, leaf, ef in t}
            out.append((e, t))
    return out


def T(*rows):
    return dtree.Table((frozenset(c), leaf, tuple(ef)) for c, leaf, ef in rows)


FILL = T((['mask_func(v)'], 'value', []), (['!mask_func(v)'], 'v', []))
FFILL = T((['mask_func(v)', 'VALID(last_valid)'], 'last_valid', []),
          (['mask_func(v)', '!VALID(last_valid)', 'VALID(value)'], 'value', []),
          (['mask_func(v)', '!VALID(last_valid)', '!VALID(value)'], 'NULL', []),
          (['!mask_func(v)'], 'v', ['last_valid = Some(v)']))
CLIP_BOTH = T((['VALID(v)', '(v < lower)'], 'lower', []),
              (['VALID(v)', '(lower < v)', '(upper < v)'], 'upper', []),   # `<=` folded to `<` (equal at the bound)
              (['VALID(v)', '(lower < v)', '(v < upper)'], 'v', []),
              (['!VALID(v)'], 'v', []))
CLIP_LO = T((['VALID(v)', '(v < lower)'], 'lower', []), (['VALID(v)', '(lower < v)'], 'v', []), (['!VALID(v)'], 'v', []))
CLIP_HI = T((['VALID(v)', '(upper < v)'], 'upper', []), (['VALID(v)', '(v < upper)'], 'v', []), (['!VALID(v)'], 'v', []))


def check(run):
    run.rule('MAP.table', 'the element closure of fill / ffill / bfill / clip has exactly the '
             'decision table of its definition (which value on which predicate of the element '
             'alone; fill touches only masked elements, clip leaves nulls and in-range values '
             'unchanged, forward fill remembers only unmasked elements)')
    run.rule('MAP.delegate', 'fill / ffill / bfill are the masked forms with the null predicate; '
             'abs / vabs map the element-wise absolute value')
    run.rule('MAP.stateless', 'element-wise adaptors mutate no captured state')
    run.rule('MAP.bfill-order', 'backward fill runs the forward-fill state machine over the '
             'reversed input and materialises it before reversing back')
    run.rule('SEQ.elemfn', 'difference is current - lagged, percentage change is '
             'current / lagged - 1 guarded by both operands being non-null and a non-zero base')
    for cfg in configs(run):
        F = run.facts(cfg)
        lag.check_lag(run, F)
        elem_fns(run, F)
        maps(run, F)
    return run.finish(
        'other',
        'Lag family (shift, vshift, vdiff, vpct_change): for all symbolic len and n the '
        'returned pipeline has length len and output position p is x[p-n] when that exists, '
        'the fill value otherwise (SEQ.pos, by LIA over position functions); the element '
        'functions are current - lagged and current/lagged - 1 under the stated guards. '
        'fill/ffill/bfill/clip closures have exactly the decision table of their definition. '
        'Idempotence/containment of clip follow from the table for lower <= upper; they are '
        'not separately computed.',
        ASSUME, TRUSTED,
        'instances = to_trust sites, return paths, position-function pieces, closure decision '
        'tables')


def elem_fns(run, F):
    fn = F.one('MapValidVec::vdiff')
    n = 0
    for e, t in closure_tables(fn):
        if len(e['params']) == 1 and e['params'][0].get('k') == 'Tuple':
            n += 1
            ok = t == T(([], '(b - a)', []))
            run.ob('SEQ.elemfn', fn, 'difference closure #%d' % n, ok, loc(e),
                   'closure over (lagged a, current b): %s' % dtree.show(t))
    run.floor('SEQ.elemfn', 'vdiff pair closures', n, 2)
    fn = F.one('MapValidVec::vpct_change')
    n = 0
    for e, t in closure_tables(fn):
        if len(e['params']) == 1 and e['params'][0].get('k') == 'Tuple':
            n += 1
            nonnull = [(cs, leaf) for cs, leaf, ef in t if leaf != 'NULL']
            ok = len(nonnull) == 1 and nonnull[0][1] == '((b / a) - 1.)' and \
                {'VALID(a)', 'VALID(b)'} <= set(nonnull[0][0]) and \
                any(c in ('(0. != a)', '(0. != a)', '(a != 0.)') for c in nonnull[0][0])
            run.ob('SEQ.elemfn', fn, 'percentage-change closure #%d' % n, ok, loc(e),
                   'non-null leaf: %s' % [(sorted(c), l) for c, l in nonnull])
    run.floor('SEQ.elemfn', 'vpct_change pair closures', n, 2)


def maps(run, F):
    specs = {'MapValidBasic::fill_mask': [FILL], 'MapValidBasic::ffill_mask': [FFILL],
             'MapValidBasic::bfill_mask': [FFILL],
             'MapValidBasic::vclip': [CLIP_BOTH, CLIP_LO, CLIP_HI]}
    for name, want in specs.items():
        fn = F.one(name)
        got = closure_tables(fn)
        run.ob('MAP.table', fn, 'closure count', len(got) == len(want), fn.loc(),
               '%d element closure(s), expected %d' % (len(got), len(want)))
        for i, ((e, t), w) in enumerate(zip(got, want)):
            run.ob('MAP.table', fn, 'decision table #%d' % (i + 1), t == w, loc(e),
                   'got %s' % dtree.show(t) if t != w else 'matches: %s' % dtree.show(t)[:2])
            if name in ('MapValidBasic::fill_mask', 'MapValidBasic::vclip'):
                caps = {c['local'] for c in e.get('captures', [])}
                muts = [src(x) for x in walk(e['ch'][0]) if x.get('k') in ('Assign', 'AssignOp')
                        and peel(x['ch'][0]).get('local') in caps]
                mb = [c['place'] for c in e.get('captures', []) if 'Mut' in c.get('by', '')]
                run.ob('MAP.stateless', fn, 'closure #%d state' % (i + 1), not muts and not mb,
                       loc(e), 'mutated captures: %s' % (muts + mb or 'none'))
    # delegations
    for name, target, pred in [('MapValidBasic::fill', 'fill_mask', 'IsNone::is_none'),
                               ('MapValidBasic::ffill', 'ffill_mask', 'IsNone::is_none'),
                               ('MapValidBasic::bfill', 'bfill_mask', 'IsNone::is_none')]:
        fn = F.one(name)
        body = peel(fn.hir)
        if body.get('k') == 'Block' and 'expr' in body and not body.get('stmts'):
            body = peel(body['expr'])
        ok = body.get('k') == 'MethodCall' and body['method'] == target and \
            src(peel(body['ch'][0])) == 'self' and src(peel(body['ch'][1])).endswith('is_none') and \
            src(peel(body['ch'][2])) == 'value'
        run.ob('MAP.delegate', fn, '-> %s(is_none, value)' % target, ok, fn.loc(), src(body)[:100])
    for name, m in [('tea_map::MapBasic::abs', 'Number::abs'), ('MapValidBasic::vabs', 'IsNone::vabs')]:
        fn = F.one(name)
        got = closure_tables(fn)
        ok = len(got) == 1 and any(callee_is(x, m) for x in walk(got[0][0])) and \
            got[0][1] == T(([], 'v.%s()' % m.split('::')[1], []))
        run.ob('MAP.delegate', fn, 'element-wise %s' % m, ok, fn.loc(),
               dtree.show(got[0][1]) if got else 'no closure')
    # bfill pipeline: self.rev().map(f).collect…().into_iter().rev()
    fn = F.one('MapValidBasic::bfill_mask')
    tail = peel(fn.hir.get('expr', {}))
    chain = []
    x = tail
    while x.get('k') == 'MethodCall':
        chain.append(x['method'])
        x = peel(x['ch'][0])
    chain.reverse()
    ok = src(x) == 'self' and chain[:2] == ['rev', 'map'] and chain[-1] == 'rev' and \
        any(c.startswith('collect') for c in chain[2:-1])
    run.ob('MAP.bfill-order', fn, 'pipeline', ok, loc(tail), 'self.' + '.'.join(chain))
