"""Shared bits for the per-property modules."""
import os
import acc

TRUSTED = [
    'rustc (nightly) type checker, HIR/MIR construction and name resolution',
    'the driver\'s JSON encoding of typed HIR / MIR (/verif/driver)',
    'semantics of std iterator adaptors, chrono, ndarray and polars calls as tabled in the rules',
    'the polynomial normal form in rules/algebra.py (equal normal forms => equal real functions)',
]
ASSUME = [
    'debug-profile MIR (overflow checks on) is the reference for arithmetic panics',
    'unknown std callees do not panic',
    'floating-point rounding is out of scope: identities are over the reals',
]


def configs(run, extra_quick=()):
    if run.tier == 'thorough':
        return ['base', 'nd', 'full']
    return ['base'] + list(extra_quick)


def add_rules(run, names):
    for n in names:
        run.rule(n, acc.RULES.get(n, ''))


# ---------------------------------------------------------------------------------------------
# Shared dependencies.  A property about the rolling / aggregation / mapping functions holds
# only if the helpers those functions are built on behave: the window drivers, the backend
# accessors, the IsNone implementations, the aggregation helpers a kernel calls.  Each group
# below is a rule set owned by another property; a property lists the groups it depends on and
# runs them on its own configurations, so that a change to a helper is reported by every
# property it breaks and not only by the helper's owner.

def dep_drivers(run, F):
    """window drivers of view.rs: one call per position with the protocol's arguments"""
    import drivers
    drivers.check_drivers(run, F, rules=('DRV.len', 'DRV.early', 'SEQ.len', 'DRV.args', 'DRV.iter', 'DRV.cover'))


def dep_isnone(run, F):
    """the IsNone implementations are coherent (none() is none, not_none = !is_none, ...)"""
    import nullrules as N
    run.rule('NUL.coherent', N.RULES['NUL.coherent'])
    n = N.check_isnone(run, F)
    run.floor('NUL.coherent', 'IsNone impls', n if isinstance(n, int) else 16, 16)
    # ... and the null-last comparators every sort / selection / extreme kernel relies on
    run.rule('CMP.table', N.RULES['CMP.table'])
    nc = N.check_comparators(run, F)
    run.floor('CMP.table', 'comparator bodies', nc, 2)
    # ... and the NaT primitives the IsNone impls of the time types delegate to (is_nat / is_not_nat /
    # nat of DateTime, Time, TimeDelta): the sentinel test itself, not a calendar-validity test
    if F.config == 'base':
        import pinned
        pinned.check(run, F, 'time_prims')


def dep_accessors(run, F):
    """backend accessors pass indices / ranges unchanged to the container's own accessor"""
    import C07
    import backends as B
    for r in ('API.pass', 'API.slice-order', 'API.write'):
        run.rule(r, B.RULES[r])
    run.rule('API.len', 'GetLen::len of a backend is the container\'s own length')
    run.rule('API.iter', 'TIter::titer of a backend iterates the container in logical order')
    if F.config == 'base':
        import pinned
        pinned.check(run, F, 'core_defaults')
    C07.accessors(run, F)
    C07.lens_iters(run, F)
    C07.mut_slices(run, F)
    B.check_writes(run, F, C07.head_of)


def dep_agg_gates(run, F):
    """the one-pass aggregations a rolling kernel calls keep their own minimum counts"""
    import aggrules as A
    for r in ('AGG.gate', 'AGG.sub'):
        if r in A.RULES:
            run.rule(r, A.RULES[r])
    A.check_gates(run, F)


def dep_casts(run, F):
    """Cast instances map null to null (the statistics cast their inputs to f64 and their results
    to the caller's element type)"""
    import nullrules as N
    for r in ('CAST.null', 'CAST.value'):
        if r in N.RULES:
            run.rule(r, N.RULES[r])
    n = N.check_casts(run, F, skip_time=True)
    run.floor('CAST', 'Cast impl instances (time types excluded)', n, 300)


def dep_wrappers(run, F):
    """the entry points users call are the #[no_out] wrappers: `self.<name>_to(params.., None)`"""
    import C07
    run.rule('WRAP.no_out', 'every #[no_out] wrapper is `self.<name>_to(params in order, None).unwrap()`')
    C07.wrappers(run, F, F.config)


def dep_fast_paths(run, F):
    """backend overrides of the drivers are uninit(len) -> *_to -> assume_init or a delegation"""
    import backends as B
    B.check_fast_paths(run, F)


ORD_RULE = ('ordering and equality of the library\'s own element types (DateTime<U>, Time, TimeDelta) are the '
            'derived, field-wise ones over the representation, or a hand-written impl whose decision table is '
            'confirmed in rules/pinned/time_ord.json (TimeDelta: months, then the duration at full resolution): '
            'vclip, vcut, the null-last comparators and every sort compare elements through them')


def _is_derive_site(callsite):
    """the expansion call site `file:l:c-l:c` is a trait name inside a `#[derive(..)]` attribute"""
    import re
    import extract
    m = re.match(r'(.+?):(\d+):(\d+)', callsite or '')
    if not m:
        return False
    try:
        lines = open(os.path.join(extract.REPO, m.group(1))).read().splitlines()
    except OSError:
        return False
    ln = int(m.group(2)) - 1
    for k in range(ln, max(-1, ln - 6), -1):
        if k >= len(lines):
            return False
        if '#[derive(' in lines[k]:
            return True
        if k != ln and ']' in lines[k]:
            return False
    return False


def dep_ord(run, F):
    """PartialEq / PartialOrd / Ord of DateTime, Time, TimeDelta: derived or pinned"""
    import pinned
    run.rule('ORD.elem', ORD_RULE)
    spec = pinned.load('time_ord')
    listed = {e['fn'] for e in spec['functions']}
    n = 0
    for f in F.fns:
        if f.crate != 'tea_time' or not f.impl_trait or f.name not in ('eq', 'ne', 'partial_cmp', 'cmp', 'lt', 'le', 'gt', 'ge', 'max', 'min', 'clamp'):
            continue
        if f.impl_trait.split('<')[0].split('::')[-1] not in ('PartialEq', 'PartialOrd', 'Ord'):
            continue
        if (f.impl_self or '').split('<')[0].split('::')[-1] not in ('DateTime', 'Time', 'TimeDelta'):
            continue
        n += 1
        derived = bool(f.d.get('exp')) and _is_derive_site(f.d.get('callsite'))
        pinned_ = f.qpath in listed
        run.ob('ORD.elem', f, '%s::%s for %s' % (f.impl_trait.split('::')[-1], f.name, f.impl_self), derived or pinned_,
               f.loc(), 'derived over the representation' if derived else
               'hand-written, table confirmed (PIN.table)' if pinned_ else
               'hand-written comparison of an element type that is not in rules/pinned/time_ord.json')
    run.floor('ORD.elem', 'ordering / equality methods of the time element types', n, 8)
    pinned.check(run, F, 'time_ord')


DEPS = {'ord': dep_ord, 'wrappers': dep_wrappers, 'fast_paths': dep_fast_paths, 'casts': dep_casts, 'drivers': dep_drivers, 'isnone': dep_isnone, 'accessors': dep_accessors, 'agg_gates': dep_agg_gates}


def deps(run, F, *groups):
    for g in groups:
        DEPS[g](run, F)


def dep_backends(run):
    """the feature-gated backends (VecDeque, ndarray: config nd; polars: config full) supply
    the accessors every generic algorithm reads its input through"""
    keep = run.config
    for cfg in ('nd', 'full'):
        dep_accessors(run, run.facts(cfg))
    run.config = keep


def dep_alloc(run, polars=True):
    """the allocation / collection primitives of the owned backends (Vec, VecDeque, ndarray: config
    nd; polars: config full): `uninit(len)` has exactly len slots, `uninit_ref_mut` / `assume_init`
    are the same buffer, the collectors take the whole iterator"""
    import pinned
    keep = run.config
    pinned.check(run, run.facts('nd'), 'backend_alloc')
    if polars:
        pinned.check(run, run.facts('full'), 'backend_alloc_polars')
    run.config = keep


def pins(run, F, *sets):
    """confirmed decision tables of primitives / delegations (rules/pinned)"""
    import pinned
    for name in sets:
        pinned.check(run, F, name)
