"""Shared bits for the per-property modules."""
import acc

TRUSTED = [
    'rustc (nightly) type checker, HIR/MIR construction and name resolution',
    'the driver\'s JSON encoding of typed HIR / MIR (/verif/driver)',
    'semantics of std iterator adaptors, chrono, ndarray and polars calls as tabled in the rules',
    'the polynomial normal form in rules/algebra.py (equal normal forms => equal real functions)',
]
ASSUME = [
    'debug-profile MIR (overflow checks on) is the reference for arithmetic panics',
    'unknown std callees do not panic',
    'floating-point rounding is out of scope: identities are over the reals',
]


def configs(run, extra_quick=()):
    if run.tier == 'thorough':
        return ['base', 'nd', 'full']
    return ['base'] + list(extra_quick)


def add_rules(run, names):
    for n in names:
        run.rule(n, acc.RULES.get(n, ''))
