"""C20 Composite analytics terminate within range and respect their defining relations."""
import re

from common import TRUSTED, ASSUME, configs
import panics
import nullrules as N
import dtree
from algebra import Poly, Env, norm, read_block
from facts import walk, walk_with_parents, peel, src, loc, callee_is, callee, strip_generics, _pat_binds

AUDITED = [
    ('half_life', 'assert Overflow(Add)', None),   # filled per site below
]


def check(run):
    run.rule('WIN.clip', 'every winsorize arm returns the f64 view of the input clipped to one '
             'interval (or unclipped when the centre / spread is null)')
    run.rule('WIN.bounds', 'the two bounds are mirror expressions: q and 1-q quantiles; '
             'centre -/+ k*spread with the same centre, k and spread')
    run.rule('CORR.spearman', 'Spearman correlation is the Pearson correlation of the average '
             'ranks (ascending, not pct) of both series')
    run.rule('HL.bracket', 'in the half-life bisection the lower bracket end is assigned only '
             'from itself or the midpoint and the upper end only from itself or the midpoint, '
             'the loop runs while upper - lower > 1 (a strictly decreasing non-negative '
             'variant), and the result is capped at len - 1')
    run.rule('PANIC.entry', panics.RULES['PANIC.entry'])
    import C12
    run.rule('ORD.cmp', 'every comparator handed to sort / select_nth in the order-statistic '
             'kernels is the null-last comparator, the descending one exactly on the reverse arms '
             '(the winsorize bounds are vquantile / vmedian results, Spearman ranks are vrank results)')
    for r in ('ORD.positional', 'QNT.index', 'QNT.interp', 'NULL.first-test', 'RANK.arms'):
        run.rule(r, 'as in C12: structure of vquantile (bounds of the Quantile / Median methods) '
                    'and vrank (Spearman)')
    for cfg in configs(run):
        F = run.facts(cfg)
        if cfg == 'base': __import__('common').pins(run, F, 'agg_delegates')
        # helpers this property stands on (rule sets owned by other properties, see common.deps)
        from common import deps as _deps
        _deps(run, F, 'isnone', 'agg_gates', 'casts')
        # the bounds and the ranks come from the order statistics of C12: their comparator,
        # index and interpolation rules are part of "the documented bounds of the valid data"
        C12.comparators(run, F)
        C12.quantile(run, F)
        C12.rank(run, F)
        winsorize(run, F)
        spearman(run, F)
        half_life(run, F)
    # every container the generic code can be instantiated with hands out its elements in logical order
    from common import dep_backends as _dep_backends
    _dep_backends(run)
    # the floor below which a variance counts as zero
    import casrules as _cr
    _cr.check_eps(run, run.facts('base'))
    return run.finish(
        'other',
        'Winsorize: each of the three arms returns iter_cast::<f64>().vclip(min, max) (or the '
        'unclipped stream when the centre/spread is null), so length, null preservation and '
        'order preservation are those of clip (C13); the bounds are mirror expressions '
        '(polynomial normal form); the quantile / rank kernels behind them obey C12\'s comparator, index and interpolation rules. Spearman = vrank(false,false) of both series fed to '
        'vcorr_pearson. Half-life: bracket discipline of the bisection (termination variant), '
        'cap at len-1, early return 0 for empty input, and no reachable panic besides '
        'discharged sites. That the returned lag is the first crossing for a given series is a '
        'value statement and is not decided.',
        ASSUME, TRUSTED,
        'instances = winsorize arms and bounds, Spearman call structure, half-life assignments '
        'and reachable panic-capable sites')


def _split_args(s):
    """top-level comma split of an argument list string"""
    out, d, cur = [], 0, []
    for ch in s:
        if ch in '([{':
            d += 1
        elif ch in ')]}':
            d -= 1
        if ch == ',' and d == 0:
            out.append(''.join(cur).strip())
            cur = []
        else:
            cur.append(ch)
    out.append(''.join(cur).strip())
    return out


_CLIPPED = re.compile(r'(?:v1::)?Ok\(Box::new\(self\.iter_cast\(\)\.vclip\((.+)\)\)\)$')
_PLAIN = re.compile(r'(?:v1::)?Ok\(Box::new\(self\.iter_cast\(\)\)\)$')


def winsorize(run, F):
    from algebra import parse_poly, defs_of
    fn = F.one('MapValidFinal::winsorize')
    t = N.tbl(fn)
    by = {}
    for cs, l, ef in t:
        meth = [c.split('::')[-1] for c in cs if c.startswith('method is ')]
        by.setdefault(meth[0] if len(meth) == 1 else '?', []).append((cs, l, ef))
    run.ob('WIN.clip', fn, 'three methods', set(by) == {'Quantile', 'Median', 'Sigma'}, fn.loc(),
           'arms %s' % sorted(by))
    sym = lambda x: Poly.atom(('sym', x))
    for name in ('Quantile', 'Median', 'Sigma'):
        rows = by.get(name, [])
        leaves = sorted(l for cs, l, ef in rows)
        clipped = [(cs, _CLIPPED.match(l), ef) for cs, l, ef in rows if _CLIPPED.match(l)]
        plain = [(cs, l, ef) for cs, l, ef in rows if _PLAIN.match(l)]
        ok = len(clipped) == 1 and len(clipped) + len(plain) == len(rows)
        run.ob('WIN.clip', fn, '%s arm returns the clipped f64 view' % name, ok, fn.loc(),
               'leaves %s' % [l[:90] for l in leaves])
        if len(clipped) != 1:
            run.ob('WIN.bounds', fn, '%s bounds' % name, False, fn.loc(), 'no single clipped leaf')
            continue
        cs, m, ef = clipped[0]
        args = _split_args(m.group(1))
        defs = defs_of(ef)
        other = {c for c in cs if not c.startswith('method is ')}
        if len(args) != 2:
            run.ob('WIN.bounds', fn, '%s bounds' % name, False, fn.loc(), 'vclip arguments %s' % args)
            continue
        if name == 'Quantile':
            qa = re.fullmatch(r'self\.vquantile\((.+), QuantileMethod::(\w+)\)\?', args[0])
            qb = re.fullmatch(r'self\.vquantile\((.+), QuantileMethod::(\w+)\)\?', args[1])
            ok = bool(qa and qb) and qa.group(2) == qb.group(2) and \
                parse_poly(qb.group(1), defs) == Poly.const(1) - parse_poly(qa.group(1), defs) and \
                qa.group(1) == 'method_params.unwrap_or(0.01)' and not other and not plain
            run.ob('WIN.bounds', fn, 'Quantile bounds q and 1-q', ok, fn.loc(),
                   'min = %s ; max = %s' % (args[0][:70], args[1][:70]))
            continue
        pa, pb = parse_poly(args[0], defs), parse_poly(args[1], defs)
        # min = c - k*s ; max = c + k*s  <=>  min + max = 2c and max - min = 2ks with one c, k, s
        k_ = sym('method_params.unwrap_or(3.)')
        if name == 'Median':
            centre = sym('self.vmedian()')
            mad_defs = [v for v in defs.values()
                        if v == 'self.map(|a0| (a0 - self.vmedian()).abs()).collect_trusted_to_vec().vmedian()']
            spread_names = [k for k, v in defs.items() if v in mad_defs]
            spread = sym(spread_names[0]) if spread_names else sym('?')
            # parse_poly substitutes definitions: compare against the substituted spread
            spread = parse_poly(spread_names[0], defs) if spread_names else spread
            gate_ok = other == {'VALID(self.vmedian())'} and len(plain) == 1 and \
                {c for c in plain[0][0] if not c.startswith('method is ')} == {'!VALID(self.vmedian())'}
            run.ob('WIN.bounds', fn, 'MAD = median(|x - median|)', bool(mad_defs), fn.loc(),
                   'spread definitions %s' % [v[:80] for v in defs.values()])
        else:
            mv = [k for k, v in defs.items() if v == 'self.titer().vmean_var(2)']
            centre = sym(mv[0] + '.0') if mv else sym('?')
            spread = Poly.atom(('fn', 'sqrt', (sym(mv[0] + '.1').freeze(),))) if mv else sym('?')
            want_g = {'VALID(%s.0)' % mv[0], 'VALID(%s.1)' % mv[0], '(prelude::EPS < %s.1)' % mv[0]} if mv else set()
            # the unclipped rows are the alternatives of `not (mean valid && var valid && var > EPS)`
            gate_ok = bool(mv) and other == want_g and len(plain) >= 1 and \
                all(any(dtree._neg(c_) in cs_ for c_ in want_g) for cs_, l_, e_ in plain)
            run.ob('WIN.bounds', fn, 'sigma = sqrt(sample variance)', bool(mv), fn.loc(),
                   'mean / variance from %s' % [v[:60] for v in defs.values()])
        ok = (pa + pb) == Poly.const(2) * centre and (pb - pa) == Poly.const(2) * k_ * spread
        run.ob('WIN.bounds', fn, '%s bounds centre -/+ k*spread' % name, ok and gate_ok, fn.loc(),
               'min = %s ; max = %s ; clipped under %s' % (pa.show(), pb.show(), sorted(other)))


def spearman(run, F):
    fn = F.one('AggValidFinal::vcorr')
    t = N.tbl(fn)
    mp = 'min_periods.unwrap_or((self.len() / 2))'
    want = N.T((['method is CorrMethod::Pearson'], 'self.titer().vcorr_pearson(other.titer(), %s)' % mp, []),
               (['method is CorrMethod::Spearman'],
                'self.vrank(false, false).vcorr_pearson(other.vrank(false, false), %s)' % mp, []))
    run.ob('CORR.spearman', fn, 'Spearman = Pearson of average ranks', t == want, fn.loc(),
           'table %s' % dtree.show(t))


def half_life(run, F):
    fn = F.one('AggValidFinal::half_life')
    env0 = N.self_env(fn)
    ft = N.tbl(fn)
    # the function returns the upper bracket end `hi`; empty input returns 0 before anything else
    nonempty = [(cs, l, ef) for cs, l, ef in ft if '(0 != self.len())' in cs or '(0 < self.len())' in cs
                or '(1 <= self.len())' in cs]
    empty = [(cs, l, ef) for cs, l, ef in ft if (cs, l, ef) not in nonempty]
    ok_e = len(empty) == 1 and empty[0][1] == '0' and len(nonempty) == 1 and \
        not any('while' in e for e in empty[0][2]) and \
        all(dtree.holds(c, {'self.len()': 0}) for c in empty[0][0])
    run.ob('HL.bracket', fn, 'empty input returns 0', ok_e, fn.loc(),
           'rows %s' % [(sorted(cs), l) for cs, l, ef in empty])
    if len(nonempty) != 1 or not re.fullmatch(r"v\d+'*", nonempty[0][1]):
        run.ob('HL.bracket', fn, 'bisection loop `while n - last_n > 1`', False, fn.loc(),
               'no single non-empty path returning a bracket variable')
        return
    hi = dtree.unprime(nonempty[0][1])
    effs = [dtree.unprime(e_) for e_ in nonempty[0][2]]
    whiles = [x for x in walk(fn.hir) if x.get('k') == 'While']
    bis = []
    for w in whiles:
        en = dtree.env_at(fn.hir, w, env0)
        c = dtree.conj(w['ch'][0], dict(en))
        m = re.fullmatch(r'\(1 < \((\w+) - (\w+)\)\)', c[0]) if len(c) == 1 else None
        if m and m.group(1) == hi:
            bis.append((w, en, m.group(2)))
    ok = len(bis) == 1
    run.ob('HL.bracket', fn, 'bisection loop `while n - last_n > 1`', ok, fn.loc(),
           '%d loop(s) of the form `while hi - lo > 1` on the returned variable' % len(bis))
    if ok:
        W, en, lo = bis[0]
        t = dtree.table(W['ch'][1], en)
        # per path: what is assigned to lo / hi / mid, and the correlation tested
        mids, corrs = set(), set()
        rows = []
        for cs, l, ef in t:
            asg = {}
            cs = frozenset(dtree.unprime(c) for c in cs)
            for e in map(dtree.unprime, ef):
                m = re.match(r'(\w+) (=|:=) (.*)$', e)
                if m and m.group(1) != m.group(3):
                    asg.setdefault(m.group(1), []).append(m.group(3))
            rows.append((cs, asg))
        # midpoint variable: assigned ((hi + lo) / 2) on every path
        sorted_pair = '(%s + %s)' % tuple(sorted((hi, lo)))
        midv = {k for cs, asg in rows for k, v in asg.items() if v == ['(%s / 2)' % sorted_pair]}
        okmid = len(midv) == 1 and all(any(v == ['(%s / 2)' % sorted_pair] for v in asg.values()) for cs, asg in rows)
        mid = list(midv)[0] if len(midv) == 1 else '?'
        run.ob('HL.bracket', fn, 'midpoint', okmid, loc(W), 'midpoint variable %s := (%s / 2)' % (sorted(midv), sorted_pair))
        corrv = {k for cs, asg in rows for k, v in asg.items()
                 if len(v) == 1 and re.fullmatch(r'self\.titer\(\)\.vcorr_pearson\(self\.titer\(\)\.vshift\(%s, NULL\), .+\)' % mid, v[0])}
        okc = len(corrv) == 1
        corr = list(corrv)[0] if okc else '?'
        lows = sorted({v for cs, asg in rows for v in asg.get(lo, [])})
        ups = sorted({v for cs, asg in rows for v in asg.get(hi, [])})
        okb = okc and all(v == mid for v in lows) and all(v == mid for v in ups) and bool(lows) and bool(ups)
        run.ob('HL.bracket', fn, 'bracket ends move only to the midpoint', okb, loc(W),
               'lo <- %s ; hi <- %s ; correlation at the midpoint lag: %s' % (lows, ups, okc))
        # which branch moves which end: decided on corr in {below, at, above 0.5}
        mv = {}
        for region, val in (('below', 0.25), ('at', 0.5), ('above', 0.75)):
            for cs, asg in rows:
                cc = [c for c in cs if re.search(r'\b%s\b' % corr, c)]
                vals = [dtree.holds(c.replace(corr, 'CORR').replace('0.5', '2').replace('CORR', {0.25: '1', 0.5: '2', 0.75: '3'}[val]), {}) for c in cc]
                if vals and all(vals):
                    mv.setdefault(region, []).append(sorted(k for k in asg if k in (lo, hi)))
        okm = mv.get('below') == [[hi]] and mv.get('above') == [[lo]] and mv.get('at') == [[hi]]
        run.ob('HL.bracket', fn, 'below 0.5 lowers the upper end, above raises the lower end', okm,
               loc(W), 'assigned per region: %s (lo=%s hi=%s)' % (mv, lo, hi))
        # cap before the bisection
        cap = '%s = min(%s)' % (hi, ', '.join(sorted(['(self.len() - 1)', hi])))
        loops_at = [i for i, e in enumerate(effs) if e.startswith('while (1 < (%s - %s))' % (hi, lo))]
        okcap = cap in effs and loops_at and effs.index(cap) < loops_at[0]
        run.ob('HL.bracket', fn, 'result capped at len - 1', bool(okcap), fn.loc(), 'cap before the bisection')
    # panics
    G = panics.PanicGraph(F)
    audited = [
        ('half_life', 'assert Overflow(Sub)', None),
    ]
    seen, paths = G.reachable(fn)
    for q, f in sorted(seen.items()):
        for st in G.sites(f):
            reason = None
            line_src = st['sp']
            if f is fn:
                k = st['key']
                if k == 'assert Overflow(Add)':
                    reason = '`i += 1` / `n + last_n`: i <= 63 because the doubling loop leaves once 2^i >= len <= isize::MAX; n, last_n <= len'
                elif k == 'assert Overflow(Sub)':
                    # two sites: self.len() - 1 (len >= 1 after the early return) and n - last_n
                    reason = ('`self.len() - 1` after the len == 0 return; `n - last_n` with last_n <= n '
                              'maintained by the bracket discipline (HL.bracket)')
                elif k.startswith('assert Overflow(Mul)') or 'pow' in k:
                    reason = '2usize.pow(i): i <= 63 (see above)'
                elif k == 'assert DivisionByZero' or k == 'assert Overflow(Div)':
                    reason = 'division by the literal 2'
            key = '%s in %s' % (st['key'], f.name if f.kind != 'Closure' else q.split('::')[-2] + '::{closure}')
            if f is not fn:
                # callee sites: vshift / vcorr_pearson are covered by C09 / C11 obligations
                if f.name == 'titer' and f.file.endswith('backends_impl/polars.rs') and 'Datetime' in (f.impl_self or ''):
                    reason = ('TIter for a polars datetime column yields DateTime items; half_life requires '
                              'T::Inner: Number, so this impl is not an instantiation reachable from it '
                              '(class-hierarchy over-approximation of the call graph)')
                elif f.name in ('vshift', 'vcorr_pearson') or 'vshift' in q or 'vcorr_pearson' in q:
                    reason = 'inside %s: covered by that function\'s own obligations (SEQ.underflow / AGG.sub)' % f.name
            run.ob('PANIC.entry', fn, key + ' @' + st['where'].split(':')[-1], reason is not None,
                   st['where'], ('discharged: ' + reason) if reason else
                   'reachable via %s' % ' -> '.join(paths[q]))
