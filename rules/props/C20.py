"""C20 Composite analytics terminate within range and respect their defining relations."""
import re

from common import TRUSTED, ASSUME, configs
import panics
import nullrules as N
import dtree
from algebra import Poly, Env, norm, read_block
from facts import walk, walk_with_parents, peel, src, loc, callee_is, callee, strip_generics, _pat_binds

AUDITED = [
    ('half_life', 'assert Overflow(Add)', None),   # filled per site below
]


def check(run):
    run.rule('WIN.clip', 'every winsorize arm returns the f64 view of the input clipped to one '
             'interval (or unclipped when the centre / spread is null)')
    run.rule('WIN.bounds', 'the two bounds are mirror expressions: q and 1-q quantiles; '
             'centre -/+ k*spread with the same centre, k and spread')
    run.rule('CORR.spearman', 'Spearman correlation is the Pearson correlation of the average '
             'ranks (ascending, not pct) of both series')
    run.rule('HL.bracket', 'in the half-life bisection the lower bracket end is assigned only '
             'from itself or the midpoint and the upper end only from itself or the midpoint, '
             'the loop runs while upper - lower > 1 (a strictly decreasing non-negative '
             'variant), and the result is capped at len - 1')
    run.rule('PANIC.entry', panics.RULES['PANIC.entry'])
    for cfg in configs(run):
        F = run.facts(cfg)
        winsorize(run, F)
        spearman(run, F)
        half_life(run, F)
    return run.finish(
        'other',
        'Winsorize: each of the three arms returns iter_cast::<f64>().vclip(min, max) (or the '
        'unclipped stream when the centre/spread is null), so length, null preservation and '
        'order preservation are those of clip (C13); the bounds are mirror expressions '
        '(polynomial normal form). Spearman = vrank(false,false) of both series fed to '
        'vcorr_pearson. Half-life: bracket discipline of the bisection (termination variant), '
        'cap at len-1, early return 0 for empty input, and no reachable panic besides '
        'discharged sites. That the returned lag is the first crossing for a given series is a '
        'value statement and is not decided.',
        ASSUME, TRUSTED,
        'instances = winsorize arms and bounds, Spearman call structure, half-life assignments '
        'and reachable panic-capable sites')


def winsorize(run, F):
    fn = F.one('MapValidFinal::winsorize')
    m = [x for x in walk(fn.hir) if x.get('k') == 'Match' and src(peel(x['ch'][0])) == 'method']
    if len(m) != 1:
        run.ob('WIN.clip', fn, 'dispatch on method', False, fn.loc(), '%d match(es)' % len(m))
        return
    arms = {dtree.pat_src(a['pat']).split('::')[-1]: a['body'] for a in m[0]['arms']}
    run.ob('WIN.clip', fn, 'three methods', set(arms) == {'Quantile', 'Median', 'Sigma'}, fn.loc(),
           'arms %s' % sorted(arms))
    for name, body in arms.items():
        t = dtree.table(body, N.self_env(fn))
        leaves = {l for cs, l, ef in t}
        ok = all(re.fullmatch(r'(v1::)?Ok\(Box::new\(self\.iter_cast\(\)(\.vclip\(.+, .+\))?\)\)', l) or
                 l.endswith('?') for l in leaves)
        clipped = [l for l in leaves if '.vclip(' in l]
        run.ob('WIN.clip', fn, '%s arm returns the clipped f64 view' % name, ok and len(clipped) >= 1,
               loc(body), 'leaves %s' % sorted(leaves))
        # bounds
        env = Env()
        mn = mx = None
        for x in walk(body):
            if x.get('k') == 'Block':
                e2 = Env()
                read_block(x, e2)
                for s in x.get('stmts', []):
                    if s['k'] == 'Let' and s['pat'].get('k') == 'Binding' and 'init' in s:
                        if s['pat']['name'] == 'min':
                            e3 = Env()
                            read_block({'stmts': x['stmts'][:x['stmts'].index(s)]}, e3)
                            mn = (peel(s['init']), e3)
                        if s['pat']['name'] == 'max':
                            e3 = Env()
                            read_block({'stmts': x['stmts'][:x['stmts'].index(s)]}, e3)
                            mx = (peel(s['init']), e3)
        if not mn or not mx:
            run.ob('WIN.bounds', fn, '%s bounds' % name, False, loc(body), 'min / max bindings not found')
            continue
        if name == 'Quantile':
            a, b = peel(try_inner(mn[0])), peel(try_inner(mx[0]))
            ok = a.get('method') == 'vquantile' and b.get('method') == 'vquantile' and \
                src(peel(a['ch'][0])) == 'self' and src(peel(b['ch'][0])) == 'self'
            qa = norm(a['ch'][1], mn[1]) if ok else None
            qb = norm(b['ch'][1], mx[1]) if ok else None
            ok = ok and qb == Poly.const(1) - qa and src(peel(a['ch'][2])) == src(peel(b['ch'][2]))
            run.ob('WIN.bounds', fn, 'Quantile bounds q and 1-q', ok, loc(body),
                   'min = %s ; max = %s' % (src(mn[0])[:60], src(mx[0])[:60]))
        else:
            pa, pb = norm(mn[0], Env()), norm(mx[0], Env())
            # min = c - k*s ; max = c + k*s  <=>  min + max = 2c and max - min = 2ks with one c, k, s
            s_ = pa + pb
            d_ = pb - pa
            centre = 'median' if name == 'Median' else 'mean'
            spread = 'mad' if name == 'Median' else 'std'
            sym = lambda x: Poly.atom(('sym', x))
            ok = s_ == Poly.const(2) * sym(centre) and \
                d_ == Poly.const(2) * sym('method_params') * sym(spread)
            run.ob('WIN.bounds', fn, '%s bounds centre -/+ k*spread' % name, ok, loc(body),
                   'min = %s ; max = %s' % (pa.show(), pb.show()))
    # MAD definition
    body = arms.get('Median')
    if body:
        s = src(body)
        ok = 'self.map(|v| (v.cast() - median).abs()).collect_trusted_to_vec().vmedian()' in s and \
            'let median = self.vmedian()' in s
        run.ob('WIN.bounds', fn, 'MAD = median(|x - median|)', ok, loc(body), s[:200])
    body = arms.get('Sigma')
    if body:
        s = src(body)
        ok = 'self.titer().vmean_var(2)' in s and 'let std = var.sqrt()' in s
        run.ob('WIN.bounds', fn, 'sigma = sqrt(sample variance)', ok, loc(body), s[:160])


def try_inner(e):
    from facts import try_operand
    t = try_operand(peel(e))
    return t if t is not None else e


def spearman(run, F):
    fn = F.one('AggValidFinal::vcorr')
    m = [x for x in walk(fn.hir) if x.get('k') == 'Match' and src(peel(x['ch'][0])) == 'method']
    ok = len(m) == 1
    det = ''
    if ok:
        arms = {dtree.pat_src(a['pat']).split('::')[-1]: src(a['body']) for a in m[0]['arms']}
        det = str(arms)
        ok = arms.get('Pearson') == 'self.titer().vcorr_pearson(other.titer(), min_periods)' and \
            arms.get('Spearman') == ('let v1_rank = self.vrank(false, false); let v2_rank = '
                                     'other.vrank(false, false); v1_rank.vcorr_pearson(v2_rank, min_periods)')
    run.ob('CORR.spearman', fn, 'Spearman = Pearson of average ranks', ok, fn.loc(), det[:300])


def half_life(run, F):
    fn = F.one('AggValidFinal::half_life')
    whiles = [x for x in walk(fn.hir) if x.get('k') == 'While']
    bis = [w for w in whiles if src(peel(w['ch'][0])) == '((n - last_n) > 1)']
    ok = len(bis) == 1
    run.ob('HL.bracket', fn, 'bisection loop `while n - last_n > 1`', ok, fn.loc(),
           '%d loop(s) with that condition' % len(bis))
    if ok:
        W = bis[0]
        asg = [x for x in walk(W['ch'][1]) if x.get('k') == 'Assign']
        lows = [src(peel(a['ch'][1])) for a in asg if src(peel(a['ch'][0])) == 'last_n']
        ups = [src(peel(a['ch'][1])) for a in asg if src(peel(a['ch'][0])) == 'n']
        okb = all(v in ('last_n', 'life') for v in lows) and all(v in ('n', 'life') for v in ups) and \
            bool(lows) and bool(ups)
        run.ob('HL.bracket', fn, 'bracket ends move only to the midpoint', okb, loc(W),
               'last_n <- %s ; n <- %s' % (lows, ups))
        mids = [src(peel(a['ch'][1])) for a in asg if src(peel(a['ch'][0])) == 'life']
        run.ob('HL.bracket', fn, 'midpoint', mids == ['((n + last_n) / 2)'] or mids == ['((last_n + n) / 2)'],
               loc(W), 'life <- %s' % mids)
        # which branch moves which end
        t = dtree.table(W['ch'][1], {})
        # the rows partition on the sign of corr - 0.5: select the row each region falls in
        mv = {}
        for region, val in (('below', 0.25), ('at', 0.5), ('above', 0.75)):
            for cs, l, ef in t:
                cc = [c for c in cs if 'corr' in c]
                try:
                    hit = all(eval(c, {'__builtins__': {}}, {'corr': val}) for c in cc)
                except Exception:
                    hit = False
                if hit:
                    mv.setdefault(region, []).append(
                        sorted(e for e in ef if e.startswith(('n =', 'last_n =')) and
                               e not in ('n = n', 'last_n = last_n')))
        okm = mv.get('below') == [['n = life']] and mv.get('above') == [['last_n = life']] and \
            mv.get('at') == [['n = life']]
        run.ob('HL.bracket', fn, 'below 0.5 lowers the upper end, above raises the lower end', okm,
               loc(W), str(mv))
    s = src(fn.hir)
    run.ob('HL.bracket', fn, 'result capped at len - 1', 'n = n.min((self.len() - 1))' in s and
           s.index('n = n.min((self.len() - 1))') < s.index('while ((n - last_n) > 1)'), fn.loc(),
           'cap before the bisection')
    run.ob('HL.bracket', fn, 'empty input returns 0', 'if (len == 0) { return 0; }' in s, fn.loc(), s[:120])
    # panics
    G = panics.PanicGraph(F)
    audited = [
        ('half_life', 'assert Overflow(Sub)', None),
    ]
    seen, paths = G.reachable(fn)
    for q, f in sorted(seen.items()):
        for st in G.sites(f):
            reason = None
            line_src = st['sp']
            if f is fn:
                k = st['key']
                if k == 'assert Overflow(Add)':
                    reason = '`i += 1` / `n + last_n`: i <= 63 because the doubling loop leaves once 2^i >= len <= isize::MAX; n, last_n <= len'
                elif k == 'assert Overflow(Sub)':
                    # two sites: self.len() - 1 (len >= 1 after the early return) and n - last_n
                    reason = ('`self.len() - 1` after the len == 0 return; `n - last_n` with last_n <= n '
                              'maintained by the bracket discipline (HL.bracket)')
                elif k.startswith('assert Overflow(Mul)') or 'pow' in k:
                    reason = '2usize.pow(i): i <= 63 (see above)'
                elif k == 'assert DivisionByZero' or k == 'assert Overflow(Div)':
                    reason = 'division by the literal 2'
            key = '%s in %s' % (st['key'], f.name if f.kind != 'Closure' else q.split('::')[-2] + '::{closure}')
            if f is not fn:
                # callee sites: vshift / vcorr_pearson are covered by C09 / C11 obligations
                if f.name in ('vshift', 'vcorr_pearson') or 'vshift' in q or 'vcorr_pearson' in q:
                    reason = 'inside %s: covered by that function\'s own obligations (SEQ.underflow / AGG.sub)' % f.name
            run.ob('PANIC.entry', fn, key + ' @' + st['where'].split(':')[-1], reason is not None,
                   st['where'], ('discharged: ' + reason) if reason else
                   'reachable via %s' % ' -> '.join(paths[q]))
