"""C11 Aggregations equal their textbook definitions over the non-null elements."""
from common import TRUSTED, ASSUME, configs
import aggrules as A
import nullrules as N

FILES = ('tea-core/src/agg.rs', 'tea-agg/src/lib.rs', 'tea-core/src/vec_core/iter_traits.rs')
AUDITED_UNWRAP = {
    ('vcount_value', 'x'): 'x is the parameter of the vfold callback (only non-null elements)',
    ('vcount_value', 'value'): 'dominated by `value.not_none()`',
}


def check(run):
    for r, t in A.RULES.items():
        run.rule(r, t)
    for r in ('NULL.unwrap', 'NULL.fold', 'NULL.only-trait'):
        run.rule(r, N.RULES[r])
    for cfg in configs(run):
        F = run.facts(cfg)
        if cfg == 'base': __import__('common').pins(run, F, 'number_prims', 'agg_plain')
        # helpers this property stands on (rule sets owned by other properties, see common.deps)
        from common import deps as _deps
        _deps(run, F, 'isnone', 'casts')
        n = A.check_gates(run, F)
        run.floor('AGG.gate', 'gated aggregations', n, 9)
        ns = A.check_sub(run, F)
        run.floor('AGG.sub', '`n - j` sites', ns, 6)
        A.check_first(run, F)
        A.check_find(run, F)
        A.check_folds(run, F)
        A.check_tables(run, F)
        A.check_formulas(run, F)
        nu = N.check_unwrap(run, F, FILES, AUDITED_UNWRAP)
        run.floor('NULL.unwrap', 'IsNone::unwrap sites in the aggregation files', nu, 15)
        N.check_only_trait(run, F, FILES)
    if True:    # the algebraic comparison takes a few seconds: part of the quick tier too
        import casrules
        run.rule('CAS.form', casrules.RULE)
        run.rule('CAS.floor', 'the degenerate (variance at the floor) branch of skewness / kurtosis yields 0 and the bias adjustment leaves it 0: the adjustment either maps 0 to 0 or its guard excludes 0')
        n = casrules.check_aggs(run, run.facts('base'))
        run.floor('CAS.form', 'skewness / kurtosis closed forms', n, 2)
    # every container the generic code can be instantiated with hands out its elements in logical order
    from common import dep_backends as _dep_backends
    _dep_backends(run)
    # the floor below which a variance counts as zero
    import casrules as _cr
    _cr.check_eps(run, run.facts('base'))
    return run.finish(
        'other',
        'Structure of the aggregation definitions: the fold helpers skip exactly the nulls and '
        'count inside the guard; every IsNone::unwrap is dominated by a null test; non-null '
        'results require the statistic\'s minimum valid count (1/2/3/4) and min_periods (LIA '
        'over the path conditions); arg-extrema update only on a strict comparison (first '
        'wins); vfirst/vlast are find(not_none) from either end; counting/masking decision '
        'tables; mean / sample variance / sample covariance / Pearson r closed forms equal the '
        'textbook formulas over the same power sums (polynomial normal form). Skewness and '
        'kurtosis closed forms are compared by computer algebra. Permutation invariance '
        'and rounding are value statements and are not decided.',
        ASSUME, TRUSTED,
        'instances = aggregation functions x (gate, table, formula) + unwrap sites')
