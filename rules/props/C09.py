"""C09 Trusted-length iterators yield exactly as many items as they announce."""
from common import TRUSTED, ASSUME, configs
import tl
import lag
import seqrules
import drivers
import seq as S
from lia import L
from facts import src, loc, walk, callee_is, peel


SEQ_FNS = [  # (fn suffix, contract length builder, what)
    ('MapValidVec::vpartition', 'kth+1'), ('MapValidVec::varg_partition', 'kth+1'),
]


def check(run):
    for r, t in tl.RULES.items():
        run.rule(r, t)
    for r, t in seqrules.RULES.items():
        run.rule(r, t)
    for cfg in configs(run, extra_quick=('nd',)):
        F = run.facts(cfg)
        if cfg == 'base': __import__('common').pins(run, F, 'core_defaults')
        n = tl.check_impls(run, F)
        run.floor('TL.impl', 'unsafe impl TrustedLen (config %s)' % cfg, n,
                  {'base': 24, 'nd': 29, 'full': 33}.get(cfg, 24))
        ns = tl.check_structs(run, F)
        run.floor('TL.struct', 'hand-written trusted iterators', ns, 2)
        nc, raw = tl.check_consumers(run, F)
        run.floor('TL.consumer', 'trusted consumers', nc, 2)
        tl.check_write_trust_iter(run, F)
        # declaration sites
        sites = 0
        if cfg != 'nd':
            lag.check_lag(run, F, rules=('SEQ.len', 'SEQ.ret-len', 'SEQ.underflow'))
            for name, contract in SEQ_FNS:
                fn = F.one(name)
                ev = seqrules.run_eval(fn)
                sites += seqrules.check_len_sites(run, fn, ev)
                seqrules.check_underflow(run, fn, ev)
                ksym = seqrules.param_sym(fn, 'kth')
                seqrules.check_ret_len(run, fn, ev, lambda W, k=ksym: {k: 1, 1: 1}, 'k + 1')
            for name in ('rolling_custom_iter',):
                drivers.check_iter_form(run, F, name, rules=())
            sites += other_sites(run, F)
            run.floor('SEQ.len', 'declaration sites outside the lag family', sites, 8)
    return run.finish(
        'other',
        'Every `unsafe impl TrustedLen` is for a type in the audited exact-size table; the two '
        'hand-written iterators report (k, Some(k)) and decrement k once per item; the trusted '
        'consumers read the upper hint first, allocate exactly that and write one slot per '
        'item; at every to_trust / TrustIter::new site the pipeline length equals the declared '
        'length for all symbolic len / n / k (LIA over the sequence algebra), including '
        '|n| >= len, k >= len and empty input. User pipelines ending in a user-chosen '
        'to_trust(len) are outside the library.',
        ASSUME, TRUSTED + ['Fourier-Motzkin LIA in rules/lia.py'],
        'instances = TrustedLen impls, iterator state machines, consumers, declaration sites, '
        'return paths')


def other_sites(run, F):
    """collect_with_len / Vec1::full / polars trust_my_length and the remaining to_trust users."""
    n = 0
    # Vec1Collect::collect_with_len: iter.to_trust(len) with the caller's len -> the callers
    for fn in F.fns:
        if fn.kind == 'Closure' or fn.hir is None:
            continue
        for x in walk(fn.hir):
            if x.get('k') in ('MethodCall', 'Call') and (
                    callee_is(x, 'Vec1::collect_with_len', 'Vec1Collect::collect_vec1_with_len') or
                    x.get('method') in ('collect_with_len', 'collect_vec1_with_len')):
                n += 1
                # caller supplies the length: it must be the iterator's own length
                a = [peel(c) for c in (x['ch'][1:] if x['k'] == 'Call' else x['ch'])]
                it, ln = src(a[0]), src(a[-1])
                ok = fn.name in ('collect_with_len', 'collect_vec1_with_len') or \
                    ln in ('len', '%s.len()' % it) or 'repeat_n' in it and it.endswith(', %s)' % ln)
                run.ob('SEQ.len', fn, 'collect_with_len(%s, %s)' % (it[:50], ln), ok, loc(x),
                       'explicit length forwarded to to_trust')
    return n
