"""C18 Parsers are total and round-trip with their formatters."""
from common import TRUSTED, ASSUME, configs
import panics
import dtree
import nullrules as N
from facts import walk, peel, src, loc, strip_generics, callee_is, _pat_binds

AUDITED = [
    ('TimeDelta::parse', 'index str',
     '`duration[start..i]`: both indices come from char_indices() of the same string (char '
     'boundaries) and start <= i because start is only ever set to an index already visited'),
    ('From<chrono::NaiveDate>', 'Option::unwrap',
     'and_hms_opt(0, 0, 0) has constant valid arguments'),
    ('Time::parse', 'assert Overflow(Mul)',
     'num_seconds_from_midnight() <= 86_399 so the product is below 8.64e13'),
    ('Time::parse', 'assert Overflow(Add)',
     'nanosecond() <= 1_999_999_999 added to a value below 8.64e13'),
]
UNITS = {'ns': ('NANOS', None), 'us': ('NANOS', 'NANOS_PER_MICRO'), 'ms': ('NANOS', 'NANOS_PER_MILLI'),
         's': ('SECS', None), 'm': ('SECS', 'SECS_PER_MINUTE'), 'h': ('SECS', 'SECS_PER_HOUR'),
         'd': ('SECS', 'SECS_PER_DAY'), 'w': ('SECS', 'SECS_PER_WEEK'), 'mo': ('MONTHS', None),
         'y': ('MONTHS', '12')}


def check(run):
    run.rule('PANIC.entry', panics.RULES['PANIC.entry'])
    run.rule('TBL.parse-units', 'the duration parser has exactly the unit arms ns us ms s m h d w '
             'mo y, each adding n times the unit\'s factor to the right accumulator')
    run.rule('TBL.format', 'the default format used to print a date-time is one the parser tries')
    for cfg in configs(run):
        F = run.facts(cfg)
        if cfg == 'base': __import__('common').pins(run, F, 'time_prims')
        G = panics.PanicGraph(F)
        entries = []
        for suffix in ('TimeDelta::parse', 'DateTime::<U>::parse', 'time::Time::parse'):
            entries += [f for f in F.fns if f.crate == 'tea_time' and f.qpath.endswith(suffix)]
        for f in F.fns:
            if f.crate == 'tea_time' and f.name == 'from_str' and f.kind == 'AssocFn':
                entries.append(f)
        run.floor('PANIC.entry', 'parser entry points', len(entries), 6)
        tot = 0
        for e in entries:
            n, nf = panics.check_entry(run, G, e, AUDITED)
            tot += nf
            run.ob('PANIC.entry', e, 'entry %s analysed' % e.qpath.split('::', 1)[1][-60:], nf >= 1,
                   e.loc(), '%d reachable workspace function(s), %d panic-capable site(s), all '
                   'discharged or reported' % (nf, n), trivial=True)
        unit_table(run, F)
        fmt_table(run, F)
        # printing goes through as_cr, parsing through From<chrono>: the pair denotes one instant
        import timerules as T
        run.rule('TBL.cr', T.RULES['TBL.cr'])
        T.check_cr_table(run, F)
        run.rule('PARSE.order', T.RULES['PARSE.order'])
        T.check_parse_order(run, F)
    return run.finish(
        'other',
        'Totality: from the six parser entry points (parse and FromStr for TimeDelta, DateTime, '
        'Time) the MIR call graph over workspace functions is closed and every panic-capable '
        'construct in it (overflow/bounds/division asserts, unwrap/expect, panic!, str/slice '
        'indexing, chrono functions documented to panic) is enumerated; each remaining site is '
        'discharged by a recorded reason. The duration unit table and the print/parse format '
        'agreement are checked as tables. That every well-formed string parses to the sum of '
        'its terms is a statement about the scanner\'s state machine over characters and is '
        'not decided.',
        ASSUME + ['std callees not in the panic table are total (str::parse, char_indices, '
                  'checked_* , try_from, saturating_*)'],
        TRUSTED + ['chrono: parse_from_str, TimeDelta::try_seconds / nanoseconds / checked_add, '
                   'timestamp*, from_naive_utc_and_offset are total (read from chrono 0.4.45)'],
        'instances = (entry point, reachable panic-capable site) pairs, unit arms, format literal')


def _acc_roles(fn):
    """The three accumulators of the parser by what consumes them after the scan: the one
    converted to i32 is the month total, the one whose converted value reaches
    Duration::try_seconds the second total, the one whose converted value is the argument of
    Duration::nanoseconds the nanosecond total (followed through helper lets)."""
    lets = [st for blk in walk(fn.hir) if blk.get('k') == 'Block' for st in blk.get('stmts', [])
            if st['k'] == 'Let' and 'init' in st]
    # accumulators: `let mut x: i128 = 0` that some try_from consumes
    srcs = {}     # derived local -> set of accumulator locals it comes from
    accs = {}
    for st in lets:
        for x in walk(st['init']):
            if x.get('k') == 'Call' and callee_is(x, 'TryFrom::try_from') and len(x['ch']) == 2:
                a_ = peel(x['ch'][1])
                if a_.get('k') == 'Path' and a_.get('res') == 'local':
                    accs.setdefault(a_['local'], {'i32': False})
                    tgt = ' '.join(x.get('targs') or []) + ' ' + src(x['ch'][0])
                    if 'i32' in tgt:
                        accs[a_['local']]['i32'] = True
    changed = True
    for a_ in accs:
        srcs[a_] = {a_}
    while changed:
        changed = False
        for st in lets:
            reads = {y['local'] for y in walk(st['init']) if y.get('k') == 'Path' and y.get('res') == 'local'}
            from_ = set()
            for r in reads:
                from_ |= srcs.get(r, set())
            for b_ in _pat_binds(st['pat']):
                if from_ - srcs.get(b_['local'], set()):
                    srcs[b_['local']] = srcs.get(b_['local'], set()) | from_
                    changed = True
    roles = {}
    for a_, info in accs.items():
        if info['i32']:
            roles[a_] = 'MONTHS'
    for x in walk(fn.hir):
        # Duration::nanoseconds(arg)
        if x.get('k') == 'Call' and src(x['ch'][0]).endswith('nanoseconds') and len(x['ch']) == 2:
            reads = {y['local'] for y in walk(x['ch'][1]) if y.get('k') == 'Path' and y.get('res') == 'local'}
            from_ = set().union(*[srcs.get(r, set()) for r in reads]) if reads else set()
            if len(from_) == 1:
                roles[list(from_)[0]] = 'NANOS'
        # Duration::try_seconds as a call or as the function handed to and_then / map
        is_ts = (x.get('k') == 'Path' and strip_generics(x.get('def', '')).endswith('try_seconds'))
        if is_ts:
            # the enclosing let: everything it reads comes from the second total
            for st in lets:
                if any(y is x for y in walk(st['init'])):
                    reads = {y['local'] for y in walk(st['init']) if y.get('k') == 'Path' and y.get('res') == 'local'}
                    from_ = set().union(*[srcs.get(r, set()) for r in reads]) if reads else set()
                    if len(from_) == 1:
                        roles[list(from_)[0]] = 'SECS'
    return roles


def unit_table(run, F):
    from facts import _pat_binds as pb
    fn = F.one('timedelta::TimeDelta::parse')
    roles = _acc_roles(fn)
    ok_roles = sorted(roles.values()) == ['MONTHS', 'NANOS', 'SECS']
    run.ob('TBL.parse-units', fn, 'accumulators', ok_roles, fn.loc(),
           'month / second / nanosecond totals identified by their consumers: %s' % sorted(roles.values()))
    m = [x for x in walk(fn.hir) if x.get('k') == 'Match' and
         any(dtree.pat_src(a['pat']).startswith('str:') for a in x['arms'])]
    if len(m) != 1:
        run.ob('TBL.parse-units', fn, 'unit dispatch', False, fn.loc(), '%d match(es) on the unit' % len(m))
        return
    env = dict(roles)
    seen = {}
    for a in m[0]['arms']:
        p = dtree.pat_src(a['pat'])
        if not p.startswith('str:'):
            continue
        u = p[4:]
        body = peel(a['body'])
        en = dict(env)
        # the parsed count is the only other local read in the arm
        for x in walk(body):
            if x.get('k') == 'Path' and x.get('res') == 'local' and x['local'] not in roles:
                en[x['local']] = 'n'
        s = dtree.canon(body, en)
        if s.endswith(';'):
            s = s[:-1]
        seen[u] = s
        want = UNITS.get(u)
        ok = False
        if want:
            acc, k = want
            if k is None:
                forms = ['%s = %s.saturating_add(n)' % (acc, acc), '%s AddAssign n' % acc]
            else:
                kk = k if k.isdigit() else 'convert::%s' % k
                forms = ['%s = %s.saturating_add(n.saturating_mul(%s))' % (acc, acc, kk),
                         '%s AddAssign (%s * n)' % (acc, kk), '%s AddAssign (n * %s)' % (acc, kk)]
            ok = s in forms
        run.ob('TBL.parse-units', fn, 'unit "%s"' % u, ok, loc(a['body']), '`%s`' % s)
    run.ob('TBL.parse-units', fn, 'unit set', set(seen) == set(UNITS), fn.loc(),
           'arms %s' % sorted(seen))


def fmt_table(run, F):
    fn = [f for f in F.fns if f.crate == 'tea_time' and f.qpath.endswith('DateTime::<U>::strftime')][0]
    lits = [x['v'][4:] for x in walk(fn.hir) if x.get('k') == 'Lit' and x['v'].startswith('str:%')]
    rules = []
    for k in F.consts:
        if k['path'].endswith('TIME_RULE_VEC'):
            rules = [x['v'][4:] for x in walk(k['hir']) if x.get('k') == 'Lit' and x['v'].startswith('str:')]
    ok = len(lits) == 1 and lits[0] in rules
    run.ob('TBL.format', fn, 'default strftime format is a parser rule', ok, fn.loc(),
           'default format %s; parser tries %d formats' % (lits, len(rules)))
