"""C15 Null and cast algebra is coherent across all element types."""
from common import TRUSTED, ASSUME, configs
import nullrules as N


def check(run):
    for r, t in N.RULES.items():
        if r.startswith(('NUL.', 'CMP.', 'CAST.')):
            run.rule(r, t)
    for cfg in configs(run):
        F = run.facts(cfg)
        if cfg == 'base': __import__('common').pins(run, F, 'time_prims', 'number_prims')
        n = N.check_isnone(run, F)
        run.floor('NUL.coherent', 'IsNone impls', n, 16)
        N.check_defaults(run, F)
        nc = N.check_comparators(run, F)
        run.floor('CMP.table', 'comparator bodies', nc, 2)
        ncast = N.check_casts(run, F)
        run.floor('CAST', 'Cast impl instances (macro expansions included)', ncast, 480)
        # casts between date-time units delegate to DateTime::into_unit, casts to optional
        # integers to into_opt_i64: their NaT handling (owned by C16) is part of the cast algebra
        import timerules as T
        for r in ('NAT.guard', 'TBL.unit'):
            run.rule(r, T.RULES[r])
        T.check_unit_table(run, F)
        T.check_conversions(run, F)
    return run.finish(
        'other',
        'Per IsNone impl (16): is_none is one predicate, not_none its negation, to_opt/as_opt '
        'test it, none() is a value it recognises (or the type is never null and none() '
        'panics), from_inner/unwrap identity (Option re-tests). Provided methods have their '
        'defining bodies (vabs = map(abs) so it preserves nullness). Comparator decision '
        'tables: values by partial_cmp (reversed for descending), None and incomparable NaN '
        'last in both. Every Cast instance (about 500 after macro expansion) whose source and '
        'target can represent null maps null to null; numeric casts are `self as U`. Agreement '
        'of `as` with the language is definitional; text nulls ("None") are outside the claim.',
        ASSUME, TRUSTED,
        'instances = IsNone impl methods, comparator tables, Cast impl instances')
