"""Evaluation of the DateTime<U> <-> chrono conversion expressions on a grid of instants.

The conversions are closed integer expressions over the tick count (or over chrono's
second / sub-second accessors).  The rule TBL.cr accepts chrono's own constructor / accessor for
the unit on the unchanged tick count; any other expression is evaluated here, by the rules of
i64 arithmetic (truncating `/` and `%`, Euclidean `div_euclid` / `rem_euclid`, checked
operations returning None on overflow), on a grid that contains pre-epoch instants that are
not whole seconds and both limits of the unit's range, and must denote the same instant.
Nothing of tevec is executed: the expressions are read from the typed HIR."""
from facts import peel, strip_generics, callee

I64MIN, I64MAX = -2 ** 63, 2 ** 63 - 1
NAT = I64MIN
SCALE = {'Second': 10 ** 9, 'Millisecond': 10 ** 6, 'Microsecond': 10 ** 3, 'Nanosecond': 1}


class Unk(Exception):
    pass


class Overflow(Exception):
    pass


def _chk(v):
    if not (I64MIN <= v <= I64MAX):
        raise Overflow()
    return v


def _tdiv(a, b):
    if b == 0:
        raise Overflow()
    q = abs(a) // abs(b)
    return q if (a < 0) == (b < 0) else -q


def _last(path):
    return strip_generics(path or '').split('::')[-1]


def bind_let(st, en, F):
    """bind the names of one `let` statement (a name or a tuple pattern) in en"""
    if st['k'] == 'Let' and st['pat'].get('k') == 'Binding' and 'init' in st:
        en[st['pat']['local']] = ev(st['init'], en, F)
    elif st['k'] == 'Let' and st['pat'].get('k') == 'Tuple' and 'init' in st:
        v_ = ev(st['init'], en, F)
        if not (isinstance(v_, tuple) and v_ and v_[0] == 'TUP' and len(v_) - 1 == len(st['pat']['ch'])):
            raise Unk('tuple pattern')
        for q_, x_ in zip(st['pat']['ch'], v_[1:]):
            if q_.get('k') == 'Binding':
                en[q_['local']] = x_
            elif q_.get('k') != 'Wild':
                raise Unk('tuple pattern')
    else:
        raise Unk('statement')


def ev(e, env, F):
    """value of an expression: int | ('Some', v) | ('None',) | ('CR', secs, nanos) | ('DT', ticks)"""
    raw = e
    e = peel(e)
    k = e.get('k')
    if k == 'Lit':
        v = e['v']
        try:
            return int(str(v).split('_')[0].rstrip('iu8163264sze'))
        except ValueError:
            raise Unk('literal %s' % v)
    if k == 'Path':
        if e.get('res') == 'local':
            if e['local'] in env:
                return env[e['local']]
            raise Unk('local %s' % e.get('name'))
        d = e.get('def', '')
        v = F.const_value('::'.join(strip_generics(d).split('::')[-2:]))
        if v is None:
            v = F.const_value(_last(d))
        if v is None:
            raise Unk('path %s' % d)
        return v
    if k == 'Field':
        b = ev(e['ch'][0], env, F)
        if isinstance(b, tuple) and b[0] == 'DT' and e.get('field') == '0':
            return b[1]
        if isinstance(b, tuple) and b and b[0] == 'TUP' and str(e.get('field', '')).isdigit() and \
                int(e['field']) < len(b) - 1:
            return b[1 + int(e['field'])]
        raise Unk('field')
    if k == 'Cast':
        return ev(e['ch'][0], env, F)
    if k == 'Unary' and e.get('op') == 'Neg':
        return _chk(-ev(e['ch'][0], env, F))
    if k == 'Binary' and e.get('op') in ('And', 'Or'):
        a = ev(e['ch'][0], env, F)
        if not isinstance(a, bool):
            raise Unk('boolean operator')
        if (e['op'] == 'And') != a:
            return a
        b = ev(e['ch'][1], env, F)
        if not isinstance(b, bool):
            raise Unk('boolean operator')
        return b
    if k == 'Binary':
        a, b = ev(e['ch'][0], env, F), ev(e['ch'][1], env, F)
        if not isinstance(a, int) or not isinstance(b, int):
            raise Unk('binary on non-integers')
        op = e.get('op')
        if op in ('Lt', 'Le', 'Gt', 'Ge', 'Eq', 'Ne'):
            return {'Lt': a < b, 'Le': a <= b, 'Gt': a > b, 'Ge': a >= b, 'Eq': a == b, 'Ne': a != b}[op]
        if op == 'Add':
            return _chk(a + b)
        if op == 'Sub':
            return _chk(a - b)
        if op == 'Mul':
            return _chk(a * b)
        if op == 'Div':
            return _chk(_tdiv(a, b))
        if op == 'Rem':
            return a - b * _tdiv(a, b)
        raise Unk('operator %s' % op)
    if k == 'Block':
        en = dict(env)
        for st in e.get('stmts', []):
            bind_let(st, en, F)
        if 'expr' not in e:
            raise Unk('block without value')
        return ev(e['expr'], en, F)
    if k == 'Tup' and e.get('ch'):
        return ('TUP',) + tuple(ev(x, env, F) for x in e['ch'])
    if k == 'Closure':
        return ('FN', e, env)
    if k == 'If':
        c = peel(e['ch'][0])
        if c.get('k') == 'LetExpr':
            en = _match(c['pat'], ev(c['ch'][0], env, F), env)
            if en is not None:
                return ev(e['ch'][1], en, F)
            if len(e['ch']) < 3:
                raise Unk('if-let without else')
            return ev(e['ch'][2], env, F)
        b = ev(c, env, F)
        if not isinstance(b, bool):
            raise Unk('condition')
        if b:
            return ev(e['ch'][1], env, F)
        if len(e['ch']) < 3:
            raise Unk('if without else')
        return ev(e['ch'][2], env, F)
    if k == 'Match':
        v = ev(e['ch'][0], env, F)
        for arm in e.get('arms', []):
            if arm.get('guard'):
                raise Unk('match guard')
            en = _match(arm['pat'], v, env)
            if en is not None:
                return ev(arm['body'] if 'body' in arm else arm['e'], en, F)
        raise Unk('no arm matches')
    if k == 'Unary' and e.get('op') == 'Not':
        b = ev(e['ch'][0], env, F)
        if isinstance(b, bool):
            return not b
        raise Unk('not')
    if k == 'Ret':
        raise Unk('return')
    if k == 'Call':
        name = _last(e.get('callee'))
        args = [ev(a, env, F) for a in e['ch'][1:]]
        return _call(name, args, F)
    if k == 'MethodCall':
        m = e['method']
        recv = ev(e['ch'][0], env, F)
        args = [ev(a, env, F) if peel(a).get('k') != 'Path' or peel(a).get('res') == 'local'
                or peel(a).get('res') not in ('AssocFn', 'Fn', 'Ctor(Struct, Fn)')
                else ('FNPATH', _last(peel(a).get('def'))) for a in e['ch'][1:]]
        return _method(m, recv, args, F)
    if raw is not e:
        return ev(e, env, F)
    raise Unk('expression kind %s' % k)


def _match(pat, v, env):
    """bindings of a successful match of value v against pattern pat, or None"""
    k = pat.get('k')
    if k == 'Wild':
        return dict(env)
    if k == 'Binding':
        en = dict(env)
        en[pat['local']] = v
        return en
    name = _last(pat.get('def') or '')
    if k == 'TupleStruct' and name == 'Some':
        if isinstance(v, tuple) and v[0] == 'Some':
            return _match(pat['ch'][0], v[1], env)
        if isinstance(v, tuple) and v[0] == 'None':
            return None
        raise Unk('Some pattern on a non-option')
    if k in ('Path', 'Struct', 'TupleStruct') and name == 'None':
        if isinstance(v, tuple) and v[0] in ('Some', 'None'):
            return dict(env) if v[0] == 'None' else None
        raise Unk('None pattern on a non-option')
    if k == 'Lit':
        raise Unk('literal pattern')
    raise Unk('pattern %s' % k)


def _apply(f, x, F):
    if f[0] == 'FNPATH':
        return _call(f[1], [x], F)
    if f[0] == 'FN':
        cl, env = f[1], dict(f[2])
        ps = cl.get('params', [])
        if len(ps) != 1 or ps[0].get('k') != 'Binding':
            raise Unk('closure parameters')
        env[ps[0]['local']] = x
        return ev(cl['ch'][0], env, F)
    raise Unk('callable')


def _apply0(f, F):
    if f[0] == 'FNPATH':
        return _call(f[1], [], F)
    if f[0] == 'FN':
        return ev(f[1]['ch'][0], dict(f[2]), F)
    raise Unk('callable')


def _call(name, args, F):
    if name == 'new' and len(args) == 1 and isinstance(args[0], int):
        return ('DT', args[0])
    if name == 'nat' and not args:
        return ('DT', NAT)
    if name in ('Some',) and len(args) == 1:
        return ('Some', args[0])
    if name in ('from', 'into') and len(args) == 1:
        return args[0]
    raise Unk('call %s' % name)


def _method(m, r, a, F):
    if isinstance(r, tuple) and r[0] == 'CR':
        s, ns = r[1], r[2]
        tot = s * 10 ** 9 + ns
        if m == 'timestamp':
            return s
        if m == 'timestamp_millis':
            return tot // 10 ** 6
        if m == 'timestamp_micros':
            return tot // 10 ** 3
        if m == 'timestamp_nanos_opt':
            return ('Some', tot) if I64MIN <= tot <= I64MAX else ('None',)
        if m == 'timestamp_subsec_nanos':
            return ns
        if m == 'timestamp_subsec_micros':
            return ns // 10 ** 3
        if m == 'timestamp_subsec_millis':
            return ns // 10 ** 6
        raise Unk('chrono method %s' % m)
    if isinstance(r, int):
        if m in ('div_euclid', 'rem_euclid') and isinstance(a[0], int):
            if a[0] == 0:
                raise Overflow()
            q = r // a[0] if a[0] > 0 else -(r // -a[0])
            rem = r - q * a[0]
            if rem < 0:
                q, rem = (q - 1, rem + a[0]) if a[0] > 0 else (q + 1, rem - a[0])
            return _chk(q) if m == 'div_euclid' else rem
        if m in ('checked_mul', 'checked_add', 'checked_sub', 'checked_div') and isinstance(a[0], int):
            try:
                v = {'checked_mul': lambda: r * a[0], 'checked_add': lambda: r + a[0],
                     'checked_sub': lambda: r - a[0], 'checked_div': lambda: _tdiv(r, a[0])}[m]()
                return ('Some', _chk(v))
            except Overflow:
                return ('None',)
        if m in ('wrapping_mul', 'wrapping_add', 'wrapping_sub') and isinstance(a[0], int):
            v = {'wrapping_mul': r * a[0], 'wrapping_add': r + a[0], 'wrapping_sub': r - a[0]}[m]
            return (v + 2 ** 63) % 2 ** 64 - 2 ** 63
        if m in ('into', 'clone', 'i64'):
            return r
        if m == 'abs':
            return _chk(abs(r))
        raise Unk('integer method %s' % m)
    if isinstance(r, tuple) and r[0] in ('Some', 'None'):
        if m == 'map':
            return ('Some', _apply(a[0], r[1], F)) if r[0] == 'Some' else r
        if m == 'and_then':
            return _apply(a[0], r[1], F) if r[0] == 'Some' else r
        if m == 'unwrap_or_else':
            return r[1] if r[0] == 'Some' else _apply0(a[0], F)
        if m == 'unwrap_or':
            return r[1] if r[0] == 'Some' else a[0]
        if m == 'map_or':
            return _apply(a[1], r[1], F) if r[0] == 'Some' else a[0]
        if m == 'map_or_else':
            return _apply(a[1], r[1], F) if r[0] == 'Some' else _apply0(a[0], F)
        if m == 'filter':
            return r
        raise Unk('option method %s' % m)
    if isinstance(r, tuple) and r[0] == 'DT':
        if m in ('into', 'clone'):
            return r
        if m in ('is_nat', 'is_none'):
            return r[1] == NAT
        if m in ('is_not_nat', 'not_none'):
            return r[1] != NAT
    if isinstance(r, tuple) and r[0] in ('Some', 'None') and m in ('is_some', 'is_none'):
        return (r[0] == 'Some') == (m == 'is_some')
    raise Unk('method %s' % m)


def ticks(v):
    """a conversion result as a tick count"""
    if isinstance(v, int):
        return v
    if isinstance(v, tuple) and v[0] == 'DT':
        return v[1]
    raise Unk('result is not a date-time')


# instants (floor second, sub-second nanoseconds)
CR_GRID = [(0, 0), (1, 500_000_000), (-1, 999_999_999), (-2, 1), (-2, 1_000), (-2, 1_000_000),
           (1_700_000_000, 123_456_789), (-777_600_000, 250_000_000),
           (-9_223_372_037, 145_224_193), (-9_223_372_037, 999_999_999), (-9_223_372_036, 0),
           (9_223_372_036, 854_775_807), (9_223_372_036, 854_775_808), (-9_223_372_037, 0),
           (9_223_372_037, 0)]


def expected_from_cr(unit, s, ns):
    tot = s * 10 ** 9 + ns
    t = tot // SCALE[unit]
    if unit == 'Nanosecond' and not (I64MIN < tot <= I64MAX):
        return NAT
    return t


# tick counts for the DateTime -> chrono direction (per unit, all representable by chrono)
def tick_grid(unit, dense=False):
    per_sec = 10 ** 9 // SCALE[unit]
    if dense:
        # thorough tier: every residue class near 0, +-1 s, +-1 day and a far pre-epoch second,
        # plus a few hundred spread over four centuries
        g = set()
        for base in (0, per_sec, -per_sec, 86400 * per_sec, -86400 * per_sec, -777_600 * per_sec,
                     -9_000_000_000 * per_sec, 8_000_000_000 * per_sec):
            for d in list(range(-12, 13)) + [per_sec // 2, -(per_sec // 2), per_sec - 1, 1 - per_sec]:
                g.add(base + d)
        for k in range(-200, 201):
            g.add(k * 31_557_600 * per_sec + (k * 7919) % max(per_sec, 1))
        if unit == 'Nanosecond':
            g = {x for x in g if I64MIN < x <= I64MAX}
        return sorted(g)
    g = [0, 1, -1, per_sec, -per_sec, per_sec + 1, -per_sec - 1, -per_sec + 1, 3 * per_sec // 2,
         -3 * per_sec // 2, -777_600 * per_sec, -777_600 * per_sec + 1, 1_700_000_000 * per_sec + 7]
    return sorted(set(g))
