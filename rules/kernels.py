"""Rolling kernels: discovery of the ts_* entry points and their driver closures,
ACC (window-state pairing) and GATE (min_periods gate) rules.
"""
from fractions import Fraction

from facts import (walk, children, callee_is, callee, args, is_local, peel, src, loc,
                   _pat_binds, strip_generics)
from algebra import Poly, Env, norm, read_block, bind_pat

DRIVERS = ('rolling_apply', 'rolling2_apply', 'rolling_apply_idx', 'rolling2_apply_idx',
           'rolling_custom', 'rolling2_custom')


class Kernel:
    def __init__(self, fn, call, driver):
        self.fn = fn
        self.call = call
        self.driver = driver
        a = args(call)
        self.two = driver.startswith('rolling2')
        self.idx = driver.endswith('_idx')
        self.custom = 'custom' in driver
        # receiver, [other], window, closure, out
        self.recv = a[0]
        self.other = a[1] if self.two else None
        self.window_arg = a[2] if self.two else a[1]
        self.closure = peel(a[3] if self.two else a[2])
        self.out_arg = a[4] if self.two else a[3]
        self.pre = fn.hir.get('stmts', []) if fn.hir.get('k') == 'Block' else []

    @property
    def name(self):
        return self.fn.name


def find_kernels(F, files=('tea-rolling/src/', 'tevec/src/rolling.rs')):
    """Every function in the rolling sources whose body calls a window driver with a
    closure literal."""
    out = []
    for fn in F.fns:
        if fn.kind == 'Closure' or not any(x in fn.file for x in files):
            continue
        if '/dynamic/' in fn.file:
            continue
        for e in walk(fn.hir):
            if e.get('k') == 'MethodCall' and e.get('method') in DRIVERS and \
                    callee_is(e, *('Vec1View::' + d for d in DRIVERS)):
                k = Kernel(fn, e, e['method'])
                if k.closure.get('k') == 'Closure':
                    out.append(k)
    return out


# ------------------------------------------------------------------ ACC

class Update:
    def __init__(self, node, target, op, rhs, seq, guards):
        self.node, self.target, self.op, self.rhs, self.seq, self.guards = \
            node, target, op, rhs, seq, guards
        self.block = None     # 'add' | 'remove'
        self.poly = None

    def __repr__(self):
        return '<%s %s %s @%d %s>' % (self.target['name'], self.op, src(self.rhs), self.seq,
                                      sorted(self.guards))


def _tail(e):
    """value expression of a block (through nested value blocks)"""
    e = peel(e)
    while e.get('k') == 'Block' and 'expr' in e:
        if e.get('stmts'):
            return e
        e = peel(e['expr'])
    return e


def _diverges(e):
    """the branch ends in `return` (it yields no value and control does not continue)"""
    e = peel(e)
    if e.get('k') == 'Ret':
        return True
    if e.get('k') == 'Block':
        if 'expr' in e:
            return _diverges(e['expr'])
        st = e.get('stmts', [])
        return bool(st) and st[-1]['k'] in ('Semi', 'Expr') and _diverges(st[-1]['e'])
    return False


def _not_none_pred(x):
    """`IsNone::not_none` as a path or as `|v| v.not_none()`"""
    x = peel(x)
    if x.get('k') == 'Path' and strip_generics(x.get('def', '')).endswith('::not_none'):
        return True
    if x.get('k') == 'Closure' and len(x.get('params', [])) == 1 and x['params'][0].get('k') == 'Binding':
        b = _tail(x['ch'][0])
        return b.get('k') == 'MethodCall' and callee_is(b, 'IsNone::not_none') and len(b['ch']) == 1 and \
            peel(b['ch'][0]).get('local') == x['params'][0]['local']
    return False


def _filtered(e):
    """`o.filter(not_none)` -> o (else None)"""
    e = peel(e)
    if e.get('k') == 'MethodCall' and e.get('method') == 'filter' and callee_is(e, 'Option::filter') and \
            len(e['ch']) == 2 and _not_none_pred(e['ch'][1]):
        return peel(e['ch'][0])
    return None


class KernelModel:
    """Structural model of one driver closure."""

    def __init__(self, k):
        self.k = k
        cl = k.closure
        self.cl = cl
        self.body = cl['ch'][0]
        self.captured = {c['local'] for c in cl.get('captures', [])}
        self.tags = {}          # local id -> tag string (NEW0, NEW1, OLD0, OLD1, OLDOPT, OLDIDX, END)
        self.converted = set()  # tagged locals bound through a value conversion (cast / f64)
        self.problems = []
        params = cl['params']
        if k.idx:
            self._tag_pat(params[0], ['OLDIDXOPT'])
            self._tag_pat(params[1], ['END'])
            self._tag_new(params[2])
        elif not k.custom:
            self._tag_pat(params[0], ['OLDOPT'])
            self._tag_new(params[1])
        self.seq = {}
        self._number(self.body)
        self._propagate_tags()
        self.env = Env()
        for lid, t in self.tags.items():
            if t in ('NEW0', 'NEW1', 'OLD0', 'OLD1', 'END', 'OLDIDX'):
                self.env.name(lid, t)
        self.updates = []
        self.exits = []          # (node, guards, seq) of every early exit of the closure
        self._collect(self.body, frozenset(), self.env)

    # -- tagging ---------------------------------------------------------
    def _tag_pat(self, pat, tags):
        bs = _pat_binds(pat)
        for b, t in zip(bs, tags):
            self.tags[b['local']] = t

    def _tag_new(self, pat):
        if pat.get('k') == 'Tuple':
            self._tag_pat(pat, ['NEW0', 'NEW1'])
        elif self.k.two:
            self._tag_pat(pat, ['NEWPAIR'])      # the pair bound whole: `.0` / `.1` or a later `let (a, b) =`
        else:
            self._tag_pat(pat, ['NEW0'])

    def _number(self, e):
        n = [0]
        for x in walk(e):
            n[0] += 1
            if 'id' in x:
                self.seq[x['id']] = n[0]
            x['_seq'] = n[0]

    def tag_of(self, e, strict=False):
        """Tag of the element an expression denotes, through coercions.  `strict`: only through
        coercions that keep the null (a null test applied to `v.cast()` / `v.f64()` does not test v:
        NaN as i64 = 0)."""
        e = peel(e)
        keep = ('IsNone::to_opt', 'Clone::clone', 'IsNone::as_opt') if strict else \
            ('IsNone::unwrap', 'Number::f64', 'IsNone::to_opt', 'Clone::clone', 'Option::unwrap', 'Cast::cast',
             'IsNone::as_opt')
        while True:
            if e.get('k') == 'MethodCall' and len(e['ch']) == 1 and \
                    callee_is(e, *keep):
                e = peel(e['ch'][0])
                continue
            if e.get('k') == 'Block' and e.get('unsafe') and not e.get('stmts') and 'expr' in e:
                e = peel(e['expr'])
                continue
            if e.get('k') == 'Call' and e.get('callee_res', '').startswith('Ctor') and \
                    strip_generics(e.get('callee', '')).endswith('Some') and len(e['ch']) == 2:
                e = peel(e['ch'][1])
                continue
            break
        if e.get('k') == 'Path' and e.get('res') == 'local':
            if strict and e['local'] in self.converted:
                return None         # bound from `v.cast()` / `v.f64()`: testing it does not test v
            return self.tags.get(e['local'])
        if e.get('k') == 'Field' and e.get('field') in ('0', '1'):
            b = peel(e['ch'][0])
            bt = self.tags.get(b.get('local')) if b.get('k') == 'Path' and b.get('res') == 'local' else None
            if bt in ('NEWPAIR', 'OLDPAIR'):
                return bt[:3] + e['field']
        if e.get('k') == 'MethodCall' and callee_is(e, 'Vec1View::uget'):
            recv, idx = peel(e['ch'][0]), peel(e['ch'][1])
            which = '0' if is_local(recv, 'self') else '1'
            it = self.idx_tag(idx)
            if it == 'OLDIDX':
                return 'OLD' + which
            if it == 'END':
                return 'NEW' + which
        return None

    def idx_tag(self, e):
        e = peel(e)
        if e.get('k') == 'Path' and e.get('res') == 'local':
            return self.tags.get(e['local'])
        if e.get('k') == 'MethodCall' and callee_is(e, 'Option::unwrap') and \
                self.idx_tag(e['ch'][0]) == 'OLDIDXOPT':
            return 'OLDIDX'
        return None

    def _propagate_tags(self):
        """Tags flow through `let x = <coercions of tagged>`, `if let Some(x) = v_rm`,
        tuple lets and unsafe blocks."""
        changed = True
        it = 0
        while changed and it < 6:
            changed = False
            it += 1
            for e in walk(self.body):
                pairs = []
                if e.get('k') == 'Block':
                    for s in e.get('stmts', []):
                        if s['k'] == 'Let' and 'init' in s:
                            pairs.append((s['pat'], s['init']))
                if e.get('k') == 'LetExpr':
                    pairs.append((e['pat'], e['ch'][0]))
                for pat, init in pairs:
                    changed |= self._flow(pat, init)

    def _flow(self, pat, init):
        init = peel(init)
        if init.get('k') == 'Block' and not init.get('stmts') and 'expr' in init:
            init = peel(init['expr'])
        ch = False
        k = pat.get('k')
        if init.get('k') == 'If' and len(init['ch']) == 3 and (_diverges(init['ch'][1]) != _diverges(init['ch'][2])):
            # `let v = if let Some(x) = old { x.f64() } else { return r };`: the value is the
            # surviving branch's
            keep = init['ch'][2] if _diverges(init['ch'][1]) else init['ch'][1]
            return self._flow(pat, _tail(keep))
        if k == 'TupleStruct' and strip_generics(pat.get('def', '')).endswith('Some'):
            if _filtered(init) is not None:
                init = _filtered(init)
            t = self.tag_of(init) if init.get('k') != 'Path' else self.tags.get(init.get('local'))
            inner = pat['ch'][0]
            if t == 'OLDOPT':
                if inner.get('k') == 'Tuple':
                    for p, tg in zip(inner['ch'], ['OLD0', 'OLD1']):
                        if p.get('k') == 'Binding' and self.tags.get(p['local']) != tg:
                            self.tags[p['local']] = tg
                            ch = True
                elif inner.get('k') == 'Binding':
                    tg = 'OLDPAIR' if self.k.two else 'OLD0'
                    if self.tags.get(inner['local']) != tg:
                        self.tags[inner['local']] = tg
                        ch = True
            elif t == 'OLDIDXOPT':
                if inner.get('k') == 'Binding' and self.tags.get(inner['local']) != 'OLDIDX':
                    self.tags[inner['local']] = 'OLDIDX'
                    ch = True
            return ch
        if k == 'Binding':
            t = self.idx_tag(init)
            if t not in ('OLDIDX', 'END'):
                t = self.tag_of(init) or t
            if t is None and init.get('k') == 'Path' and \
                    self.tags.get(init.get('local')) in ('NEWPAIR', 'OLDPAIR'):
                t = self.tags[init['local']]
            if t and self.tags.get(pat['local']) != t and t not in ('OLDOPT', 'OLDIDXOPT'):
                self.tags[pat['local']] = t
                ch = True
            if t in ('NEW0', 'NEW1', 'OLD0', 'OLD1') and self.tag_of(init, strict=True) is None and \
                    pat['local'] not in self.converted:
                self.converted.add(pat['local'])
                ch = True
            return ch
        if k == 'Tuple' and init.get('k') == 'Tup' and len(init['ch']) == len(pat['ch']):
            for p, x in zip(pat['ch'], init['ch']):
                ch |= self._flow(p, x)
        if k == 'Tuple' and init.get('k') == 'Path' and len(pat['ch']) == 2 and \
                self.tags.get(init.get('local')) in ('NEWPAIR', 'OLDPAIR'):
            base = self.tags[init['local']][:3]
            for i, p in enumerate(pat['ch']):
                if p.get('k') == 'Binding' and self.tags.get(p['local']) != base + str(i):
                    self.tags[p['local']] = base + str(i)
                    ch = True
        return ch

    # -- guards ----------------------------------------------------------
    def preds(self, cond, positive=True):
        """Normalise a condition to a set of predicate strings."""
        cond = peel(cond)
        k = cond.get('k')
        out = set()
        if k == 'Binary' and cond['op'] in ('And', 'BitAnd') and positive:
            return self.preds(cond['ch'][0]) | self.preds(cond['ch'][1])
        if k == 'Unary' and cond['op'] == 'Not':
            return self.preds(cond['ch'][0], not positive)
        p = None
        if k == 'MethodCall' and len(cond['ch']) == 1:
            t = self.tag_of(cond['ch'][0], strict=True)
            if callee_is(cond, 'IsNone::not_none', 'Option::is_some'):
                if t in ('NEW0', 'NEW1', 'OLD0', 'OLD1'):
                    p = ('VALID(%s)' % t, True)
                elif self.idx_tag(cond['ch'][0]) == 'OLDIDXOPT' or \
                        self.tags.get(peel(cond['ch'][0]).get('local')) == 'OLDOPT':
                    p = ('SOME(OLD)', True)
            elif callee_is(cond, 'IsNone::is_none', 'Option::is_none'):
                if t in ('NEW0', 'NEW1', 'OLD0', 'OLD1'):
                    p = ('VALID(%s)' % t, False)
        elif k == 'LetExpr':
            pat = cond['pat']
            init = peel(cond['ch'][0])
            if pat.get('k') == 'TupleStruct' and strip_generics(pat.get('def', '')).endswith('Some'):
                fb = _filtered(init)
                if fb is not None and fb.get('k') == 'Path' and self.tags.get(fb.get('local')) == 'OLDOPT' and positive:
                    # `if let Some(v) = old.filter(IsNone::not_none)`: an element leaves and it is valid
                    return {'SOME(OLD)', 'VALID(OLD1)' if False else 'VALID(OLD0)'}
                it = self.tags.get(init.get('local')) if init.get('k') == 'Path' else None
                if it in ('OLDOPT', 'OLDIDXOPT'):
                    p = ('SOME(OLD)', True)
                else:
                    t = self.tag_of(init)
                    if t:
                        p = ('VALID(%s)' % t, True)
        elif k == 'Binary' and cond['op'] in ('Ge', 'Le', 'Gt', 'Lt'):
            # `end >= window - 1` (also written `window - 1 <= end`, `end > window - 2` is not
            # accepted) is the driver's own condition for `start.is_some()`
            a_, b_, op_ = cond['ch'][0], cond['ch'][1], cond['op']
            if op_ == 'Le':
                a_, b_, op_ = b_, a_, 'Ge'
            if op_ == 'Ge' and self.idx_tag(a_) == 'END' and self._is_window_minus_one(peel(b_)):
                p = ('SOME(OLD)', True)
            elif cond['op'] == 'Lt' and self.idx_tag(cond['ch'][0]) == 'END' and \
                    self._is_window_minus_one(peel(cond['ch'][1])):
                p = ('SOME(OLD)', False)         # `end < window - 1`: the window is still filling
            elif cond['op'] == 'Gt' and self.idx_tag(cond['ch'][1]) == 'END' and \
                    self._is_window_minus_one(peel(cond['ch'][0])):
                p = ('SOME(OLD)', False)
        if p is None:
            s = src(cond)
            return {s if positive else 'NOT(%s)' % s}
        name, pol = p
        if pol == positive:
            return {name}
        return {'NOT(%s)' % name}

    def _is_window_minus_one(self, e):
        e = peel(e)
        if e.get('k') == 'Binary' and e['op'] == 'Sub':
            a, b = peel(e['ch'][0]), peel(e['ch'][1])
            return is_local(a, 'window') and b.get('k') == 'Lit' and b['v'] == '1'
        if e.get('k') == 'Path' and e.get('res') == 'local':
            for s in self.k.pre:
                if s['k'] == 'Let' and s['pat'].get('local') == e['local'] and 'init' in s:
                    return self._is_window_minus_one(s['init'])
        return False

    def _survivor_guards(self, x):
        """what holds after `if c { return .. }` / `let v = if c { .. } else { return .. };`: the
        condition of the branch that does not leave"""
        x = peel(x)
        if x.get('k') != 'If':
            return frozenset()
        c = x['ch']
        d1 = _diverges(c[1])
        d2 = len(c) > 2 and _diverges(c[2])
        if d1 and not d2:
            return frozenset(self.preds(c[0], False))
        if d2 and not d1:
            return frozenset(self.preds(c[0]))
        return frozenset()

    # -- updates ---------------------------------------------------------
    def _collect(self, e, guards, env):
        """Walk the closure body in program order, tracking guards and let-bindings,
        and record every assignment to a captured variable."""
        k = e.get('k')
        if k == 'Block':
            env = Env(env)
            self._name_tags(env)
            for s in e.get('stmts', []):
                if s['k'] == 'Let':
                    if 'init' in s:
                        self._collect(s['init'], guards, env)
                        bind_pat(s['pat'], s['init'], env)
                        self._name_tags(env)
                        guards = guards | self._survivor_guards(s['init'])
                elif s['k'] in ('Semi', 'Expr'):
                    self._collect(s['e'], guards, env)
                    guards = guards | self._survivor_guards(s['e'])
                    x = s['e']
                    # keep closure-local mutable bindings current
                    if x.get('k') in ('AssignOp', 'Assign') and x['ch'][0].get('res') == 'local' \
                            and x['ch'][0]['local'] in env.vals:
                        read_block({'stmts': [s]}, env)
            if 'expr' in e:
                self._collect(e['expr'], guards, env)
            return
        if k == 'If':
            c = e['ch']
            self._collect(c[0], guards, env)
            self._collect(c[1], guards | frozenset(self.preds(c[0])), env)
            if len(c) > 2:
                self._collect(c[2], guards | frozenset(self.preds(c[0], False)), env)
            return
        if k in ('Assign', 'AssignOp'):
            tgt = peel(e['ch'][0])
            if tgt.get('res') == 'local' and tgt['local'] in self.captured:
                u = Update(e, tgt, e.get('op', 'Assign'), e['ch'][1], e['_seq'], guards)
                u.env = env
                self.updates.append(u)
            self._collect(e['ch'][1], guards, env)
            return
        if k == 'Match':
            self._collect(e['ch'][0], guards, env)
            for a in e['arms']:
                g = guards | frozenset({'ARM(%s: %s)' % (src(e['ch'][0]), _pat(a['pat']))})
                if 'guard' in a:
                    g = g | frozenset(self.preds(a['guard']))
                self._collect(a['body'], g, env)
            return
        if k in ('For', 'While'):
            g = guards | frozenset({'LOOP(%s)' % src(e['ch'][0])})
            self._collect(e['ch'][0], guards, env)
            self._collect(e['ch'][1], g, env)
            return
        if k == 'Closure':
            self._collect(e['ch'][0], guards | frozenset({'CLOSURE'}), env)
            return
        if k == 'Ret' or (k == 'Match' and 'TryDesugar' in e.get('src', '')):
            if 'CLOSURE' not in guards:
                self.exits.append((e, guards, e.get('_seq', 0)))
        for c in children(e):
            self._collect(c, guards, env)

    def _name_tags(self, env):
        for lid, t in self.tags.items():
            if t in ('NEW0', 'NEW1', 'OLD0', 'OLD1', 'END', 'OLDIDX'):
                # a tagged local denotes the element itself, whatever coercions its
                # initialiser applied
                env.vals.pop(lid, None)
                env.name(lid, t)
            elif t in ('NEWPAIR', 'OLDPAIR'):
                env.vals.pop(lid, None)
                env.name((lid, '0'), t[:3] + '0')
                env.name((lid, '1'), t[:3] + '1')

    # -- classification ---------------------------------------------------
    def classify(self):
        """Split updates into add/remove and compute the signed delta of each update in normal
        form.  `x += e`, `x = x + e` (and the `-` forms) are the same update; an assignment whose
        right-hand side does not mention the target stays an `Assign` (cached-value class)."""
        if getattr(self, '_classified', False):
            return self.updates
        self._classified = True
        for u in self.updates:
            rhs = norm(u.rhs, u.env)
            tgt = Poly.atom(('sym', u.target['name']))
            op = u.op
            delta = None
            if op == 'AddAssign':
                delta = rhs
            elif op == 'SubAssign':
                delta = -rhs
            elif op == 'Assign':
                d = rhs - tgt
                if rhs.mentions(lambda a: a == ('sym', u.target['name'])) and \
                        not d.mentions(lambda a: a == ('sym', u.target['name'])):
                    delta = d
                else:
                    # `x = x + e` / `x = e + x` / `x = x - e` where e itself reads x (the
                    # exponential class): the same update as `x += e` / `x -= e`
                    r = peel(u.rhs)
                    def is_t(y):
                        y = peel(y)
                        return y.get('k') == 'Path' and y.get('res') == 'local' and \
                            y.get('local') == u.target['local']
                    if r.get('k') == 'Binary' and r.get('op') == 'Add' and is_t(r['ch'][0]):
                        delta = norm(r['ch'][1], u.env)
                    elif r.get('k') == 'Binary' and r.get('op') == 'Add' and is_t(r['ch'][1]):
                        delta = norm(r['ch'][0], u.env)
                    elif r.get('k') == 'Binary' and r.get('op') == 'Sub' and is_t(r['ch'][0]):
                        delta = -norm(r['ch'][1], u.env)
            is_rm = any(g == 'SOME(OLD)' or g.startswith('VALID(OLD') for g in u.guards)
            probe = delta if delta is not None else rhs
            mentions_old = probe.mentions(lambda a: isinstance(a, tuple) and len(a) == 2 and
                                          a[0] == 'sym' and str(a[1]).startswith('OLD'))
            u.block = 'remove' if (is_rm or mentions_old) else 'add'
            if delta is not None:
                # canonical orientation: an add-block update is `+= poly`, a remove-block
                # update is `-= poly`
                if u.block == 'add':
                    u.op, u.poly = 'AddAssign', delta
                else:
                    u.op, u.poly = 'SubAssign', -delta
            else:
                u.poly = rhs
        return self.updates

    def accumulators(self):
        acc = {}
        for u in self.updates:
            acc.setdefault(u.target['local'], {'name': u.target['name'], 'ty': u.target.get('ty'),
                                               'updates': []})['updates'].append(u)
        return acc


def _pat(p):
    from facts import pat_src
    return pat_src(p)


def rename_old_to_new(poly):
    def f(a):
        if a[0] == 'sym' and isinstance(a[1], str) and a[1].startswith('OLD') and a[1][3:].isdigit():
            return ('sym', 'NEW' + a[1][3:])
        return a
    return poly.subst(f)


def rename_guard(g):
    return g.replace('VALID(NEW', 'VALID(OLD')


def sym(name):
    return Poly.atom(('sym', name))
