"""CAS (thorough tier): closed forms against reference formulas, as algebraic identities over
the reals between two expression trees.  sympy (tooling venv, python3-vt) is used purely as a
normal-form comparator: nothing is evaluated on inputs and no program path is explored."""
import json
import os
import re
import subprocess

from algebra import Poly

WORKER = r'''
import json, sys
import sympy as sp
jobs = json.load(sys.stdin)
out = {}
for j in jobs:
    try:
        names = sorted(set(j["symbols"]))
        syms = {n: sp.Symbol(n, positive=True) for n in names}
        ns = dict(syms); ns["sqrt"] = sp.sqrt
        a = sp.sympify(j["lhs"], locals=ns)
        b = sp.sympify(j["rhs"], locals=ns)
        d = sp.simplify(a - b)
        if d != 0:
            d = sp.simplify(sp.together(sp.expand(a - b)))
        if d != 0:
            d = sp.radsimp(sp.simplify(sp.factor(a - b)))
        out[j["id"]] = {"equal": bool(d == 0), "diff": str(d)[:200]}
    except Exception as e:
        out[j["id"]] = {"equal": None, "diff": "error: %s" % e}
json.dump(out, sys.stdout)
'''


def _name(s):
    return 'S_' + re.sub(r'\W', '_', str(s))


class NotExpressible(Exception):
    pass


def frozen_to_str(fr, syms):
    return poly_to_str(Poly(dict(fr)), syms)


def atom_to_str(a, syms):
    if a[0] == 'sym':
        n = _name(a[1])
        syms.add(n)
        return n
    if a[0] == 'inv':
        return '(1/(%s))' % frozen_to_str(a[1], syms)
    if a[0] == 'fn':
        if a[1] == 'sqrt' and len(a[2]) == 1:
            return 'sqrt(%s)' % frozen_to_str(a[2][0], syms)
        if a[1] in ('powi', 'pow') and len(a[2]) == 2:
            return '((%s)**(%s))' % (frozen_to_str(a[2][0], syms), frozen_to_str(a[2][1], syms))
        if a[1] == 'abs' and len(a[2]) == 1:
            return 'Abs(%s)' % frozen_to_str(a[2][0], syms)
    raise NotExpressible(str(a)[:80])


def poly_to_str(p, syms):
    if not p.t:
        return '0'
    terms = []
    for k, v in p.t.items():
        fs = ['(%s)' % str(v)] if v != 1 or not k else []
        for a, e in k:
            s = atom_to_str(a, syms)
            fs.append(s if e == 1 else '(%s)**(%d)' % (s, e))
        terms.append('*'.join(fs))
    return ' + '.join(terms)


def compare(jobs):
    """jobs: list of dict(id, poly: Poly, ref: str (sympy syntax over S_<name> symbols)).
    Returns id -> (equal True/False/None, detail)."""
    payload = []
    res = {}
    for j in jobs:
        syms = set(re.findall(r'\bS_\w+', j['ref']))
        try:
            lhs = poly_to_str(j['poly'], syms)
        except NotExpressible as e:
            res[j['id']] = (None, 'not expressible: %s' % e)
            continue
        payload.append({'id': j['id'], 'lhs': lhs, 'rhs': j['ref'], 'symbols': sorted(syms)})
    if payload:
        p = subprocess.run(['python3-vt', '-c', WORKER], input=json.dumps(payload), text=True,
                           capture_output=True, timeout=1200)
        if p.returncode != 0:
            for j in payload:
                res[j['id']] = (None, 'sympy worker failed: ' + p.stderr[-200:])
        else:
            out = json.loads(p.stdout)
            for j in payload:
                o = out.get(j['id'], {})
                res[j['id']] = (o.get('equal'), o.get('diff', ''))
    return res


# ---------------------------------------------------------------- reference formulas
def _m(n='S_n', s1='S_sum', s2='S_sum2', s3='S_sum3', s4='S_sum4'):
    mu = '(%s/%s)' % (s1, n)
    m2 = '(%s/%s - %s**2)' % (s2, n, mu)
    m3 = '(%s/%s - 3*%s*%s/%s + 2*%s**3)' % (s3, n, mu, s2, n, mu)
    m4 = '(%s/%s - 4*%s*%s/%s + 6*%s**2*%s/%s - 3*%s**4)' % (s4, n, mu, s3, n, mu, s2, n, mu)
    return mu, m2, m3, m4


def ref_mean(**k):
    return _m(**k)[0]


def ref_var(n='S_n', **k):
    mu, m2, _, _ = _m(n=n, **k)
    return '(%s*%s/(%s-1))' % (m2, n, n)


def ref_std(**k):
    return 'sqrt(%s)' % ref_var(**k)


def ref_skew(n='S_n', **k):
    mu, m2, m3, _ = _m(n=n, **k)
    return '(sqrt(%s*(%s-1))/(%s-2) * %s/%s**(3/2))' % (n, n, n, m3, m2)


def ref_kurt(n='S_n', **k):
    mu, m2, _, m4 = _m(n=n, **k)
    return '(1/((%s-2)*(%s-3)) * ((%s**2-1)*%s/%s**2 - 3*(%s-1)**2))' % (n, n, n, m4, m2, n)


def ref_wma(n='S_n', sxt='S_sum_xt'):
    return '(%s/(%s*(%s+1)/2))' % (sxt, n, n)


def ref_cov(n='S_n', a='S_sum_a', b='S_sum_b', ab='S_sum_ab'):
    return '((%s - %s*%s/%s)/(%s-1))' % (ab, a, b, n, n)


def ref_corr(n='S_n', a='S_sum_a', b='S_sum_b', ab='S_sum_ab', a2='S_sum2_a', b2='S_sum2_b'):
    va = '(%s/%s - (%s/%s)**2)' % (a2, n, a, n)
    vb = '(%s/%s - (%s/%s)**2)' % (b2, n, b, n)
    return '((%s/%s - %s*%s/%s**2)/sqrt(%s*%s))' % (ab, n, a, b, n, va, vb)


def trend(n='S_n', s='S_sum', sxt='S_sum_xt'):
    st = '(%s*(%s+1)/2)' % (n, n)
    stt = '(%s*(%s+1)*(2*%s+1)/6)' % (n, n, n)
    beta = '((%s*%s - %s*%s)/(%s*%s - %s**2))' % (n, sxt, st, s, n, stt, st)
    alpha = '((%s - %s*%s)/%s)' % (s, beta, st, n)
    return st, stt, alpha, beta


def ref_trend(kind, n='S_n', s='S_sum', sxt='S_sum_xt', sxx='S_sum2'):
    st, stt, alpha, beta = trend(n, s, sxt)
    if kind == 'reg':
        return '(%s + %s*%s)' % (alpha, beta, n)
    if kind == 'tsf':
        return '(%s + %s*(%s+1))' % (alpha, beta, n)
    if kind == 'slope':
        return beta
    if kind == 'intercept':
        return alpha
    if kind == 'resid_mean':
        return ('((%s - 2*%s*%s - 2*%s*%s + %s**2*%s + 2*%s*%s*%s + %s**2*%s)/%s)'
                % (sxx, alpha, s, beta, sxt, alpha, n, alpha, beta, st, beta, stt, n))


def regx(n='S_n', a='S_sum_a', b='S_sum_b', ab='S_sum_ab', b2='S_sum2_b', a2='S_sum2_a'):
    beta = '((%s*%s - %s*%s)/(%s*%s - %s**2))' % (n, ab, a, b, n, b2, b)
    alpha = '((%s - %s*%s)/%s)' % (a, beta, b, n)
    sse = '(%s - %s*%s - %s*%s)' % (a2, alpha, a, beta, ab)
    return alpha, beta, sse
