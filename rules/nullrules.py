"""Null abstraction: IsNone impl coherence, the Cast lattice, comparators, null-guard
dominance of `unwrap`, parametricity (only-trait)."""
import re

import dtree
from facts import (walk, walk_with_parents, peel, src, loc, callee_is, callee, strip_generics,
                   _pat_binds, children, is_local)

RULES = {
    'NUL.coherent': 'per IsNone impl: not_none is the negation of is_none; to_opt / as_opt test '
                    'that same predicate; none() is a value the predicate recognises (or the '
                    'type is never null); from_inner / unwrap are the identity where Inner = Self '
                    '(Option re-tests the inner value)',
    'NUL.default': 'the provided methods of IsNone (from_opt, unwrap, not_none, map, vabs) have '
                   'their defining bodies',
    'CMP.table': 'sort_cmp / sort_cmp_rev order non-null values by partial_cmp (reversed for '
                 'the descending comparator), and put nulls - None or an incomparable NaN - last '
                 'in both directions',
    'CAST.null': 'a cast whose source and target can both represent null maps the source\'s '
                 'null to the target\'s null (tests is_none first / maps through Option)',
    'CAST.value': 'numeric value casts are `self as U` (the language\'s conversion); Option on '
                  'either side composes through map / unwrap_or_else(none)',
    'NULL.unwrap': 'in null-aware code every IsNone::unwrap of an input element is dominated by '
                   'a null test on that value (or the value is the parameter of a fold helper '
                   'closure that only sees non-null elements)',
    'NULL.only-trait': 'null-aware generic code touches nullness only through IsNone / Cast: no '
                       'is_nan, TypeId, type_name, transmute or backend-name branching',
    'NULL.fold': 'the fold helpers skip exactly the null elements: the callback and the count '
                 'are inside `if v.not_none()`',
}

# types whose null the property names (NaN, None) or C16 names (NaT); text and Vec nulls
# ("None" strings, empty vectors) are conventions of the library, not part of the cast claim
NULLABLE_HEADS = ('f32', 'f64', 'std::option::Option',
                  'tea_time::DateTime', 'tea_time::TimeDelta', 'tea_time::Time')


def head(ty):
    ty = ty.strip()
    if ty.startswith('&'):
        return '&str' if ty.endswith('str') else ty
    return strip_generics(ty.split('<')[0])


def nullable(ty):
    return head(ty) in NULLABLE_HEADS


def is_float(ty):
    return ty in ('f32', 'f64')


def is_time(ty):
    return head(ty).startswith('tea_time::')


def self_env(fn):
    env = {}
    for i, p in enumerate(fn.params):
        for b in _pat_binds(p):
            env[b['local']] = b['name']
    return env


def tbl(fn):
    return dtree.table(fn.hir, self_env(fn))


def tblx(fn):
    """table with Option combinators (`map`, `and_then`, `map_or`, `map_or_else`, a top-level
    `let p = o?`) expanded to the control flow they abbreviate"""
    import pinned
    return dtree.table(pinned.expand_options(fn.hir), self_env(fn))


def panics(fn):
    """body is a bare panic!(..)"""
    b = src(fn.hir)
    return b.startswith('rt::panic_fmt(') or b.startswith('panicking::panic') or \
        (fn.hir.get('ty') == '!' and 'panic' in b)


def one_leaf(t):
    if len(t) == 1:
        cs, leaf, ef = list(t)[0]
        if not cs and not ef:
            return leaf
    return None


def neg(leaf):
    if leaf.startswith('!'):
        return leaf[1:]
    m = re.fullmatch(r'\((.+) (==|!=) (.+)\)', leaf)
    if m:
        return '(%s %s %s)' % (m.group(1), '!=' if m.group(2) == '==' else '==', m.group(3))
    if leaf in ('true', 'false'):
        return 'true' if leaf == 'false' else 'false'
    return '!' + leaf


def T(*rows):
    return dtree.Table((frozenset(c), leaf, tuple(ef)) for c, leaf, ef in rows)


def isnone_impls(F):
    out = {}
    for fn in F.fns:
        if fn.kind == 'AssocFn' and fn.impl_trait and strip_generics(fn.impl_trait).endswith('IsNone') \
                and fn.crate == 'tea_dtype':
            out.setdefault(fn.impl_self, {})[fn.name] = fn
    return out


def check_isnone(run, F):
    impls = isnone_impls(F)
    n = 0
    for ty, ms in sorted(impls.items()):
        n += 1
        anchor = ms.get('is_none')
        if anchor is None:
            run.ob('NUL.coherent', 'tea_dtype::<impl IsNone for %s>' % ty, 'is_none present', False,
                   '', 'impl has no is_none')
            continue
        N = one_leaf(tbl(anchor))
        opt = head(ty) == 'std::option::Option'
        never = (N == 'false')
        key = 'impl IsNone for %s: ' % ty
        run.ob('NUL.coherent', anchor, key + 'is_none is a single predicate', N is not None,
               anchor.loc(), 'is_none = %s' % (N if N else dtree.show(tbl(anchor))))
        if N is None:
            continue
        if 'not_none' in ms:
            got = one_leaf(tbl(ms['not_none']))
            run.ob('NUL.coherent', ms['not_none'], key + 'not_none = !is_none', got == neg(N),
                   ms['not_none'].loc(), 'not_none = %s, is_none = %s' % (got, N))
        for m in ('to_opt', 'as_opt'):
            if m not in ms:
                continue
            t = tbl(ms[m])
            if opt:
                want = [T(([], 'self', []))]
            elif never:
                want = [T(([], 'Some(self)', []))]
            else:
                want = [T((['!VALID(self)'], 'NULL', []), (['VALID(self)'], 'Some(self)', []))]
            run.ob('NUL.coherent', ms[m], key + m, t in want, ms[m].loc(),
                   'table %s' % dtree.show(t))
        if 'none' in ms:
            leaf = one_leaf(tbl(ms['none']))
            ok = False
            if never:
                ok = leaf == 'PANIC' or panics(ms['none'])
            elif N in ('(self != self)', 'self.is_nan()') or opt:
                ok = leaf == 'NULL'
            elif 'str:None' in N:
                ok = leaf in ('str:None', 'str:None.to_string()')
            elif N == '!VALID(self)':
                ok = leaf is not None and leaf.endswith('nat()')
            elif N in ('self.is_empty()', '(0 == self.len())', 'self.len() is 0'):
                ok = leaf in ('Vec::new()', 'vec::Vec::new()', 'Default::default()')
            run.ob('NUL.coherent', ms['none'], key + 'none() is recognised by is_none', ok,
                   ms['none'].loc(), 'none() = %s, is_none = %s' % (leaf, N))
        if 'from_inner' in ms:
            t = tbl(ms['from_inner'])
            want = T((['!VALID(inner)'], 'NULL', []), (['VALID(inner)'], 'Some(inner)', [])) if opt \
                else T(([], 'inner', []))
            run.ob('NUL.coherent', ms['from_inner'], key + 'from_inner', t == want,
                   ms['from_inner'].loc(), 'table %s' % dtree.show(t))
        if 'unwrap' in ms:
            t = tbl(ms['unwrap'])
            run.ob('NUL.coherent', ms['unwrap'], key + 'unwrap', t == T(([], 'self', [])),
                   ms['unwrap'].loc(), 'table %s' % dtree.show(t))
        if 'map' in ms:
            tm = tbl(ms['map'])
            want = T((['VALID(self)'], 'IsNone::from_inner(f(self))', []), (['!VALID(self)'], 'NULL', [])) if opt \
                else T(([], 'IsNone::from_inner(f(self))', []))
            run.ob('NUL.coherent', ms['map'], key + 'map', tm == want, ms['map'].loc(),
                   'map table %s' % dtree.show(tm))
    return n


def check_defaults(run, F):
    want = {
        'from_opt': 'opt.map(IsNone::from_inner).unwrap_or(NULL)',
        'unwrap': 'self',                      # to_opt().unwrap() with coercions erased
        'not_none': 'VALID(self)',
        'map': 'self.map(|a0| IsNone::from_inner(f(a0))).unwrap_or(NULL)',
        'vabs': 'self.map(Number::abs)',
    }
    n = 0
    for name, w in want.items():
        fn = F.one('isnone::IsNone::' + name)
        t_ = tbl(fn)
        leaf = one_leaf(t_)
        n += 1
        if name == 'map':
            okm = t_ == T((['VALID(self)'], 'IsNone::from_inner(f(self))', []), (['!VALID(self)'], 'NULL', []))
            run.ob('NUL.default', fn, 'IsNone::map', okm, fn.loc(), 'map table %s' % dtree.show(t_))
            continue
        if name == 'from_opt':
            # as a table (a `match` is the same thing), and none() must stay lazy: it panics for the
            # never-null types, so it may not be evaluated as an eager default argument
            tx = tblx(fn)
            okt = tx == T((['VALID(opt)'], 'IsNone::from_inner(opt)', []), (['!VALID(opt)'], 'NULL', []))
            eager = [x for x in walk(fn.hir) if x.get('k') == 'MethodCall' and
                     x['method'] in ('map_or', 'unwrap_or') and
                     any(peel(a_).get('k') == 'Call' and callee_is(peel(a_), 'IsNone::none') for a_ in x['ch'][1:])]
            run.ob('NUL.default', fn, 'IsNone::from_opt', okt and not eager, fn.loc(),
                   'table %s%s' % (dtree.show(tx), '; none() evaluated eagerly' if eager else ''))
            continue
        run.ob('NUL.default', fn, 'IsNone::%s' % name, leaf == w, fn.loc(), '%s = %s' % (name, leaf))
    return n


def _sort_table(fallback):
    return T((['VALID(self)', 'VALID(other)'], 'self.partial_cmp(other).unwrap_or_else(|| %s)' % fallback, []),
             (['!VALID(self)', '!VALID(other)'], 'Ordering::Equal', []),
             (['!VALID(self)', 'VALID(other)'], 'Ordering::Greater', []),
             (['VALID(self)', '!VALID(other)'], 'Ordering::Less', []))


# the fallback runs when partial_cmp fails (a NaN payload): the left NaN sorts last
SORT_CMP = _sort_table('if VALID(self) { Ordering::Less } else { Ordering::Greater }')
SORT_CMP_REV = T(*[(cs, l + ('.reverse()' if 'partial_cmp' in l else ''), ef) for cs, l, ef in
                   _sort_table('if VALID(self) { Ordering::Greater } else { Ordering::Less }')])


def check_comparators(run, F):
    n = 0
    import ordeval
    for name, want in (('sort_cmp', SORT_CMP), ('sort_cmp_rev', SORT_CMP_REV)):
        fn = F.one('isnone::IsNone::' + name)
        n += 1
        # the comparator touches its operands only through null tests, as_opt and partial_cmp:
        # it is evaluated on all 12 input classes (ordeval.py) and compared with the
        # specification, so the spelling (arm order, guards, Option combinators, where the
        # reversal is applied) is irrelevant
        try:
            bad = ordeval.evaluate(fn, name == 'sort_cmp_rev')
            det = '%d input classes agree with: nulls last, two nulls equal, valid values by partial_cmp%s, ' \
                  'an incomparable pair orders the one that is itself null last' % (
                      len(ordeval.classes()), ' reversed' if name.endswith('rev') else '')
            if bad:
                det = '; '.join('%s: returns %s, specified %s' % (ordeval.show_class(c), g, w) for c, g, w in bad[:3])
        except ordeval.Unk as ex:
            bad, det = [None], 'not evaluable: %s' % ex
        run.ob('CMP.table', fn, 'IsNone::%s decision table' % name, not bad, fn.loc(), det)
    # overrides (never-null types): partial_cmp().unwrap()
    for fn in F.fns:
        if fn.kind == 'AssocFn' and fn.name in ('sort_cmp', 'sort_cmp_rev') and fn.impl_trait and \
                strip_generics(fn.impl_trait).endswith('IsNone'):
            leaf = one_leaf(tbl(fn))
            n += 1
            want = 'self.partial_cmp(&other)' if fn.name == 'sort_cmp' else None
            ok = leaf in ('self.partial_cmp(other)', 'self.partial_cmp(&other)') and fn.name == 'sort_cmp'
            run.ob('CMP.table', fn, '%s for %s' % (fn.name, fn.impl_self), ok, fn.loc(),
                   'override = %s' % leaf, trivial=True)
    return n


# ---------------------------------------------------------------- Cast lattice

def cast_instances(F):
    out = []
    for fn in F.fns:
        if fn.kind == 'AssocFn' and fn.name == 'cast' and fn.impl_trait and \
                strip_generics(fn.impl_trait).endswith('Cast') and fn.crate == 'tea_dtype':
            ref = fn.d.get('impl_trait_ref', '')
            m = re.match(r'^<(.+) as cast::Cast<(.+)>>$', ref)
            if not m:
                continue
            out.append((fn, m.group(1), m.group(2)))
    return out


def opt_inner(ty):
    m = re.match(r'^std::option::Option<(.+)>$', ty)
    return m.group(1) if m else None


_DEFAULTS = {}


def _tests_after_conversion(fn, S):
    out = []
    env0 = self_env(fn)
    src_ty = S.replace(' ', '')
    for x in walk(fn.hir):
        if x.get('k') == 'MethodCall' and len(x.get('ch', [])) == 1 and \
                callee_is(x, 'IsNone::is_none', 'IsNone::not_none', 'Option::is_none', 'Option::is_some'):
            try:
                en = dtree.env_at(fn.hir, x, env0)
                who = dtree.canon(x['ch'][0], dict(en))
            except Exception:
                continue
            if who != 'self':
                continue
            ty = (x.get('recv_ty') or peel(x['ch'][0]).get('ty') or '').replace(' ', '')
            while ty.startswith('&'):
                ty = ty[1:].replace('mut', '', 1) if ty[1:].startswith('mut') else ty[1:]
            if ty and ty != src_ty and ty != 'Self':
                out.append('`%s` of type %s' % (src(x['ch'][0])[:40], ty))
    return out


def check_casts(run, F, skip_time=False):
    inst = cast_instances(F)
    _DEFAULTS.clear()
    for f_ in F.fns:
        if f_.kind == 'AssocFn' and f_.name == 'default' and f_.impl_trait and \
                strip_generics(f_.impl_trait).endswith('Default') and f_.impl_self:
            _DEFAULTS[head(f_.impl_self).split('::')[-1]] = one_leaf(tbl(f_))
    n = 0
    for fn, S, U in inst:
        if 'polars_cast' in fn.file:
            continue
        if skip_time and ('tea_time' in S or 'tea_time' in U):
            continue
        n += 1
        key = 'Cast<%s> for %s' % (_short(U), _short(S))
        fnq = 'tea_dtype::<impl %s>' % key
        t = tbl(fn)
        leaf = one_leaf(t)
        so, uo = opt_inner(S), opt_inner(U)
        s_null, u_null = nullable(S), nullable(U)
        body = src(fn.hir)
        # generic blanket impls
        if S == 'T' and U == 'T':
            run.ob('CAST.value', fnq, key, leaf == 'self', fn.loc(), 'identity', trivial=True)
            continue
        if S == 'T' and U == 'std::option::Option<T>':
            want = T((['!VALID(self)'], 'NULL', []), (['VALID(self)'], 'Some(self)', []))
            run.ob('CAST.null', fnq, key, t == want, fn.loc(), 'table %s' % dtree.show(t))
            continue
        if leaf == 'PANIC' or panics(fn):
            # unsupported conversion: a panic never turns a null into a non-null
            run.ob('CAST.value', fnq, key, True, fn.loc(), 'unsupported conversion panics',
                   trivial=True)
            continue
        if not (s_null and u_null):
            # at most one side nullable
            if so is not None and not u_null:
                # Option source into a never-null target: must panic on None (documented);
                # text targets spell it "None"
                # with the Option combinators written out, the None rows end in a panic or in the
                # target's `none()` (which panics for a never-null type)
                tx_ = tblx(fn)
                none_rows = [l for cs_, l, _ in tx_ if '!VALID(self)' in cs_]
                ok = head(U) in ('std::string::String',) or all(l == 'PANIC' for _, l, _ in t) or \
                    'expect' in body or 'panic' in body or 'PANIC' in str(dtree.show(t)) or \
                    'unwrap_or_else(IsNone::none)' in body or 'IsNone::none()' in body or \
                    (bool(none_rows) and all(l in ('PANIC', 'NULL') for l in none_rows))
                run.ob('CAST.null', fnq, key, ok, fn.loc(), 'None -> never-null target: %s'
                       % ('panics' if ok else body[:80]))
            elif not s_null and uo is not None:
                # never-null source into Option: Some(value) (an is_none test is a no-op)
                ok = all(l.startswith('Some(') or l == 'NULL' for _, l, _ in t) and \
                    any(l.startswith('Some(') for _, l, _ in t)
                run.ob('CAST.value', fnq, key, ok, fn.loc(), 'table %s' % dtree.show(t), trivial=True)
            else:
                # plain value cast: numeric pairs must be `self as U`
                NUM = ('u8', 'u64', 'i32', 'i64', 'usize', 'isize', 'f32', 'f64')
                ok = True
                if S in NUM and U in NUM:
                    ok = leaf == 'self' and any(x.get('k') == 'Cast' for x in walk(fn.hir))
                run.ob('CAST.value', fnq, key, ok, fn.loc(), 'value cast `%s`' % (leaf or body[:60]),
                       trivial=not (S in NUM and U in NUM))
            continue
        # both sides can represent null
        if all(l == 'PANIC' for _, l, _ in t):
            run.ob('CAST.value', fnq, key, True, fn.loc(), 'unsupported conversion panics',
                   trivial=True)
            continue
        if (S, U) in AUDITED_CASTS:
            run.ob('CAST.null', fnq, key, AUDITED_CASTS[(S, U)][0] in body, fn.loc(),
                   'audited: ' + AUDITED_CASTS[(S, U)][1])
            continue
        ok, why = null_preserving(fn, S, U, t, leaf, body)
        if ok:
            # coercions are erased in the table, so `self.cast().is_none()` reads like `self.is_none()`:
            # the null test must be applied to the source value itself, not to a converted one
            late = _tests_after_conversion(fn, S)
            if late:
                ok, why = False, 'the null test is applied to a converted value (%s), not to the %s source: ' \
                    'a conversion does not keep the null (NaN as i64 = 0)' % (late[0], _short(S))
        run.ob('CAST.null', fnq, key, ok, fn.loc(), why)
    return n


AUDITED_CASTS = {
    ('tea_time::TimeDelta', 'std::option::Option<i64>'):
        ('months != 0', 'NaT has months = i32::MIN != 0, so the month guard panics before any '
                        'value is produced; a panic never yields a non-null'),
}


def _short(ty):
    ty = ty.replace('std::option::Option', 'Option').replace('std::string::String', 'String')
    ty = ty.replace('tea_time::timeunit::', '').replace('tea_time::', '')
    return ty


def null_preserving(fn, S, U, t, leaf, body):
    so, uo = opt_inner(S), opt_inner(U)
    if so is not None:
        # Option source
        if uo is not None:
            ok = leaf is not None and re.fullmatch(r'self\.map\((.+)\)', leaf) is not None
            return ok, 'Option -> Option through map: %s' % leaf
        # Option -> nullable non-Option: map(..).unwrap_or(_else)(null) / unwrap_or_else(none) / if let
        if leaf is not None:
            m = re.fullmatch(r'self(\.map\(.+\))?\.unwrap_or(_else)?\((.+)\)', leaf)
            if m:
                d = m.group(3)
                ok = d in ('NULL', '|| NULL', 'str:None.to_string()', 'IsNone::none') or d.endswith('nat()')
                return ok, 'None -> `%s`' % d
            m = re.fullmatch(r'self(\.map\(.+\))?\.unwrap_or_default\(\)', leaf)
            if m:
                # the target's Default impl decides: NaT-valued defaults keep the null, a derived
                # default (zero) does not
                d = _DEFAULTS.get(head(U).split('::')[-1])
                ok = d is not None and (d == 'NULL' or d.endswith('nat()'))
                return ok, 'None -> Default::default() of the target = `%s`' % d
            if leaf.startswith('fmt::format(') or 'format' in leaf:
                return True, 'Debug formatting of the Option ("None")'
        rows = {l for cs, l, ef in t if any(c.startswith('!VALID(self)') for c in cs)}
        ok = bool(rows) and all(l == 'NULL' or l.endswith('nat()') for l in rows)
        return ok, 'None arm yields %s' % sorted(rows)
    # non-Option nullable source
    if S == U or (is_float(S) and is_float(U)):
        ok = leaf == 'self' and (S == U or any(x.get('k') == 'Cast' for x in walk(fn.hir)))
        return ok, 'float <-> float value cast keeps NaN (`%s`)' % leaf
    if is_time(S) and is_time(U):
        return leaf is not None and 'into_unit' in leaf, 'unit conversion (NaT handling: NAT.guard)'
    if uo is not None:
        # must test the source's null first
        if leaf is not None and head(S) in ('tea_time::DateTime',) and leaf.endswith('into_opt_i64()'):
            return True, 'delegates to into_opt_i64 (NAT.guard)'
        rows_null = {l for cs, l, ef in t if '!VALID(self)' in cs or '(self == str:None)' in cs}
        rows_val = {l for cs, l, ef in t if 'VALID(self)' in cs or '(self != str:None)' in cs}
        ok = rows_null == {'NULL'} and bool(rows_val) and all(l.startswith('Some(') for l in rows_val)
        if not ok and leaf is not None and 'map(Some)' in body:
            ok = True
        return ok, 'null rows %s, value rows %s' % (sorted(rows_null), sorted(rows_val)[:2])
    # nullable -> nullable, neither Option: must test is_none (or be null-preserving by type)
    tests = any(any('VALID(self)' in c for c in cs) for cs, l, ef in t)
    if tests:
        rows_null = {l for cs, l, ef in t if '!VALID(self)' in cs}
        ok = all(l == 'NULL' or l.endswith('nat()') or 'None' in l for l in rows_null)
        return ok, 'null rows %s' % sorted(rows_null)
    return False, ('no null test: `%s` converts the null %s by value (%s)'
                   % (body[:70], _short(S),
                      'NaN as i64 = 0' if is_float(S) else
                      'NaT = i64::MIN ticks' if is_time(S) else
                      '"None" is parsed / NaN is formatted'))


# ---------------------------------------------------------------- unwrap dominance

FOLD_HELPERS = ('vfold', 'vfold_n', 'vapply', 'vapply_n', 'vfold2', 'vfold2_n')


def check_unwrap(run, F, files, audited=None):
    """NULL.unwrap over the functions of the given files."""
    audited = audited or {}
    n = 0
    for fn in F.fns:
        if fn.kind == 'Closure' or fn.hir is None or not any(fn.file.endswith(f) for f in files):
            continue
        for e, parents in walk_with_parents(fn.hir):
            if not (e.get('k') == 'MethodCall' and callee_is(e, 'IsNone::unwrap')):
                continue
            n += 1
            subj = dtree.canon(e['ch'][0], {})
            ok, why = _dominated(e, parents, subj, fn)
            k = (fn.name, subj)
            if not ok and k in audited:
                ok, why = True, 'audited: ' + audited[k]
            run.ob('NULL.unwrap', fn, '%s.unwrap() @%s' % (subj, loc(e).split(':')[-1]), ok, loc(e), why)
    return n


def _dominated(e, parents, subj, fn):
    subj_node = peel(e['ch'][0])
    lid = subj_node.get('local') if subj_node.get('res') == 'local' else None
    child = e
    for p in reversed(parents):
        k = p.get('k')
        if k == 'If':
            c = p['ch']
            c0 = peel(c[0])
            if len(c) > 1 and c[1] is child and c0.get('k') == 'LetExpr' and lid is not None:
                # `if let Some(v) = o.filter(IsNone::not_none) { v.unwrap() .. }`
                from kernels import _filtered
                pt = c0['pat']
                if pt.get('k') == 'TupleStruct' and len(pt.get('ch', [])) == 1 and \
                        pt['ch'][0].get('k') == 'Binding' and pt['ch'][0]['local'] == lid and \
                        _filtered(c0['ch'][0]) is not None:
                    return True, 'bound by `if let Some(_) = _.filter(not_none)`'
            preds = dtree.conj(c[0], {})
            if len(c) > 1 and c[1] is child and 'VALID(%s)' % subj in preds:
                return True, 'dominated by `%s`' % src(c[0])[:60]
            if len(c) > 2 and c[2] is child and 'VALID(%s)' % subj in dtree.conj(c[0], {}, False):
                return True, 'else-branch of `%s`' % src(c[0])[:60]
            # && short circuit inside the condition itself
            if c[0] is child or any(y is e for y in walk(c[0])):
                if _and_dominates(c[0], e, subj):
                    return True, 'right operand of `&&` after `%s.not_none()`' % subj
        if k == 'Binary' and p['op'] in ('And',):
            if p['ch'][1] is child and 'VALID(%s)' % subj in dtree.conj(p['ch'][0], {}):
                return True, 'right operand of `&&` after the null test'
        if k == 'Closure':
            # parameter of a closure given to a fold helper / map over valid elements
            pl = {b['local'] for q in p['params'] for b in _pat_binds(q)}
            if lid in pl:
                gp = parents[parents.index(p) - 1] if parents.index(p) > 0 else None
                if gp is not None and gp.get('k') == 'MethodCall' and \
                        gp['method'] in FOLD_HELPERS + ('map',) and gp['method'] in FOLD_HELPERS:
                    return True, 'parameter of a %s callback (helper passes only non-null elements)' % gp['method']
            # shadowed let inside closure: continue upward
        if k == 'Block':
            # an early `if x.is_none() { return/continue }` earlier in this block
            for s in p.get('stmts', []):
                x = s.get('e') or s.get('init')
                if x is None:
                    continue
                if any(y is child for y in walk(x)) or x is child:
                    break
                x = peel(x)
                if x.get('k') == 'If' and '!VALID(%s)' % subj in dtree.conj(x['ch'][0], {}) and \
                        any(y.get('k') in ('Ret', 'Continue', 'Break') for y in walk(x['ch'][1])):
                    return True, 'after an early exit on `%s`' % src(x['ch'][0])[:60]
        child = p
    # let-shadowing: `let v = v.unwrap()` where the binding came from a tested pattern is covered
    return False, 'no dominating null test on `%s`' % subj


def _and_dominates(cond, e, subj):
    cond = peel(cond)
    if cond.get('k') == 'Binary' and cond['op'] in ('And',):
        if any(y is e for y in walk(cond['ch'][1])):
            if 'VALID(%s)' % subj in dtree.conj(cond['ch'][0], {}):
                return True
            return _and_dominates(cond['ch'][1], e, subj)
        return _and_dominates(cond['ch'][0], e, subj)
    return False


BANNED = ('f64::is_nan', 'f32::is_nan', 'TypeId::of', 'any::type_name', 'mem::transmute',
          'intrinsics::transmute', 'Vec1View::get_backend_name', 'any::type_name_of_val')


def check_only_trait(run, F, files, allow=()):
    n = 0
    hits = 0
    for fn in F.fns:
        if fn.kind == 'Closure' or fn.hir is None or not any(fn.file.endswith(f) for f in files):
            continue
        n += 1
        for x in walk(fn.hir):
            if x.get('k') in ('MethodCall', 'Call') and callee_is(x, *BANNED):
                if (fn.name, callee(x).split('::')[-1]) in allow:
                    continue
                hits += 1
                run.ob('NULL.only-trait', fn, '`%s`' % src(x)[:60], False, loc(x),
                       'null-aware / generic code inspects the representation directly')
    run.ob('NULL.only-trait', 'workspace', 'functions inspected: none bypasses IsNone/Cast',
           hits == 0, '', '%d function(s) in %s inspected, %d bypass(es)' % (n, list(files), hits))
    return n
