"""CAS rule set (both tiers): result blocks of the rolling kernels and one-pass aggregates."""
import re
import cas
import acc
from algebra import Poly, Env, norm, read_block
from kernels import find_kernels, KernelModel
from facts import walk, peel, src, loc

RULE = ('the closed form in the result block equals the reference formula over the same power '
        'sums (algebraic identity over the reals, normalised by sympy; EPS floors are branch '
        'structure only)')


ROLE1 = {'1': 'n', 'NEW0': 'sum', 'NEW0^2': 'sum2', 'NEW0^3': 'sum3', 'NEW0^4': 'sum4', 'NEW0*n': 'sum_xt'}
ROLE2 = {'1': 'n', 'NEW0': 'sum_a', 'NEW1': 'sum_b', 'NEW0*NEW1': 'sum_ab', 'NEW0^2': 'sum2_a',
         'NEW1^2': 'sum2_b'}


def acc_roles(m):
    """accumulator local -> the reference formulas' name for what it accumulates (by its add
    update: count, power sums, cross sums, time-weighted sum), independent of source names"""
    m.classify()
    accs = m.accumulators()
    n_id = acc.count_acc(m)
    n_name = accs[n_id]['name'] if n_id is not None else None
    table = ROLE2 if m.k.two else ROLE1
    out = {}
    for lid, a in accs.items():
        for u in a['updates']:
            if u.block == 'add' and getattr(u, 'poly', None) is not None and u.op == 'AddAssign':
                d = u.poly.show()
                if n_name:
                    d = re.sub(r'\b%s\b' % re.escape(n_name), 'n', d)
                if d in table:
                    out[lid] = table[d]
    return out


def kernel_leaves(m):
    gf = acc.gate_form(m)
    n_id = acc.count_acc(m)
    roles = acc_roles(m)
    out = []
    for e, g in acc.result_leaves(m, n_id, gf['local']):
        if acc.is_null_literal(e):
            continue
        env_ = acc._env_at(m, e, roles)
        p = norm(e, env_)
        if p.is_const():
            continue        # variance floor / degenerate branch
        out.append((e, p))
    return out


FEATURE_REFS = {
    'mean': cas.ref_mean(), 'var': cas.ref_var(), 'std': cas.ref_std(), 'skew': cas.ref_skew(),
    'kurt': cas.ref_kurt(), 'wma': cas.ref_wma(), 'sum': 'S_sum',
}
TREND_REFS = {'ts_vreg_to': 'reg', 'ts_vtsf_to': 'tsf', 'ts_vreg_slope_to': 'slope',
              'ts_vreg_intercept_to': 'intercept', 'ts_vreg_resid_mean_to': 'resid_mean'}


def check_rolling(run, F, files):
    jobs = []
    meta = {}
    for k in find_kernels(F):
        if not any(k.fn.file.endswith(f) for f in files) or k.custom:
            continue
        m = KernelModel(k)
        name = k.name
        ref = None
        base = name[:-3] if name.endswith('_to') else name
        stat = base[4:] if base.startswith('ts_v') and base[3:] not in FEATURE_REFS else base[3:]
        if k.fn.file.endswith('features.rs'):
            stat = base[4:] if base[3:] not in FEATURE_REFS or base.startswith('ts_v') and base[4:] in FEATURE_REFS and base[3:] not in ('var',) else base[3:]
            if base in ('ts_var', 'ts_vvar'):
                stat = 'var'
            ref = FEATURE_REFS.get(stat)
        elif name in TREND_REFS:
            ref = cas.ref_trend(TREND_REFS[name])
        elif name == 'ts_vcov_to':
            ref = cas.ref_cov()
        elif name == 'ts_vcorr_to':
            ref = cas.ref_corr()
        elif name in ('ts_vregx_alpha_to', 'ts_vregx_beta_to'):
            a_, b_, _ = cas.regx()
            ref = a_ if 'alpha' in name else b_
        elif name == 'ts_vregx_all':
            a_, b_, sse = cas.regx()
            ref = [a_, b_, sse]
        if ref is None:
            continue
        leaves = kernel_leaves(m)
        refs = ref if isinstance(ref, list) else [ref]
        if len(leaves) != len(refs):
            run.ob('CAS.form', k.fn, '%s closed form' % name, False, k.fn.loc(),
                   '%d non-constant result leaf/leaves, expected %d' % (len(leaves), len(refs)))
            continue
        for i, ((e, p), r) in enumerate(zip(leaves, refs)):
            jid = '%s#%d' % (k.fn.qpath, i)
            jobs.append({'id': jid, 'poly': p, 'ref': r})
            meta[jid] = (k.fn, '%s closed form%s' % (name, (' #%d' % i) if len(refs) > 1 else ''), e, p)
    res = cas.compare(jobs)
    for jid, (fn, key, e, p) in meta.items():
        eq, det = res.get(jid, (None, 'no result'))
        if eq is None:
            run.unproven.append('%s: CAS not decided (%s)' % (key, det))
            run.ob('CAS.form', fn, key, True, loc(e), 'not decided: %s' % det, trivial=True)
        else:
            run.ob('CAS.form', fn, key, eq, loc(e),
                   'identical to the reference over the reals' if eq else
                   'differs from the reference; simplified difference: %s' % det)
    return len(jobs)


FLOOR_RULE = ('a kernel that floors a variance at EPS before taking its square root or dividing by it tests '
              'the variance itself: the quantity compared with EPS, as it stands at the test, is the window\'s '
              'population variance sum2/n - (sum/n)^2 (algebraic identity), so a window on which the statistic '
              'is defined cannot reach the square root with a non-positive argument')


def _pop_var(suffix=''):
    s1, s2 = 'S_sum' + suffix, 'S_sum2' + suffix
    return '(%s/S_n - (%s/S_n)**2)' % (s2, s1)


EPS_RULE = ('the variance floor `tea_core::prelude::EPS` is a positive rounding threshold no larger than the '
            'confirmed 1e-14: every one-pass variance / skewness / kurtosis / correlation treats a series whose '
            'population variance is at or below it as constant (0, or null), so a larger value replaces the '
            'textbook result of genuinely varying small-scale data')
EPS_MAX = 1e-14


def check_eps(run, F):
    """EPS.value: the compile-time value of the floor constant (evaluated by rustc, read from the facts)"""
    import struct
    run.rule('EPS.value', EPS_RULE)
    bits = F.const_value('prelude::EPS')
    if bits is None:
        run.ob('EPS.value', 'tea_core::prelude::EPS', 'floor constant', False, '', 'constant not found in the facts')
        return
    v = struct.unpack('<d', struct.pack('<Q', bits & (2 ** 64 - 1)))[0]
    run.ob('EPS.value', 'tea_core::prelude::EPS', 'floor constant', 0.0 < v <= EPS_MAX, 'tea-core/src/prelude.rs',
           'EPS = %r (confirmed bound %r)' % (v, EPS_MAX))
    # ... and no statistic floors at a tolerance of its own: a comparison against a small positive float
    # literal (between the confirmed floor and 1e-3) in the aggregation / rolling / analytics code is a
    # variance floor that bypasses the constant
    import re
    from facts import walk, peel, loc, src
    n = 0
    for fn in F.fns:
        if fn.crate not in ('tea_core', 'tea_agg', 'tea_rolling', 'tea_map', 'tevec') or '/tests/' in fn.file or \
                fn.file.endswith('testing.rs'):
            continue
        for x in walk(fn.hir):
            if x.get('k') != 'Binary' or x.get('op') not in ('Lt', 'Le', 'Gt', 'Ge'):
                continue
            for c in x.get('ch', [])[:2]:
                c = peel(c)
                if c.get('k') == 'Path' and str(c.get('ty')) == 'f64' and 'Const' in str(c.get('res', '')):
                    # a named tolerance: its evaluated value, when the constant is one of the workspace's own
                    nm = str(c.get('def', '')).split('::')[-1]
                    cb = F.const_value(nm) if nm else None
                    if cb is not None:
                        cv = abs(struct.unpack('<d', struct.pack('<Q', cb & (2 ** 64 - 1)))[0])
                        if EPS_MAX < cv < 1e-3:
                            n += 1
                            run.ob('EPS.value', fn, 'comparison against a private tolerance', False, loc(x),
                                   '%s: the constant %s = %r instead of EPS' % (src(x)[:60], nm, cv))
                    continue
                if c.get('k') == 'Lit' and str(c.get('ty')) in ('f64', 'f32'):
                    m = re.match(r'^-?[0-9][0-9_]*\.?[0-9_]*(?:[eE][-+]?[0-9_]+)?', str(c.get('v', '')))
                    if not m:
                        continue
                    try:
                        lv = abs(float(m.group(0).replace('_', '')))
                    except ValueError:
                        continue
                    if EPS_MAX < lv < 1e-3:
                        n += 1
                        run.ob('EPS.value', fn, 'comparison against a private tolerance', False, loc(x),
                               '%s: a floor of %r instead of EPS' % (src(x)[:60], lv))
    run.note('EPS.value: %d comparison(s) against a float literal in (1e-14, 1e-3) in the statistics crates' % n) \
        if hasattr(run, 'note') else None


def check_floors(run, F, files):
    """VAR.floor over the rolling kernels of the given files."""
    check_eps(run, F)
    from facts import strip_generics
    jobs, meta = [], {}
    for k in find_kernels(F):
        if not any(k.fn.file.endswith(f) for f in files) or k.custom:
            continue
        m = KernelModel(k)
        roles = acc_roles(m)
        i = 0
        for x in walk(m.body):
            if x.get('k') != 'Binary' or x.get('op') not in ('Gt', 'Lt', 'Ge', 'Le'):
                continue
            a, b = peel(x['ch'][0]), peel(x['ch'][1])
            is_eps = [y.get('k') == 'Path' and strip_generics(y.get('def', '')).endswith('EPS') for y in (a, b)]
            if is_eps[0] == is_eps[1]:
                continue
            v = b if is_eps[0] else a
            env_ = acc._env_at(m, x, roles)
            g = norm(v, env_)
            i += 1
            cands = [_pop_var('_a'), _pop_var('_b')] if m.k.two else [_pop_var()]
            for j, r in enumerate(cands):
                jid = 'floor:%s#%d/%d' % (k.fn.qpath, i, j)
                jobs.append({'id': jid, 'poly': g, 'ref': r})
                meta.setdefault((k.fn.qpath, i), (k.fn, x, g, []))[3].append(jid)
    res = cas.compare(jobs)
    n = 0
    for (q, i), (fn, x, g, jids) in meta.items():
        n += 1
        verdicts = [res.get(j, (None, 'no result')) for j in jids]
        if any(v[0] for v in verdicts):
            run.ob('VAR.floor', fn, 'floor test #%d' % i, True, loc(x), 'the tested quantity is the population variance')
        elif all(v[0] is None for v in verdicts):
            run.unproven.append('VAR.floor %s #%d: CAS not decided (%s)' % (fn.name, i, verdicts[0][1]))
            run.ob('VAR.floor', fn, 'floor test #%d' % i, True, loc(x), 'not decided: %s' % verdicts[0][1], trivial=True)
        else:
            run.ob('VAR.floor', fn, 'floor test #%d' % i, False, loc(x),
                   'the quantity compared with EPS is %s, not the population variance (difference %s): the variance '
                   'reaches the square root / divisor untested' % (g.show()[:120], verdicts[0][1][:80]))
    return n


def _agg_roles(fn):
    """locals of a one-pass moment aggregation by role: the counting helper's result is `n`;
    a variable the helper's closure advances by X^k (X the element) is the raw k-th power
    sum.  Returns (names, index of the helper's let in the body)"""
    from aggrules import COUNT_HELPERS
    from facts import callee_is
    names, at = {}, None
    for i, st in enumerate(fn.hir.get('stmts', [])):
        if st['k'] != 'Let' or 'init' not in st or st['pat'].get('k') != 'Binding':
            continue
        init = peel(st['init'])
        if init.get('k') != 'MethodCall' or not callee_is(init, *COUNT_HELPERS):
            continue
        cl = [peel(a) for a in init['ch'] if peel(a).get('k') == 'Closure']
        if len(cl) != 1:
            continue
        names[st['pat']['local']] = 'n'
        at = i
        cl = cl[0]
        env = Env()
        for prm in cl.get('params', []):
            if prm.get('k') == 'Binding':
                env.name(prm['local'], 'X')
        body = peel(cl['ch'][0])
        stmts = list(body.get('stmts', []))
        if 'expr' in body:
            stmts.append({'k': 'Semi', 'e': body['expr']})
        for s_ in stmts:
            x = peel(s_.get('e', {})) if s_['k'] in ('Semi', 'Expr') else None
            if x is not None and x.get('k') in ('AssignOp', 'Assign') and \
                    peel(x['ch'][0]).get('res') == 'local':
                tg = peel(x['ch'][0])
                rhs = norm(x['ch'][1], env)
                me = Poly.atom(('sym', env.sym_of.get(tg['local'], tg['name'])))
                if x['k'] == 'Assign':
                    d = rhs - me
                elif x.get('op') == 'AddAssign':
                    d = rhs
                else:
                    continue
                mm = re.fullmatch(r'X(?:\^(\d))?', d.show())
                if mm:
                    names[tg['local']] = 'm%s' % (mm.group(1) or '1')
            else:
                read_block({'stmts': [s_]}, env)
    return names, at


NANP = Poly.atom(('sym', 'NAN'))


def _is_nan_poly(v):
    return v is not None and v == NANP


def _const_of(v):
    """the rational value of a constant polynomial, else None"""
    if v is None:
        return None
    for c in (0, 1, -1, 2, 3):
        if v == Poly.const(c):
            return c
    try:
        return v.const_value() if v.is_const() else None
    except AttributeError:
        return None


def _nrm(e, env):
    from acc import is_null_literal
    if is_null_literal(e):
        return NANP
    return norm(e, env)


def _atom(c, env, want):
    """alternatives (env', [description]) under which the atomic condition c is `want`; the
    conditions understood are null tests of a tracked local and its comparison with 0"""
    c = peel(c)

    def tracked(y):
        y = peel(y)
        return y.get('local') if y.get('k') == 'Path' and y.get('res') == 'local' else None

    def lit0(y):
        y = peel(y)
        return y.get('k') == 'Lit' and norm(y, Env()) == Poly.const(0)
    if c.get('k') == 'MethodCall' and c.get('method') in ('not_none', 'is_none', 'is_nan') and len(c['ch']) == 1:
        x = tracked(c['ch'][0])
        if x is not None:
            truth_is_none = (c['method'] != 'not_none') == want
            v = env.vals.get(x)
            if _is_nan_poly(v):
                if truth_is_none:
                    yield env, []
                return
            if v is not None and _const_of(v) is not None:
                if not truth_is_none:
                    yield env, []
                return
            e2 = Env(env)
            if truth_is_none:
                e2.vals[x] = NANP
            yield e2, ['%s%s' % ('' if want else '!', src(c))]
            return
    if c.get('k') == 'Binary' and c.get('op') in ('Ne', 'Eq'):
        for a, b in ((c['ch'][0], c['ch'][1]), (c['ch'][1], c['ch'][0])):
            x = tracked(a)
            if x is not None and lit0(b):
                want_zero = (c['op'] == 'Eq') == want
                v = env.vals.get(x)
                if _is_nan_poly(v):
                    if not want_zero:
                        yield env, []
                    return
                if v is not None and _const_of(v) is not None:
                    if (_const_of(v) == 0) == want_zero:
                        yield env, []
                    return
                e2 = Env(env)
                if want_zero:
                    e2.vals[x] = Poly.const(0)
                yield e2, ['%s%s' % ('' if want else '!', src(c))]
                return
    yield env, ['%s(%s)' % ('' if want else '!', src(c))]


def _cases(c, env, want):
    c = peel(c)
    if c.get('k') == 'Unary' and c.get('op') == 'Not':
        yield from _cases(c['ch'][0], env, not want)
        return
    if c.get('k') == 'Binary' and c.get('op') in ('And', 'BitAnd', 'Or', 'BitOr') and \
            (c.get('ty') or 'bool') == 'bool':
        a, b = c['ch']
        conj = c['op'] in ('And', 'BitAnd')
        if conj == want:        # both sides as wanted
            for e1, d1 in _cases(a, env, want):
                for e2, d2 in _cases(b, e1, want):
                    yield e2, d1 + d2
        else:                   # first side decides, or the first is the other way and the second decides
            for e1, d1 in _cases(a, env, want):
                yield e1, d1
            for e1, d1 in _cases(a, env, not want):
                for e2, d2 in _cases(b, e1, want):
                    yield e2, d1 + d2
        return
    yield from _atom(c, env, want)


def _run_expr(e, env, conds):
    """paths through an expression: (conds, env, value | None, returned)"""
    e = peel(e)
    k = e.get('k')
    if k == 'If' and peel(e['ch'][0]).get('k') != 'LetExpr':
        for want in (True, False):
            target = e['ch'][1] if want else (e['ch'][2] if len(e['ch']) > 2 else None)
            for env_b, d in _cases(e['ch'][0], env, want):
                if target is None:
                    yield conds + d, env_b, None, False
                else:
                    yield from _run_expr(target, env_b, conds + d)
        return
    if k == 'Block':
        yield from _run_stmts(e.get('stmts', []), e.get('expr'), Env(env), conds)
        return
    if k == 'Ret':
        yield conds, env, (_nrm(e['ch'][0], env) if e.get('ch') else None), True
        return
    if k in ('Assign', 'AssignOp'):
        e2 = Env(env)
        read_block({'stmts': [{'k': 'Semi', 'e': e}]}, e2)
        yield conds, e2, None, False
        return
    yield conds, env, _nrm(e, env), False


def _run_stmts(stmts, tail, env, conds):
    if not stmts:
        if tail is None:
            yield conds, env, None, False
        else:
            yield from _run_expr(tail, env, conds)
        return
    st, rest = stmts[0], stmts[1:]
    if st['k'] == 'Let' and 'init' in st and st['pat'].get('k') == 'Binding' and \
            peel(st['init']).get('k') in ('If', 'Block'):
        for c2, e2, v, ret in _run_expr(st['init'], env, conds):
            if ret:
                yield c2, e2, v, True
                continue
            e3 = Env(e2)
            if v is not None:
                e3.vals[st['pat']['local']] = v
                e3.killed.discard(st['pat']['local'])
            yield from _run_stmts(rest, tail, e3, c2)
        return
    x = peel(st.get('e', {})) if st['k'] in ('Semi', 'Expr') else None
    if x is not None and x.get('k') in ('If', 'Ret', 'Block'):
        for c2, e2, v, ret in _run_expr(x, env, conds):
            if ret:
                yield c2, e2, v, True
                continue
            yield from _run_stmts(rest, tail, e2, c2)
        return
    e2 = Env(env)
    read_block({'stmts': [st]}, e2)
    yield from _run_stmts(rest, tail, e2, conds)


def value_paths(fn, names):
    """every path through the body of a straight-line-with-branches function: (conditions, value
    as a polynomial over the role-named variables).  Null tests and comparisons with 0 of a
    variable whose value is known on the path are decided, the others fork and refine."""
    env = Env()
    for lid, nm in names.items():
        env.name(lid, nm)
    out = []
    for conds, e2, v, ret in _run_stmts(fn.hir.get('stmts', []), fn.hir.get('expr'), env, []):
        out.append((conds, v))
    return out


def check_aggs(run, F):
    """vskew / vkurt one-pass formulas (raw power sums normalised in place, then adjusted).
    Variables are found by role (the power sums by what the pass adds to them); the function body
    is evaluated path by path, so early returns, negated tests, nested or merged conditions and
    renamed or re-bound intermediates are all the same thing."""
    jobs, meta = [], {}
    for name in ('AggValidBasic::vskew', 'AggValidExt::vkurt'):
        fn = F.one(name)
        names, at = _agg_roles(fn)
        try:
            paths = value_paths(fn, names) if at is not None else []
        except (KeyError, IndexError, TypeError) as ex:
            paths = []
        vals = [(cs, v) for cs, v in paths if v is not None]
        main = [(cs, v) for cs, v in vals if not _is_nan_poly(v) and _const_of(v) is None]
        consts = sorted({str(_const_of(v)) for cs, v in vals if _const_of(v) is not None})
        if not vals or len(vals) != len(paths) or not main:
            run.ob('CAS.form', fn, '%s closed form' % fn.name, False, fn.loc(),
                   'shape not recognised: %d path(s), %d with a value, %d with a formula'
                   % (len(paths), len(vals), len(main)))
            continue
        # the degenerate branch yields 0 and stays 0: besides the formula and NaN the only value is 0
        run.ob('CAS.floor', fn, '%s degenerate branch' % fn.name, consts == ['0'], fn.loc(),
               'constant results %s over %d path(s); a floor value pushed through the adjustment would '
               'show up as a second formula' % (consts, len(vals)))
        ref = cas.ref_skew(s1='S_m1', s2='S_m2', s3='S_m3') if 'skew' in name else \
            cas.ref_kurt(s1='S_m1', s2='S_m2', s3='S_m3', s4='S_m4')
        seen = []
        for cs, v in main:
            if any(v == w for w in seen):
                continue
            seen.append(v)
            jid = '%s#%d' % (fn.qpath, len(seen))
            jobs.append({'id': jid, 'poly': v, 'ref': ref})
            meta[jid] = (fn, '%s closed form%s' % (fn.name, '' if len(seen) == 1 else ' (path variant %d: %s)'
                                                  % (len(seen), ' && '.join(cs)[:80])), fn.hir)
    res = cas.compare(jobs)
    for jid, (fn, key, e) in meta.items():
        eq, det = res.get(jid, (None, 'no result'))
        if eq is None:
            run.unproven.append('%s: CAS not decided (%s)' % (key, det))
            run.ob('CAS.form', fn, key, True, loc(e), 'not decided: %s' % det, trivial=True)
        else:
            run.ob('CAS.form', fn, key, eq, loc(e), 'identical to the reference over the reals' if eq
                   else 'differs from the reference; simplified difference: %s' % det)
    return len(jobs)
