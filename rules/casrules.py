"""CAS rule set (both tiers): result blocks of the rolling kernels and one-pass aggregates."""
import re
import cas
import acc
from algebra import Poly, Env, norm, read_block
from kernels import find_kernels, KernelModel
from facts import walk, peel, src, loc

RULE = ('the closed form in the result block equals the reference formula over the same power '
        'sums (algebraic identity over the reals, normalised by sympy; EPS floors are branch '
        'structure only)')


ROLE1 = {'1': 'n', 'NEW0': 'sum', 'NEW0^2': 'sum2', 'NEW0^3': 'sum3', 'NEW0^4': 'sum4', 'NEW0*n': 'sum_xt'}
ROLE2 = {'1': 'n', 'NEW0': 'sum_a', 'NEW1': 'sum_b', 'NEW0*NEW1': 'sum_ab', 'NEW0^2': 'sum2_a',
         'NEW1^2': 'sum2_b'}


def acc_roles(m):
    """accumulator local -> the reference formulas' name for what it accumulates (by its add
    update: count, power sums, cross sums, time-weighted sum), independent of source names"""
    m.classify()
    accs = m.accumulators()
    n_id = acc.count_acc(m)
    n_name = accs[n_id]['name'] if n_id is not None else None
    table = ROLE2 if m.k.two else ROLE1
    out = {}
    for lid, a in accs.items():
        for u in a['updates']:
            if u.block == 'add' and getattr(u, 'poly', None) is not None and u.op == 'AddAssign':
                d = u.poly.show()
                if n_name:
                    d = re.sub(r'\b%s\b' % re.escape(n_name), 'n', d)
                if d in table:
                    out[lid] = table[d]
    return out


def kernel_leaves(m):
    gf = acc.gate_form(m)
    n_id = acc.count_acc(m)
    roles = acc_roles(m)
    out = []
    for e, g in acc.result_leaves(m, n_id, gf['local']):
        if acc.is_null_literal(e):
            continue
        env_ = acc._env_at(m, e, roles)
        p = norm(e, env_)
        if p.is_const():
            continue        # variance floor / degenerate branch
        out.append((e, p))
    return out


FEATURE_REFS = {
    'mean': cas.ref_mean(), 'var': cas.ref_var(), 'std': cas.ref_std(), 'skew': cas.ref_skew(),
    'kurt': cas.ref_kurt(), 'wma': cas.ref_wma(), 'sum': 'S_sum',
}
TREND_REFS = {'ts_vreg_to': 'reg', 'ts_vtsf_to': 'tsf', 'ts_vreg_slope_to': 'slope',
              'ts_vreg_intercept_to': 'intercept', 'ts_vreg_resid_mean_to': 'resid_mean'}


def check_rolling(run, F, files):
    jobs = []
    meta = {}
    for k in find_kernels(F):
        if not any(k.fn.file.endswith(f) for f in files) or k.custom:
            continue
        m = KernelModel(k)
        name = k.name
        ref = None
        base = name[:-3] if name.endswith('_to') else name
        stat = base[4:] if base.startswith('ts_v') and base[3:] not in FEATURE_REFS else base[3:]
        if k.fn.file.endswith('features.rs'):
            stat = base[4:] if base[3:] not in FEATURE_REFS or base.startswith('ts_v') and base[4:] in FEATURE_REFS and base[3:] not in ('var',) else base[3:]
            if base in ('ts_var', 'ts_vvar'):
                stat = 'var'
            ref = FEATURE_REFS.get(stat)
        elif name in TREND_REFS:
            ref = cas.ref_trend(TREND_REFS[name])
        elif name == 'ts_vcov_to':
            ref = cas.ref_cov()
        elif name == 'ts_vcorr_to':
            ref = cas.ref_corr()
        elif name in ('ts_vregx_alpha_to', 'ts_vregx_beta_to'):
            a_, b_, _ = cas.regx()
            ref = a_ if 'alpha' in name else b_
        elif name == 'ts_vregx_all':
            a_, b_, sse = cas.regx()
            ref = [a_, b_, sse]
        if ref is None:
            continue
        leaves = kernel_leaves(m)
        refs = ref if isinstance(ref, list) else [ref]
        if len(leaves) != len(refs):
            run.ob('CAS.form', k.fn, '%s closed form' % name, False, k.fn.loc(),
                   '%d non-constant result leaf/leaves, expected %d' % (len(leaves), len(refs)))
            continue
        for i, ((e, p), r) in enumerate(zip(leaves, refs)):
            jid = '%s#%d' % (k.fn.qpath, i)
            jobs.append({'id': jid, 'poly': p, 'ref': r})
            meta[jid] = (k.fn, '%s closed form%s' % (name, (' #%d' % i) if len(refs) > 1 else ''), e, p)
    res = cas.compare(jobs)
    for jid, (fn, key, e, p) in meta.items():
        eq, det = res.get(jid, (None, 'no result'))
        if eq is None:
            run.unproven.append('%s: CAS not decided (%s)' % (key, det))
            run.ob('CAS.form', fn, key, True, loc(e), 'not decided: %s' % det, trivial=True)
        else:
            run.ob('CAS.form', fn, key, eq, loc(e),
                   'identical to the reference over the reals' if eq else
                   'differs from the reference; simplified difference: %s' % det)
    return len(jobs)


def _agg_roles(fn):
    """locals of a one-pass moment aggregation by role: the counting helper's result is `n`;
    a variable the helper's closure advances by X^k (X the element) is the raw k-th power
    sum.  Returns (names, index of the helper's let in the body)"""
    from aggrules import COUNT_HELPERS
    from facts import callee_is
    names, at = {}, None
    for i, st in enumerate(fn.hir.get('stmts', [])):
        if st['k'] != 'Let' or 'init' not in st or st['pat'].get('k') != 'Binding':
            continue
        init = peel(st['init'])
        if init.get('k') != 'MethodCall' or not callee_is(init, *COUNT_HELPERS):
            continue
        cl = [peel(a) for a in init['ch'] if peel(a).get('k') == 'Closure']
        if len(cl) != 1:
            continue
        names[st['pat']['local']] = 'n'
        at = i
        cl = cl[0]
        env = Env()
        for prm in cl.get('params', []):
            if prm.get('k') == 'Binding':
                env.name(prm['local'], 'X')
        body = peel(cl['ch'][0])
        stmts = list(body.get('stmts', []))
        if 'expr' in body:
            stmts.append({'k': 'Semi', 'e': body['expr']})
        for s_ in stmts:
            x = peel(s_.get('e', {})) if s_['k'] in ('Semi', 'Expr') else None
            if x is not None and x.get('k') in ('AssignOp', 'Assign') and \
                    peel(x['ch'][0]).get('res') == 'local':
                tg = peel(x['ch'][0])
                rhs = norm(x['ch'][1], env)
                me = Poly.atom(('sym', env.sym_of.get(tg['local'], tg['name'])))
                if x['k'] == 'Assign':
                    d = rhs - me
                elif x.get('op') == 'AddAssign':
                    d = rhs
                else:
                    continue
                mm = re.fullmatch(r'X(?:\^(\d))?', d.show())
                if mm:
                    names[tg['local']] = 'm%s' % (mm.group(1) or '1')
            else:
                read_block({'stmts': [s_]}, env)
    return names, at


def check_aggs(run, F):
    """vskew / vkurt one-pass formulas (raw power sums normalised in place, then adjusted).
    Variables are found by role: the power sums by what the pass adds to them, the result by
    being the function's value."""
    jobs, meta = [], {}
    for name in ('AggValidBasic::vskew', 'AggValidExt::vkurt'):
        fn = F.one(name)
        body = fn.hir
        stmts = body.get('stmts', [])
        names, at = _agg_roles(fn)
        tail = peel(body.get('expr', {}))
        res_local = tail.get('local') if tail.get('k') == 'Path' and tail.get('res') == 'local' else None
        idx = [i for i, st in enumerate(stmts) if st['k'] == 'Let' and st['pat'].get('k') == 'Binding'
               and st['pat'].get('local') == res_local and 'init' in st]
        ok_shape = len(idx) == 1 and at is not None and at < idx[0]
        final = None
        where = fn.hir
        if ok_shape:
            st = stmts[idx[0]]
            env = Env()
            for lid, nm in names.items():
                env.name(lid, nm)
            read_block({'stmts': stmts[:idx[0]]}, env)
            iff = peel(st['init'])
            main = peel(iff['ch'][1]) if iff.get('k') == 'If' else None
            inner = [y for y in (peel(main.get('expr', {})),) if y.get('k') == 'If'] if main else []
            if main is None or not inner:
                ok_shape = False
            else:
                read_block({'stmts': main.get('stmts', [])}, env)
                branch = peel(inner[0]['ch'][2])
                read_block({'stmts': branch.get('stmts', [])}, env)
                value = norm(branch['expr'], env)
                env.vals[res_local] = value
                env.killed.discard(res_local)
                # the adjustment `if res.not_none() && res != 0. { … }`
                adj = [peel(x.get('e', {})) for x in stmts[idx[0] + 1:] if x['k'] in ('Expr', 'Semi')]
                adj = [a for a in adj if a.get('k') == 'If' and
                       any(y.get('k') == 'Path' and y.get('local') == res_local for y in walk(a['ch'][0]))]
                if len(adj) != 1:
                    ok_shape = False
                else:
                    where = adj[0]
                    blk = peel(adj[0]['ch'][1])
                    if blk.get('k') in ('Assign', 'AssignOp'):
                        blk = {'k': 'Block', 'stmts': [{'k': 'Semi', 'e': blk}]}
                    read_block(blk, env)
                    if blk.get('expr', {}).get('k') in ('Assign', 'AssignOp'):
                        read_block({'stmts': [{'k': 'Semi', 'e': blk['expr']}]}, env)
                    final = env.vals.get(res_local)
        if not ok_shape or final is None:
            run.ob('CAS.form', fn, '%s closed form' % fn.name, False, fn.loc(), 'shape not recognised')
            continue
        ref = cas.ref_skew(s1='S_m1', s2='S_m2', s3='S_m3') if 'skew' in name else \
            cas.ref_kurt(s1='S_m1', s2='S_m2', s3='S_m3', s4='S_m4')
        jid = fn.qpath
        jobs.append({'id': jid, 'poly': final, 'ref': ref})
        meta[jid] = (fn, '%s closed form' % fn.name, where)
    res = cas.compare(jobs)
    for jid, (fn, key, e) in meta.items():
        eq, det = res.get(jid, (None, 'no result'))
        if eq is None:
            run.unproven.append('%s: CAS not decided (%s)' % (key, det))
            run.ob('CAS.form', fn, key, True, loc(e), 'not decided: %s' % det, trivial=True)
        else:
            run.ob('CAS.form', fn, key, eq, loc(e), 'identical to the reference over the reals' if eq
                   else 'differs from the reference; simplified difference: %s' % det)
    return len(jobs)
