"""ACC (window-state pairing) and GATE (min_periods gate) rules over KernelModel."""
from facts import (walk, walk_with_parents, children, callee_is, is_local, peel, src, loc,
                   _pat_binds, strip_generics)
from algebra import Poly, Env, norm, read_block
from kernels import KernelModel, rename_old_to_new, rename_guard, sym

RULES = {
    'ACC.pair': 'every incrementally updated accumulator has exactly one add update and one '
                'remove update, and the remove update is the exact inverse of the add update '
                '(count / power-sum / linear-weights / exponential class)',
    'ACC.guard': 'the remove update runs under the same null predicate on the expiring '
                 'element(s) as the add update on the incoming element(s)',
    'ACC.order': 'the window statistic reads each accumulator after its add update and before '
                 'its remove update',
    'ACC.exit': 'a kernel closure has a single exit after its remove half: an early `return` / `?` '
                'would skip the removal (or the addition) of an element the driver has already '
                'moved past',
    'ACC.nocapture': 'a remove/add kernel captures no data view: its only data inputs are the '
                     'driver-supplied removed and added elements',
    'GATE.form': 'effective min_periods = min_periods.unwrap_or(window/2) clamped to the window '
                 '(or the extrema family: window clamped to len first)',
    'GATE.dom': 'every non-null result of a kernel is control-dependent on count >= min_periods',
    'GATE.intrinsic': 'inside the gated region `n - j` cannot underflow and is not a zero '
                      'divisor: j is below the proven lower bound of n',
    'GATE.K': 'variance-type statistics clamp min_periods to at least 2, skewness 3, kurtosis 4',
}


def _where(m, node=None):
    if node is not None and node.get('sp'):
        return loc(node)
    return m.k.fn.loc()


def pre_env(m):
    """let-inlined values of the statements before the driver call, by variable name."""
    env = Env()
    by_name = {}
    body = m.k.fn.hir
    if body.get('k') != 'Block':
        return by_name
    for s in body.get('stmts', []):
        if s['k'] == 'Let' and 'init' in s and s['pat'].get('k') == 'Binding':
            ok = read_block({'stmts': [s]}, env)
            by_name[s['pat']['name']] = env.vals.get(s['pat']['local'])
    return by_name


def count_acc(m):
    """The local id of the validity counter: integer accumulator whose add update is += 1."""
    for lid, a in m.accumulators().items():
        for u in a['updates']:
            if u.block == 'add' and u.op == 'AddAssign' and u.poly == Poly.const(1):
                return lid
    return None


def check_acc(run, m, only_count=False):
    """only_count: restrict to the validity counter (what the min_periods gate reads)"""
    fn = m.k.fn
    m.classify()
    accs = m.accumulators()
    names = {a['name'] for a in accs.values()}
    n_id = count_acc(m)
    n_name = accs[n_id]['name'] if n_id is not None else None
    pre = None
    n_checked = 0

    def is_state(a):
        return isinstance(a, tuple) and len(a) == 2 and a[0] == 'sym' and a[1] in names

    for lid, a in sorted(accs.items(), key=lambda kv: kv[1]['name']):
        ups = a['updates']
        if all(u.op == 'Assign' for u in ups):
            continue    # cached-extreme class: C03 rules
        if only_count and lid != n_id:
            continue
        name = a['name']
        adds = [u for u in ups if u.block == 'add']
        rms = [u for u in ups if u.block == 'remove']
        n_checked += 1
        if len(adds) != 1 or len(rms) != 1:
            run.ob('ACC.pair', fn, 'accumulator `%s`: %d add / %d remove update(s)'
                   % (name, len(adds), len(rms)), False, _where(m, ups[0].node),
                   'updates: ' + '; '.join('%s: %s' % (u.block, src(u.node)) for u in ups))
            continue
        ad, rm = adds[0], rms[0]
        key = 'accumulator `%s`' % name
        detail = 'add: %s   remove: %s' % (src(ad.node), src(rm.node))
        if ad.op != 'AddAssign' or rm.op != 'SubAssign':
            run.ob('ACC.pair', fn, key + ': operators', False, _where(m, rm.node),
                   detail + '  (expected `+=` in the add block and `-=` in the remove block)')
            continue
        ap = ad.poly
        rp = rename_old_to_new(rm.poly)
        cls = None
        ok = False
        why = ''
        if not ap.mentions(is_state) and not rm.poly.mentions(is_state):
            cls = 'count' if ap == Poly.const(1) else 'power-sum'
            ok = (ap == rp)
            why = 'add delta %s, remove delta %s' % (ap.show(), rm.poly.show())
            if ok and cls == 'power-sum':
                # the delta must be a function of the element(s) only
                ok = ap.mentions(lambda x: isinstance(x, tuple) and len(x) == 2 and x[0] == 'sym'
                                 and str(x[1]).startswith('NEW'))
                if not ok:
                    why += ' (delta does not depend on the element)'
        elif n_name and ap == sym('NEW0') * sym(n_name):
            cls = 'linear-weights'
            # remove: -= S where S accumulates the plain element
            s_acc = [b for b in accs.values() if b['name'] != name and
                     any(u.block == 'add' and u.poly == sym('NEW0') for u in b['updates'])]
            ok = False
            why = 'expected `%s -= <sum of elements>` before that sum is reduced' % name
            for b in s_acc:
                if rm.poly == sym(b['name']):
                    b_rm = [u for u in b['updates'] if u.block == 'remove']
                    n_add = [u for u in accs[n_id]['updates'] if u.block == 'add']
                    cond_a = bool(b_rm) and rm.seq < min(u.seq for u in b_rm)
                    cond_b = bool(n_add) and max(u.seq for u in n_add) < ad.seq
                    ok = cond_a and cond_b
                    why = ('remove subtracts `%s` %s it is reduced; the weight `%s` is read %s '
                           'its increment' % (b['name'], 'before' if cond_a else 'AFTER', n_name,
                                              'after' if cond_b else 'BEFORE'))
        else:
            # exponential: q += v - A*q ; q -= v_rm * B^n with B = 1 - A, after n -= 1
            q = sym(name)
            rest = ap - sym('NEW0')
            cls = None
            atoms = [x for x in rest.atoms()]
            if rest.t and all(any(at == ('sym', name) for at, _ in k) for k in rest.t):
                # rest = -A*q
                A = None
                for x in rest.atoms():
                    if x != ('sym', name) and x[0] == 'sym':
                        A = x[1]
                if A is not None and rest == -(sym(A) * q):
                    cls = 'exponential'
                    if pre is None:
                        pre = pre_env(m)
                    ok = False
                    why = 'expected `%s -= v_rm * B.powi(%s)` with B = 1 - %s after `%s -= 1`' \
                          % (name, n_name, A, n_name)
                    for x in rm.poly.atoms():
                        if x[0] == 'fn' and x[1] == 'powi':
                            B = Poly(dict(x[2][0]))
                            E = Poly(dict(x[2][1]))
                            if n_name and E == sym(n_name) and len(B.atoms()) == 1:
                                bname = list(B.atoms())[0][1]
                                if rm.poly == sym('OLD0') * Poly.atom(x) and \
                                        pre.get(bname) is not None and pre.get(A) is not None and \
                                        pre[bname] == Poly.const(1) - pre[A]:
                                    n_rm = [u for u in accs[n_id]['updates'] if u.block == 'remove']
                                    ok = bool(n_rm) and max(u.seq for u in n_rm) < rm.seq
                                    why = 'decay base %s = 1 - %s; exponent read %s the decrement' \
                                          % (bname, A, 'after' if ok else 'BEFORE')
        if cls is None:
            run.ob('ACC.pair', fn, key + ': unclassified update', False, _where(m, ad.node),
                   detail + '  (not a count, power-sum, linear-weights or exponential update)')
            continue
        run.ob('ACC.pair', fn, key + ' [%s]' % cls, ok, _where(m, rm.node), detail + '   ' + why)
        # guard symmetry
        want = {'SOME(OLD)'} | {rename_guard(g) for g in ad.guards}
        run.ob('ACC.guard', fn, key, set(rm.guards) == want, _where(m, rm.node),
               'add guard %s  remove guard %s  (expected %s)'
               % (sorted(ad.guards), sorted(rm.guards), sorted(want)),
               trivial=(not ad.guards))
        # order of result reads
        upd_nodes = set()
        for u in ups:
            for x in walk(u.node):
                upd_nodes.add(id(x))
        all_upd_rhs = set()
        for u in m.updates:
            for x in walk(u.node):
                all_upd_rhs.add(id(x))
        bad = []
        nreads = 0
        for x in walk(m.body):
            if x.get('k') == 'Path' and x.get('res') == 'local' and x.get('local') == lid and \
                    id(x) not in all_upd_rhs:
                nreads += 1
                if not (ad.seq < x['_seq'] < rm.seq):
                    bad.append(x)
        run.ob('ACC.order', fn, key, not bad, _where(m, bad[0] if bad else ad.node),
               '%d result read(s) of `%s`; add update at seq %d, remove at seq %d%s'
               % (nreads, name, ad.seq, rm.seq,
                  ('; read outside (add, remove): ' + ', '.join(loc(b) for b in bad)) if bad else ''),
               trivial=(nreads == 0))
    # every call of the kernel must run both halves: no early exit from the closure
    if n_checked:
        # an exit is harmless only where nothing is left to do: every add update has run, no element
        # leaves the window on that path (or the leaving one is null) and the value returned is the
        # closure's own result
        import dtree as _dt

        def tails(e):
            # the values the closure ends with on its ordinary (non-returning) paths
            e = peel(e)
            if e.get('k') == 'Block':
                return tails(e['expr']) if 'expr' in e else []
            if e.get('k') == 'If' and len(e['ch']) > 2:
                return tails(e['ch'][1]) + tails(e['ch'][2])
            if e.get('k') == 'Ret':
                return []
            return [e]
        tail_vals = tails(m.body)
        tail = tail_vals[0] if tail_vals else None
        last_add = max([u.seq for u in m.updates if u.block == 'add'] or [0])
        exits = []
        for node, guards, seq in m.exits:
            fine = False
            if node.get('k') == 'Ret' and node.get('ch') and tail is not None and seq > last_add and \
                    ('NOT(SOME(OLD))' in guards or 'NOT(VALID(OLD0))' in guards):
                try:
                    en_r = _dt.env_at(m.body, node, {})
                    rv = _dt.canon(node['ch'][0], dict(en_r))
                    fine = all(rv == _dt.canon(t_, dict(_dt.env_at(m.body, t_, {}))) for t_ in tail_vals)
                except Exception:
                    fine = False
            if not fine:
                exits.append(node)
        run.ob('ACC.exit', fn, 'no early exit between the add and remove halves', not exits,
               _where(m, exits[0] if exits else m.cl),
               'the closure returns early at %s: on that path the expiring element is never '
               'removed (or the incoming one never added) while the driver still advances'
               % ', '.join(loc(x) for x in exits) if exits else
               ('single exit at the end of the closure' if not m.exits else
                '%d early exit(s), each after the add half, on a path where nothing leaves the window, '
                'returning the closure\'s own result' % len(m.exits)))
    # captures
    if not m.k.idx and not m.k.custom:
        param_ty = {}
        for p in fn.params:
            for b in _pat_binds(p):
                param_ty[b['local']] = (b['name'], b.get('ty', ''))
        offenders = []
        for c in m.cl.get('captures', []):
            if c['local'] in param_ty:
                nm, ty = param_ty[c['local']]
                if nm == 'self' or ty.startswith('&'):
                    offenders.append(nm)
        run.ob('ACC.nocapture', fn, 'closure captures', not offenders, _where(m, m.cl),
               'captured data views: %s' % offenders if offenders else
               'captures: %s' % sorted({c['place'] for c in m.cl.get('captures', [])}))
    return n_checked


# ------------------------------------------------------------------ GATE

_W = r'(window|max\(1, min\(self\.len\(\), window\)\)|min\(self\.len\(\), window\))'


def gate_form(m):
    """The effective min_periods the closure compares the count with, as a canonical
    expression of the parameters (helper lets inlined, min/max spelled one way).
    Returns dict(ok, clamp, K, local, win_clamped, node, src) or None."""
    import dtree
    import re
    fn = m.k.fn
    m.classify()
    n_id = count_acc(m)
    # the gate variable: the captured local the count is compared with
    mp_local = None
    for x in walk(m.body):
        if x.get('k') == 'Binary' and x['op'] in ('Ge', 'Le', 'Lt', 'Gt'):
            a, b = peel(x['ch'][0]), peel(x['ch'][1])
            for p_, q_ in ((a, b), (b, a)):
                if p_.get('res') == 'local' and p_.get('local') == n_id and q_.get('res') == 'local' \
                        and q_.get('local') in m.captured and q_.get('ty') == 'usize':
                    mp_local = q_['local']
    node = None
    for s_ in fn.hir.get('stmts', []):
        if s_['k'] == 'Let' and s_['pat'].get('k') == 'Binding' and 'init' in s_ and \
                (s_['pat']['local'] == mp_local or (mp_local is None and s_['pat']['name'] == 'min_periods')):
            node = s_['init']
            if mp_local is None:
                mp_local = s_['pat']['local']
    if mp_local is None or node is None:
        return None
    env0 = {b['local']: b['name'] for p in fn.params for b in _pat_binds(p)}
    en = dtree.env_at(fn.hir, m.k.call, env0)
    c = en.get(mp_local, '?')
    K = 0
    mk = re.fullmatch(r'max\((\d+), (.+)\)', c)
    body = c
    if mk:
        K = int(mk.group(1))
        body = mk.group(2)
    base = r'min_periods\.unwrap_or\(\(%s / 2\)\)' % _W
    m1 = re.fullmatch(base, body)
    m2 = re.fullmatch(r'min\(%s, %s\)' % (base, _W), body)
    ok = bool(m1 or m2)
    ws = set((m1 or m2).groups()) if ok else set()
    # one window expression throughout; the clamped spelling is the cmp.rs family's
    ok = ok and len(ws) == 1
    win_clamped = ok and list(ws)[0] != 'window'
    return {'ok': ok, 'clamp': bool(m2), 'K': K, 'local': mp_local, 'win_clamped': win_clamped,
            'node': node, 'src': c}


def gate_polarity(m, cond, n_id, mp_local):
    """+1 if cond (a conjunction) contains `n >= min_periods` (the then-branch is gated),
    -1 if cond is `n < min_periods`, its negated spelling, or a disjunction containing it (the
    else-branch is gated), 0 otherwise."""
    cond = peel(cond)
    k = cond.get('k')
    if k == 'Unary' and cond.get('op') == 'Not':
        return -gate_polarity(m, cond['ch'][0], n_id, mp_local)
    if k == 'Binary' and cond['op'] in ('And', 'BitAnd'):
        ps = [gate_polarity(m, c, n_id, mp_local) for c in cond['ch']]
        return 1 if 1 in ps else 0
    if k == 'Binary' and cond['op'] in ('Or', 'BitOr'):
        ps = [gate_polarity(m, c, n_id, mp_local) for c in cond['ch']]
        return -1 if -1 in ps else 0
    if k == 'Binary' and cond['op'] in ('Ge', 'Le', 'Lt', 'Gt'):
        a, b = peel(cond['ch'][0]), peel(cond['ch'][1])
        op = cond['op']
        if op in ('Le', 'Gt'):
            a, b = b, a
            op = {'Le': 'Ge', 'Gt': 'Lt'}[op]
        if a.get('res') == 'local' and a.get('local') == n_id and \
                b.get('res') == 'local' and b.get('local') == mp_local:
            return 1 if op == 'Ge' else -1
    return 0


def gate_preds(m, cond, n_id, mp_local):
    """True if cond (a conjunction) contains `n >= min_periods`."""
    return gate_polarity(m, cond, n_id, mp_local) == 1


def is_null_literal(e):
    e = peel(e)
    while e.get('k') == 'MethodCall' and callee_is(e, 'Cast::cast') and len(e['ch']) == 1:
        e = peel(e['ch'][0])
    if e.get('k') == 'Path' and e.get('def'):
        d = strip_generics(e['def'])
        return d.endswith('f64::NAN') or d.endswith('::None') or d.endswith('f32::NAN')
    if e.get('k') == 'Tup':
        return all(is_null_literal(x) for x in e['ch'])
    return False


def result_leaves(m, n_id, mp_local):
    """Leaves of the closure's result with a flag 'gated' (control-dependent on the gate)."""
    lets = {}
    assigns = {}

    def index(e, gated):
        k = e.get('k')
        if k == 'Block':
            for s in e.get('stmts', []):
                if s['k'] == 'Let':
                    for b in _pat_binds(s['pat']):
                        lets[b['local']] = (s, gated)
                    if 'init' in s:
                        index(s['init'], gated)
                else:
                    if 'e' in s:
                        index(s['e'], gated)
            if 'expr' in e:
                index(e['expr'], gated)
            return
        if k == 'If':
            c = e['ch']
            g = gate_polarity(m, c[0], n_id, mp_local)
            index(c[0], gated)
            index(c[1], gated or g == 1)
            if len(c) > 2:
                index(c[2], gated or g == -1)
            return
        if k == 'Assign':
            t = peel(e['ch'][0])
            if t.get('res') == 'local':
                assigns.setdefault(t['local'], []).append((e['ch'][1], gated))
        for c in children(e):
            index(c, gated)

    index(m.body, False)
    out = []
    seen = set()

    def leaves(e, gated, depth=0, proj=None):
        e = peel(e)
        k = e.get('k')
        if depth > 30:
            out.append((e, gated))
            return
        if k == 'Tup':
            if proj is not None and proj < len(e['ch']):
                leaves(e['ch'][proj], gated, depth + 1)
            else:
                for c in e['ch']:
                    leaves(c, gated, depth + 1)
            return
        if k == 'Block':
            if 'expr' in e:
                leaves(e['expr'], gated, depth + 1, proj)
            elif e.get('stmts') and e['stmts'][-1]['k'] in ('Semi', 'Expr') and \
                    peel(e['stmts'][-1]['e']).get('k') == 'Ret':
                leaves(peel(e['stmts'][-1]['e']), gated, depth + 1, proj)     # `{ return x; }`
            else:
                out.append((e, gated))
            return
        if k == 'If' and len(e['ch']) > 2:
            g = gate_polarity(m, e['ch'][0], n_id, mp_local)
            leaves(e['ch'][1], gated or g == 1, depth + 1, proj)
            leaves(e['ch'][2], gated or g == -1, depth + 1, proj)
            return
        if k == 'Match':
            for a in e['arms']:
                leaves(a['body'], gated, depth + 1, proj)
            return
        if k == 'Ret' and e.get('ch'):
            # an early `return x`: x is a result like any other
            leaves(e['ch'][0], gated, depth + 1, proj)
            return
        if k == 'MethodCall' and callee_is(e, 'Cast::cast', 'Number::f64') and len(e['ch']) == 1:
            leaves(e['ch'][0], gated, depth + 1)
            return
        if k == 'Field' and str(e.get('field', '')).isdigit():
            # `fit.0` of `let fit = if gate { (a, b, c) } else { (NAN, NAN, NAN) };`
            b_ = peel(e['ch'][0])
            if b_.get('k') == 'Path' and b_.get('res') == 'local' and b_['local'] in lets and \
                    b_['local'] not in m.captured and b_['local'] not in assigns:
                s, g0 = lets[b_['local']]
                if s['pat'].get('k') == 'Binding' and 'init' in s:
                    if (b_['local'], e['field']) in seen:
                        return
                    seen.add((b_['local'], e['field']))
                    leaves(s['init'], gated or g0, depth + 1, int(e['field']))
                    return
        if k == 'Path' and e.get('res') == 'local' and e['local'] in m.captured:
            # a captured immutable constant of the enclosing function (`let nan = f64::NAN;`)
            for s_ in m.k.pre:
                if s_.get('k') == 'Let' and s_['pat'].get('k') == 'Binding' and \
                        s_['pat']['local'] == e['local'] and not s_['pat'].get('mut') and 'init' in s_ \
                        and is_null_literal(s_['init']):
                    out.append((s_['init'], gated))
                    return
        if k == 'Path' and e.get('res') == 'local' and e['local'] not in m.captured:
            lid = e['local']
            if lid in seen:
                return
            seen.add(lid)
            if lid in lets and 'init' in lets[lid][0]:
                s, g0 = lets[lid]
                if s['pat'].get('k') == 'Binding':
                    leaves(s['init'], gated or g0, depth + 1)
                    # `let mut res = NAN; if gate { res = .. }`: the later assignments are
                    # results too (each under its own control dependence)
                    for rhs, g1 in assigns.get(lid, []):
                        leaves(rhs, gated or g1, depth + 1)
                    return
                if s['pat'].get('k') == 'Tuple':
                    pos = [i for i, c in enumerate(s['pat']['ch'])
                           if c.get('k') == 'Binding' and c['local'] == lid]
                    if pos:
                        leaves(s['init'], gated or g0, depth + 1, pos[0])
                        return
            if lid in assigns:
                for rhs, g0 in assigns[lid]:
                    leaves(rhs, gated or g0, depth + 1)
                return
        out.append((e, gated))

    leaves(m.body, False)
    return out


def check_gate(run, m, expect_K=None):
    fn = m.k.fn
    m.classify()
    gf = gate_form(m)
    n_id = count_acc(m)
    if gf is None:
        run.ob('GATE.form', fn, 'min_periods binding', False, fn.loc(),
               'no `let min_periods = …` before the driver call')
        return
    if m.k.custom:
        form_ok = gf['ok'] and gf['clamp']
    else:
        form_ok = gf['ok'] and (gf['clamp'] != gf['win_clamped'])
    run.ob('GATE.form', fn, 'min_periods binding', form_ok, loc(gf['node']),
           '`%s`%s' % (gf['src'], ' after `let window = min(self.len(), window)`'
                       if gf['win_clamped'] else ''))
    if expect_K is not None:
        run.ob('GATE.K', fn, 'intrinsic minimum %d' % expect_K, gf['K'] >= expect_K,
               loc(gf['node']), '`%s` clamps to at least %d' % (gf['src'], gf['K']))
    if n_id is None or m.k.custom:
        return gf
    # dominance of non-null results
    lv = result_leaves(m, n_id, gf['local'])
    bad = [e for e, g in lv if not g and not is_null_literal(e)]
    nn = [e for e, g in lv if not is_null_literal(e)]
    run.ob('GATE.dom', fn, 'non-null results gated', not bad and len(nn) > 0,
           loc(bad[0]) if bad else fn.loc(),
           '%d result leaf/leaves, %d non-null, %d not under `n >= min_periods`%s'
           % (len(lv), len(nn), len(bad), (': ' + src(bad[0])[:120]) if bad else ''))
    # intrinsic minimum
    n_name = m.accumulators()[n_id]['name']
    adds = [u for u in m.accumulators()[n_id]['updates'] if u.block == 'add']
    own_updates = [u.node for u in m.accumulators()[n_id]['updates']]
    for e, parents in walk_with_parents(m.body):
        if e.get('k') == 'Binary' and e['op'] == 'Sub' and e.get('ty') == 'usize':
            a, b = peel(e['ch'][0]), peel(e['ch'][1])
            if any(p_ is un for p_ in parents for un in own_updates):
                continue          # `n = n - 1` is the count's own remove update (ACC.pair)
            if a.get('res') == 'local' and a.get('local') == n_id and b.get('k') == 'Lit':
                j = int(b['v'])
                gated = False
                in_add = False
                divisor = False
                child = e
                for p in reversed(parents):
                    if p.get('k') == 'If' and len(p['ch']) >= 3 and p['ch'][2] is child and \
                            gate_polarity(m, p['ch'][0], n_id, gf['local']) == -1:
                        gated = True
                    if p.get('k') == 'If' and len(p['ch']) >= 2 and p['ch'][1] is child:
                        if gate_preds(m, p['ch'][0], n_id, gf['local']):
                            gated = True
                        pr = m.preds(p['ch'][0])
                        if any(x.startswith('VALID(NEW') for x in pr) and adds and \
                                adds[0].seq < e['_seq']:
                            in_add = True
                    if p.get('k') == 'Binary' and p['op'] == 'Div' and p['ch'][1] is child:
                        divisor = True
                    if p.get('k') == 'Binary' and p['op'] == 'Div' and p['ch'][0] is child:
                        pass
                    child = p
                LB = max(gf['K'] if gated else 0, 1 if in_add else 0)
                ok = j <= LB if not divisor else j < LB
                key = '`%s - %d`%s' % (n_name, j, ' as divisor' if divisor else '')
                # audited idiom: zscore's (n-1) divisor is reached only under var > EPS,
                # and a single observation has var == 0
                audited = (divisor and j == 1 and LB == 1 and
                           any(p.get('k') == 'If' and 'EPS' in src(p['ch'][0]) and
                               '>' in src(p['ch'][0]) for p in parents))
                run.ob('GATE.intrinsic', fn, key, ok or audited, loc(e),
                       'lower bound of %s here is %d (gate %s, clamp K=%d%s)%s'
                       % (n_name, LB, 'yes' if gated else 'NO', gf['K'],
                          ', inside add block' if in_add else '',
                          '; audited: guarded by var > EPS, one observation has zero variance'
                          if audited and not ok else ''))
    return gf


# ------------------------------------------------------------------ SIB plain <-> valid

def kernel_signature(m):
    """Normal-form summary of a remove/add kernel with null guards erased and accumulator
    names replaced by what they accumulate: canonical accumulator -> (add delta, remove delta),
    gate (K, clamp), and the non-null result leaves as polynomials over canonical names."""
    from algebra import norm as _norm
    m.classify()
    raw = {}
    for a in m.accumulators().values():
        adds = [u for u in a['updates'] if u.block == 'add']
        rms = [u for u in a['updates'] if u.block == 'remove']
        raw[a['name']] = (adds, rms)
    names = set(raw)

    def is_state(x):
        return isinstance(x, tuple) and len(x) == 2 and x[0] == 'sym' and x[1] in names
    canon = {}
    # pass 1: accumulators whose add delta is a function of the element only
    for nm, (adds, rms) in raw.items():
        if len(adds) == 1 and adds[0].op == 'AddAssign' and not adds[0].poly.mentions(is_state):
            d = adds[0].poly.show()
            canon[nm] = 'count' if d == '1' else 'Σ[%s]' % d

    # captured scalars computed before the driver call (`alpha = 2 / window`, `oma = 1 - alpha`)
    # are named by their definition over the parameters, not by their source name
    defs = {}
    for nm_, v_ in pre_env(m).items():
        if v_ is not None and nm_ not in names and v_.show() != nm_:
            defs[nm_] = 'DEF[%s]' % v_.show()

    def ren(p):
        return p.subst(lambda x: ('sym', canon.get(x[1], defs.get(x[1], x[1]))) if x[0] == 'sym' else x)
    # pass 2: state-dependent deltas (linear weights, exponential), named after their add delta
    for nm, (adds, rms) in raw.items():
        if nm not in canon and len(adds) == 1 and adds[0].op == 'AddAssign':
            tmp = dict(canon)
            tmp[nm] = 'SELF'
            d = adds[0].poly.subst(lambda x: ('sym', tmp.get(x[1], defs.get(x[1], x[1]))) if x[0] == 'sym' else x)
            canon[nm] = 'Σ[%s]' % d.show()
    for nm in raw:
        canon.setdefault(nm, nm)
    accs = {}
    for nm, (adds, rms) in raw.items():
        accs[canon[nm]] = (tuple(sorted(ren(u.poly).show() for u in adds)),
                           tuple(sorted(ren(u.poly).show() for u in rms)))
    gf = gate_form(m)
    n_id = count_acc(m)
    leaves = []
    if gf and n_id is not None:
        for e, g in result_leaves(m, n_id, gf['local']):
            if is_null_literal(e):
                continue
            env = _env_at(m, e)
            leaves.append(ren(_norm(e, env)).show())
    return {'accs': accs, 'K': gf['K'] if gf else None, 'clamp': gf['clamp'] if gf else None,
            'leaves': sorted(leaves)}


def _env_at(m, node, names=None):
    """Env holding the straight-line lets (and compound assignments to closure-local
    variables) that precede `node` in its enclosing blocks.  `names`: local id -> symbol name."""
    env = Env()
    for lid, nm in (names or {}).items():
        env.name(lid, nm)
    m._name_tags(env)

    def rec(e):
        if e is node:
            return True
        if e.get('k') == 'Block':
            saved_v, saved_k = dict(env.vals), set(env.killed)
            for s in e.get('stmts', []):
                x = s.get('init') or s.get('e')
                if x is not None and (x is node or any(y is node for y in walk(x))):
                    return True if x is node else rec(x)
                read_block({'stmts': [s]}, env)
                m._name_tags(env)
            if 'expr' in e and (e['expr'] is node or any(y is node for y in walk(e['expr']))):
                return True if e['expr'] is node else rec(e['expr'])
            env.vals.clear()
            env.vals.update(saved_v)
            return False
        for c in children(e):
            if c is node or any(y is node for y in walk(c)):
                return True if c is node else rec(c)
        return False
    rec(m.body)
    return env


def check_plain_valid(run, mp, mv):
    """mp: model of ts_X, mv: model of ts_vX."""
    sp, sv = kernel_signature(mp), kernel_signature(mv)
    fn = mp.k.fn
    key = '%s ~ %s' % (mp.k.name, mv.k.name)
    diffs = []
    if sp['accs'] != sv['accs']:
        diffs.append('accumulator updates differ: %s vs %s' % (sp['accs'], sv['accs']))
    if (sp['K'], sp['clamp']) != (sv['K'], sv['clamp']):
        diffs.append('gate clamps differ: K=%s/%s' % (sp['K'], sv['K']))
    if sp['leaves'] != sv['leaves']:
        diffs.append('result closed forms differ: %s vs %s' % (sp['leaves'], sv['leaves']))
    run.ob('SIB.plain-valid', fn, key, not diffs, fn.loc(),
           '; '.join(diffs) if diffs else 'same accumulators, gate and closed form (%d leaf/leaves) '
           'once the null guards are erased' % len(sp['leaves']))


RULES['SIB.plain-valid'] = ('the plain kernel ts_X and the null-aware kernel ts_vX are the same '
                            'state machine and closed form once the null guards are erased')


def check_len_free(run, k):
    """LEN.free: nothing the kernel closure reads is computed from the length of the series
    (the length is information about positions to the right of the cursor).  The window handed to
    the driver and the statements before the call may use it (clamping the window, the default
    min_periods); the closure may not see a value derived from it, except the gate threshold
    when it comes from an omitted min_periods."""
    from facts import walk, peel
    tainted = {}          # local id -> how
    def mentions_len(e):
        for x in walk(e):
            if x.get('k') == 'MethodCall' and x.get('method') == 'len' and \
                    peel(x['ch'][0]).get('k') == 'Path' and peel(x['ch'][0]).get('name') == 'self':
                return 'self.len()'
            if x.get('k') == 'Path' and x.get('res') == 'local' and x.get('local') in tainted:
                return tainted[x['local']]
        return None
    gate_ok = set()
    for st in k.pre:
        if st['k'] != 'Let' or 'init' not in st:
            continue
        why = mentions_len(st['init'])
        if not why:
            continue
        for b in _binds(st['pat']):
            tainted[b['local']] = '%s <- %s' % (b['name'], why)
            # `min_periods.unwrap_or(<len-derived default>)`: only the omitted case is
            # length-dependent, which the property leaves out for short series
            init = peel(st['init'])
            x = init
            while x.get('k') == 'MethodCall' and x.get('method') in ('min', 'max', 'min_with', 'max_with'):
                x = peel(x['ch'][0])
            if x.get('k') == 'MethodCall' and x.get('method') in ('unwrap_or', 'unwrap_or_else', 'map_or') and \
                    not mentions_len(x['ch'][0]) and init is x:
                gate_ok.add(b['local'])
    inner = {b['local'] for x in walk(k.closure) if x.get('k') == 'Block' for st in x.get('stmts', [])
             if st['k'] == 'Let' for b in _binds(st['pat'])}
    used = {}
    from facts import walk_with_parents
    # a position test `end >= window - 1` (is the window full?) is what the driver itself
    # decides from the same window: comparing the clamped window with the position is allowed
    pos_params = {b['local'] for p_ in k.closure.get('params', [])[:2] for b in _binds(p_)} if k.idx else set()
    for x, parents in walk_with_parents(k.closure):
        if x.get('k') == 'Path' and x.get('res') == 'local' and x.get('local') in tainted and \
                x['local'] not in inner and x['local'] not in gate_ok:
            par = next((p_ for p_ in reversed(parents) if peel(p_) is not x and
                        p_.get('k') not in ('Cast', 'Paren', 'DropTemps')), None)
            if par is not None and par.get('k') == 'Binary' and par.get('op') in ('Ge', 'Gt', 'Le', 'Lt', 'Eq', 'Ne'):
                other = [peel(c) for c in par['ch'] if peel(c) is not x]
                if other and other[0].get('k') == 'Path' and other[0].get('local') in pos_params:
                    continue
            used[x['local']] = tainted[x['local']]
    run.ob('LEN.free', k.fn, 'closure reads no length-derived value', not used, loc(k.closure),
           'length-derived captures: %s' % sorted(used.values()) if used else
           'captures derive from the parameters only (%d length-derived local(s) stay outside the closure)'
           % len(tainted))


def _binds(p):
    from facts import _pat_binds
    return _pat_binds(p)
