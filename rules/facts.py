"""Loading and querying the JSON facts written by the driver."""
import json
import os
import re

from extract import facts_dir


def strip_generics(p):
    """`std::option::Option::<T>::unwrap_or` -> `std::option::Option::unwrap_or`"""
    out = []
    depth = 0
    i = 0
    while i < len(p):
        c = p[i]
        if c == '<':
            # path generic args are introduced by `::<`
            if depth > 0 or p[max(0, i - 2):i] == '::':
                depth += 1
                if depth == 1 and out[-2:] == [':', ':']:
                    out = out[:-2]
                i += 1
                continue
        if depth > 0:
            if c == '<':
                depth += 1
            elif c == '>':
                depth -= 1
            i += 1
            continue
        out.append(c)
        i += 1
    return ''.join(out)


_REFNAMES = None


def _refnames():
    """parameter names of the pinned tree, per function item (rules/refnames.json, written by
    bin/pin-params).  A parameter is identified by its position; it is *spelled* with the name it had
    in the pinned tree, so that renaming a parameter changes no table, key or symbol."""
    global _REFNAMES
    if _REFNAMES is None:
        _REFNAMES = {}
        f = os.path.join(os.path.dirname(os.path.abspath(__file__)), 'refnames.json')
        if os.path.exists(f) and not os.environ.get('VERIF_NO_REFNAMES'):
            with open(f) as fh:
                _REFNAMES = json.load(fh)
    return _REFNAMES


def refname_key(crate, d):
    return '%s::%s|%s' % (crate, d['path'], d.get('impl_trait_ref') or d.get('impl_self') or '')


class Fn:
    def _apply_refnames(self):
        if self.kind == 'Closure' or self.hir is None:
            return
        want = _refnames().get(refname_key(self.crate, self.d))
        if not want:
            return
        binds = [b for p in self.params for b in _pat_binds(p)]
        if len(binds) != len(want) or [b['name'] for b in binds] == want:
            return
        new = {b['local']: w for b, w in zip(binds, want) if b['name'] != w}
        taken = {b['name'] for b in binds} | set(want)
        # a local of the body that already carries a reference name would be confused with the
        # parameter by name-reading rules: give it a fresh spelling
        clash = {}
        for x in walk(self.hir):
            for b in (_pat_binds(x['pat']) if isinstance(x.get('pat'), dict) else []) + \
                    [b for q in x.get('params', []) if isinstance(q, dict) for b in _pat_binds(q)]:
                if b['local'] not in new and b['name'] in set(new.values()):
                    clash[b['local']] = b['name'] + '_'
        new.update(clash)
        for b in binds:
            if b['local'] in new:
                b['name'] = new[b['local']]
        for x in walk(self.hir):
            if x.get('k') == 'Path' and x.get('res') == 'local' and x.get('local') in new:
                x['name'] = new[x['local']]
            pats = ([x['pat']] if isinstance(x.get('pat'), dict) else []) + \
                [q for q in x.get('params', []) if isinstance(q, dict)]
            for s_ in x.get('stmts', []) if isinstance(x.get('stmts'), list) else []:
                if isinstance(s_, dict) and isinstance(s_.get('pat'), dict):
                    pats.append(s_['pat'])
            for a_ in x.get('arms', []) if isinstance(x.get('arms'), list) else []:
                if isinstance(a_, dict) and isinstance(a_.get('pat'), dict):
                    pats.append(a_['pat'])
            for q in pats:
                for b in _pat_binds(q):
                    if b.get('local') in new:
                        b['name'] = new[b['local']]

    def __init__(self, crate, d):
        self.crate = crate
        self.d = d
        self.path = d['path']
        self.qpath = crate + '::' + d['path']
        self.kind = d['kind']
        self.name = d.get('name') or d['path'].rsplit('::', 1)[-1]
        self.span = d['span']
        self.exp = d.get('exp', False)
        self.callsite = d.get('callsite')
        self.hir = normalize(d.get('hir')) if d.get('hir') else None
        self.mir = d.get('mir')
        self.params = [_norm_pat(p) for p in d.get('params', [])]
        self.container = d.get('container')
        self.trait = d.get('trait')
        self.impl_self = d.get('impl_self')
        self.impl_trait = d.get('impl_trait')
        self.unsafe = d.get('unsafe', False)
        self.vis = d.get('vis')
        self._apply_refnames()

    @property
    def file(self):
        return self.span.split(':')[0]

    @property
    def line(self):
        return int(self.span.split(':')[1])

    def loc(self):
        return '%s:%s' % (self.file, self.line)

    def __repr__(self):
        return '<Fn %s>' % self.qpath


class Facts:
    def __init__(self, config, repo=None, directory=None):
        self.config = config
        self.dir = directory or facts_dir(config, repo)
        self.crates = {}
        self.fns = []
        self.impls = []
        self.consts = []
        for f in sorted(os.listdir(self.dir)):
            if not f.endswith('.json'):
                continue
            with open(os.path.join(self.dir, f)) as fh:
                d = json.load(fh)
            c = d['crate']
            self.crates[c] = d
            for fn in d['fns']:
                self.fns.append(Fn(c, fn))
            for im in d['impls']:
                im['crate'] = c
                self.impls.append(im)
            for k in d['consts']:
                k['crate'] = c
                self.consts.append(k)
        self.by_qpath = {}
        for fn in self.fns:
            self.by_qpath.setdefault(fn.qpath, []).append(fn)

    def find(self, suffix, kind=None, file=None):
        """All fns whose qualified path ends with `suffix` (on a `::` boundary)."""
        out = []
        for fn in self.fns:
            if kind and fn.kind != kind:
                continue
            if file and not fn.file.endswith(file):
                continue
            q = fn.qpath
            if q == suffix or q.endswith('::' + suffix):
                out.append(fn)
        return out

    def one(self, suffix, **kw):
        r = self.find(suffix, **kw)
        if len(r) != 1:
            raise KeyError('expected exactly one fn matching %r, found %d: %s'
                           % (suffix, len(r), [f.qpath for f in r][:5]))
        return r[0]

    def in_file(self, file_suffix, closures=False):
        return [f for f in self.fns if f.file.endswith(file_suffix)
                and (closures or f.kind != 'Closure')]

    def const_value(self, suffix):
        for k in self.consts:
            p = k['crate'] + '::' + k['path']
            if p.endswith('::' + suffix) or p == suffix:
                if 'value' in k:
                    return int(k['value'])
        return None


# ---------------------------------------------------------------- HIR helpers

def children(e):
    """Direct sub-expressions in evaluation order (including block statements)."""
    if not isinstance(e, dict):
        return
    k = e.get('k')
    if k == 'Block':
        for s in e.get('stmts', []):
            if s['k'] == 'Let':
                if 'init' in s:
                    yield s['init']
                if 'els' in s:
                    yield s['els']
            elif s['k'] in ('Expr', 'Semi'):
                yield s['e']
        if 'expr' in e:
            yield e['expr']
        return
    for c in e.get('ch', []):
        yield c
    if k == 'Match':
        for a in e.get('arms', []):
            if 'guard' in a:
                yield a['guard']
            yield a['body']
    if k == 'Struct':
        for f in e.get('fields', []):
            yield f['e']
        if 'base' in e:
            yield e['base']


def walk(e):
    """Pre-order walk over all sub-expressions (descends into closures)."""
    if not isinstance(e, dict):
        return
    yield e
    for c in children(e):
        yield from walk(c)


def walk_with_parents(e, parents=()):
    yield e, parents
    for c in children(e):
        yield from walk_with_parents(c, parents + (e,))


def callee(e):
    c = e.get('callee')
    return strip_generics(c) if c else None


def callee_is(e, *suffixes):
    """True if e is a call / method call whose resolved callee path ends with one of
    the suffixes (matched on `::` boundaries, generic arguments stripped)."""
    if e.get('k') not in ('Call', 'MethodCall', 'Binary', 'Unary', 'AssignOp', 'Index'):
        return False
    c = callee(e)
    if not c:
        return False
    for s in suffixes:
        if c == s or c.endswith('::' + s):
            return True
    return False


def resolved_is(e, *suffixes):
    c = e.get('resolved')
    if not c:
        return False
    c = strip_generics(c)
    return any(c == s or c.endswith('::' + s) for s in suffixes)


def args(e):
    """Arguments of a call (without the callee expression / with the receiver first
    for method calls)."""
    if e['k'] == 'Call':
        return e['ch'][1:]
    return e['ch']


def is_local(e, name=None):
    return e.get('k') == 'Path' and e.get('res') == 'local' and (name is None or e.get('name') == name)


def peel(e):
    """Strip reference / deref / single-expression blocks / casts-to-same wrappers."""
    while True:
        k = e.get('k')
        if k == 'AddrOf':
            e = e['ch'][0]
        elif k == 'Unary' and e.get('op') == 'Deref':
            e = e['ch'][0]
        elif k == 'Block' and not e.get('stmts') and 'expr' in e:
            e = e['expr']
        elif k == 'MethodCall' and callee_is(e, 'Clone::clone') and False:
            e = e['ch'][0]
        else:
            return e


def line_of(e):
    sp = e.get('sp', '')
    m = re.match(r'(.*?):(\d+):(\d+)-', sp)
    if m:
        return m.group(1), int(m.group(2))
    return sp, 0


def loc(e):
    f, l = line_of(e)
    return '%s:%d' % (f, l)


_BIN = {'Add': '+', 'Sub': '-', 'Mul': '*', 'Div': '/', 'Rem': '%', 'And': '&&', 'Or': '||',
        'BitAnd': '&', 'BitOr': '|', 'BitXor': '^', 'Shl': '<<', 'Shr': '>>', 'Eq': '==',
        'Lt': '<', 'Le': '<=', 'Ne': '!=', 'Ge': '>=', 'Gt': '>',
        'AddAssign': '+=', 'SubAssign': '-=', 'MulAssign': '*=', 'DivAssign': '/=',
        'RemAssign': '%=', 'BitAndAssign': '&=', 'BitOrAssign': '|=', 'BitXorAssign': '^=',
        'ShlAssign': '<<=', 'ShrAssign': '>>='}


def pat_src(p):
    k = p.get('k')
    if k == 'Binding':
        return p['name']
    if k == 'Wild':
        return '_'
    if k in ('Tuple',):
        return '(' + ', '.join(pat_src(c) for c in p.get('ch', [])) + ')'
    if k == 'TupleStruct':
        return short(p.get('def', '?')) + '(' + ', '.join(pat_src(c) for c in p.get('ch', [])) + ')'
    if k == 'Path' or k == 'Struct':
        return short(p.get('def', '?'))
    if k == 'Or':
        return ' | '.join(pat_src(c) for c in p.get('ch', []))
    if k == 'Expr':
        e = p['e']
        if e['k'] == 'Lit':
            return ('-' if e.get('neg') else '') + e['v']
        return short(e.get('def', '?'))
    if k in ('Ref', 'Deref'):
        return '&' + pat_src(p['ch'][0])
    if k == 'Range':
        return 'range'
    return k or '?'


def short(path):
    """Last two segments of a def path (Type::Variant / Trait::method)."""
    p = strip_generics(path)
    segs = p.split('::')
    return '::'.join(segs[-2:]) if len(segs) >= 2 else p


def src(e, depth=0):
    """Canonical Rust-like rendering of an expression (for keys and reports)."""
    if not isinstance(e, dict):
        return '?'
    if depth > 40:
        return '…'
    k = e.get('k')
    d = depth + 1
    if k == 'Lit':
        return e['v']
    if k == 'Path':
        if e.get('res') == 'local':
            return e['name']
        return short(e.get('def', e.get('res', '?')))
    if k == 'MethodCall':
        a = e['ch']
        return '%s.%s(%s)' % (src(a[0], d), e['method'], ', '.join(src(x, d) for x in a[1:]))
    if k == 'Call':
        a = e['ch']
        return '%s(%s)' % (src(a[0], d), ', '.join(src(x, d) for x in a[1:]))
    if k == 'Binary':
        return '(%s %s %s)' % (src(e['ch'][0], d), _BIN.get(e['op'], e['op']), src(e['ch'][1], d))
    if k == 'AssignOp':
        return '%s %s %s' % (src(e['ch'][0], d), _BIN.get(e['op'], e['op']), src(e['ch'][1], d))
    if k == 'Assign':
        return '%s = %s' % (src(e['ch'][0], d), src(e['ch'][1], d))
    if k == 'Unary':
        op = {'Neg': '-', 'Not': '!', 'Deref': '*'}.get(e['op'], e['op'])
        return '%s%s' % (op, src(e['ch'][0], d))
    if k == 'Cast':
        return '(%s as %s)' % (src(e['ch'][0], d), e.get('ty', '?'))
    if k == 'AddrOf':
        return '&' + src(e['ch'][0], d)
    if k == 'Field':
        return '%s.%s' % (src(e['ch'][0], d), e['field'])
    if k == 'Index':
        return '%s[%s]' % (src(e['ch'][0], d), src(e['ch'][1], d))
    if k == 'Tup':
        return '(' + ', '.join(src(x, d) for x in e['ch']) + ')'
    if k == 'Array':
        return '[' + ', '.join(src(x, d) for x in e['ch']) + ']'
    if k == 'If':
        c = e['ch']
        s = 'if %s { %s }' % (src(c[0], d), src(c[1], d))
        if len(c) > 2:
            s += ' else { %s }' % src(c[2], d)
        return s
    if k == 'LetExpr':
        return 'let %s = %s' % (pat_src(e['pat']), src(e['ch'][0], d))
    if k == 'Block':
        parts = []
        for s in e.get('stmts', []):
            if s['k'] == 'Let':
                parts.append('let %s%s;' % (pat_src(s['pat']),
                                            ' = ' + src(s['init'], d) if 'init' in s else ''))
            elif s['k'] in ('Expr', 'Semi'):
                parts.append(src(s['e'], d) + ';')
        if 'expr' in e:
            parts.append(src(e['expr'], d))
        return ' '.join(parts)
    if k == 'Closure':
        return '|%s| %s' % (', '.join(pat_src(p) for p in e.get('params', [])), src(e['ch'][0], d))
    if k == 'Match' and try_operand(e) is not None:
        return src(try_operand(e), d) + '?'
    if k == 'Match':
        arms = ', '.join('%s%s => %s' % (pat_src(a['pat']),
                                         ' if ' + src(a['guard'], d) if 'guard' in a else '',
                                         src(a['body'], d)) for a in e['arms'])
        return 'match %s { %s }' % (src(e['ch'][0], d), arms)
    if k == 'Ret':
        return 'return ' + ' '.join(src(x, d) for x in e.get('ch', []))
    if k == 'Break':
        return 'break'
    if k == 'Continue':
        return 'continue'
    if k == 'Loop':
        return 'loop { %s }' % src(e['ch'][0], d)
    if k == 'Struct':
        return '%s { %s }' % (short(e.get('def', '?')),
                              ', '.join('%s: %s' % (f['field'], src(f['e'], d)) for f in e['fields']))
    if k == 'Repeat':
        return '[%s; _]' % src(e['ch'][0], d)
    if k == 'For':
        return 'for %s in %s { %s }' % (pat_src(e['pat']), src(e['ch'][0], d), src(e['ch'][1], d))
    if k == 'While':
        return 'while %s { %s }' % (src(e['ch'][0], d), src(e['ch'][1], d))
    if k == 'Range':
        return '%s..%s%s' % (src(e['ch'][0], d), '=' if e['incl'] else '', src(e['ch'][1], d))
    if k == 'MultiAssign':
        return '(%s) = %s' % (', '.join(src(t, d) for t in e['targets']), src(e['ch'][0], d))
    return k or '?'


# ------------------------------------------------------------ normalisation

def _is_path_def(e, *suffixes):
    if e.get('k') != 'Path' or 'def' not in e:
        return False
    d = strip_generics(e['def'])
    return any(d == s or d.endswith('::' + s) for s in suffixes)


def _norm_pat(p):
    """`Some(i)` produced by desugaring is a Struct pattern with field "0"."""
    if not isinstance(p, dict):
        return p
    if p.get('k') == 'Struct' and p.get('fields') and all(f['field'].isdigit() for f in p['fields']):
        q = dict(p)
        q['k'] = 'TupleStruct'
        q['ch'] = [_norm_pat(f['pat']) for f in p['fields']]
        q.pop('fields')
        return q
    q = dict(p)
    if 'ch' in q:
        q['ch'] = [_norm_pat(c) for c in q['ch']]
    if 'sub' in q:
        q['sub'] = _norm_pat(q['sub'])
    if 'fields' in q:
        q['fields'] = [dict(f, pat=_norm_pat(f['pat'])) for f in q['fields']]
    return q


_INT_TYS = {'i8', 'i16', 'i32', 'i64', 'i128', 'isize', 'u8', 'u16', 'u32', 'u64', 'u128', 'usize'}
_ORD_OP = {'Less': 'Lt', 'Equal': 'Eq', 'Greater': 'Gt'}


def _ord_variants(p):
    """the Ordering variants a pattern accepts, '*' for a catch-all, None if it is something else"""
    k = p.get('k')
    if k in ('Wild',):
        return '*'
    if k == 'Binding' and not p.get('ch'):
        return '*'
    if k == 'Expr':
        p = p.get('e', {})
        k = p.get('k')
    if k == 'Path' and strip_generics(p.get('def') or '').startswith(('std::cmp::Ordering::', 'core::cmp::Ordering::')):
        return [strip_generics(p['def']).split('::')[-1]]
    if k == 'Or':
        out = []
        for q in p.get('ch', []):
            v = _ord_variants(q)
            if v is None or v == '*':
                return v
            out += v
        return out
    return None


def _effect_free(x):
    """a place, a literal, or a cast / field / reference of one: evaluating it early or not at all
    is unobservable"""
    x = peel(x)
    if x.get('k') in ('Lit',) or (x.get('k') == 'Path'):
        return True
    if x.get('k') in ('Cast', 'Field', 'AddrOf', 'Unary') and x.get('ch'):
        return _effect_free(x['ch'][0])
    return False


def _pure_arith(x):
    """arithmetic over locals and literals that cannot panic or have effects when evaluated
    eagerly (`window / 2`: division only by a non-zero literal; no overflow-capable operator)"""
    x = peel(x)
    if x.get('k') in ('Lit',) or (x.get('k') == 'Path' and x.get('res') == 'local'):
        return True
    if x.get('k') == 'Binary' and x.get('op') in ('Div', 'Rem', 'Shr'):
        d = peel(x['ch'][1])
        return _pure_arith(x['ch'][0]) and d.get('k') == 'Lit' and str(d.get('v', '0')).strip('0.') != ''
    return False


def _plain_place(x):
    x = peel(x)
    while x.get('k') == 'Field':
        x = peel(x['ch'][0])
    return x.get('k') == 'Path' and x.get('res') == 'local'


def _lit_match_chain(e):
    scr = e['ch'][0]
    ty = peel(scr).get('ty', '')
    if not _plain_place(scr):
        return None
    is_int = ty in ('i8', 'i16', 'i32', 'i64', 'isize', 'u8', 'u16', 'u32', 'u64', 'usize')
    arms = e['arms']
    kinds = []
    for a in arms:
        p = a['pat']
        if p.get('k') == 'Expr' and p['e'].get('k') == 'Lit' and 'guard' not in a:
            kinds.append('lit')
        elif p.get('k') == 'Binding' and not p.get('ch') and not p.get('mut'):
            kinds.append('bind')
        elif p.get('k') == 'Wild':
            kinds.append('wild')
        else:
            return None
    if 'guard' in arms[-1] or kinds[-1] == 'lit' or 'lit' not in kinds and 'bind' not in kinds:
        return None
    if 'lit' in kinds and not is_int:
        return None             # literal arms are compared with `==` only for the integer types

    def blk(x, lets=()):
        if not lets and x.get('k') == 'Block':
            return x
        return {'k': 'Block', 'stmts': list(lets), 'expr': x, 'sp': x.get('sp'), 'ty': x.get('ty')}

    root = peel(scr)
    while root.get('k') == 'Field':
        root = peel(root['ch'][0])
    stable = root.get('local') not in _assigned_locals({'k': 'Tup', 'ch': [x for a in arms for x in
                                                                                        [a['body']] + ([a['guard']] if 'guard' in a else [])]})

    def build(i):
        a, kd = arms[i], kinds[i]
        last = i == len(arms) - 1
        lets = []
        if kd == 'bind' and stable:
            # the arm's name for the scrutinee is the scrutinee itself
            a = dict(a)
            a['body'] = _subst_local(a['body'], a['pat']['local'], scr, True)
            if 'guard' in a:
                a['guard'] = _subst_local(a['guard'], a['pat']['local'], scr, True)
        elif kd == 'bind':
            lets = [{'k': 'Let', 'pat': a['pat'], 'init': scr, 'sp': a['pat'].get('sp')}]
        if kd == 'lit':
            lit = dict(a['pat']['e'])
            if lit.get('neg'):
                lit = {'k': 'Unary', 'op': 'Neg', 'ty': ty, 'ch': [{'k': 'Lit', 'v': lit['v'], 'ty': ty}]}
            cond = {'k': 'Binary', 'op': 'Eq', 'ty': 'bool', 'ch': [scr, lit], 'sp': a['pat'].get('sp')}
        elif 'guard' in a:
            cond = a['guard']
        else:
            cond = None
        if cond is None or last:
            return blk(a['body'], lets)
        iff = {'k': 'If', 'ty': e.get('ty'), 'sp': e.get('sp'), 'ch': [cond, blk(a['body']), build(i + 1)]}
        return blk(iff, lets) if lets else iff
    out = build(0)
    if out.get('k') == 'If':
        out['id'] = e.get('id')
    return out


def _int_cmp_match(e):
    scr = peel(e['ch'][0])
    if scr.get('k') != 'MethodCall' or scr.get('method') != 'cmp' or not callee_is(scr, 'Ord::cmp') or \
            (scr.get('targs') or ['?'])[0] not in _INT_TYS or len(scr['ch']) != 2:
        return None
    a, b = scr['ch'][0], scr['ch'][1]
    if peel(b).get('k') == 'AddrOf':
        b = peel(b)['ch'][0]
    arms = e.get('arms', [])
    if not arms or any(x.get('guard') for x in arms):
        return None
    vs = [_ord_variants(x['pat']) for x in arms]
    if any(v is None for v in vs):
        return None

    def rel(v):
        c = None
        for name in v:
            r = {'k': 'Binary', 'op': _ORD_OP[name], 'ch': [a, b], 'ty': 'bool', 'sp': scr.get('sp')}
            c = r if c is None else {'k': 'Binary', 'op': 'Or', 'ch': [c, r], 'ty': 'bool', 'sp': scr.get('sp')}
        return c
    out = arms[-1]['body']
    for x, v in zip(reversed(arms[:-1]), reversed(vs[:-1])):
        if v == '*':
            out = x['body']
            continue
        out = {'k': 'If', 'ch': [rel(v), x['body'], out], 'ty': e.get('ty'), 'sp': e.get('sp'), 'id': e.get('id')}
    if e.get('adj') and isinstance(out, dict):
        out = dict(out)
        out.setdefault('adj', e['adj'])
    return out


def _assigned_locals(x):
    out = set()
    for n in walk(x):
        if n.get('k') in ('Assign', 'AssignOp'):
            for t in walk(n['ch'][0]):
                if t.get('k') == 'Path' and t.get('res') == 'local':
                    out.add(t['local'])
    return out


def _subst_local(x, lid, repl, deep=False):
    """x with every read of local `lid` replaced by `repl` (not descending into closures unless
    `deep`)"""
    if isinstance(x, list):
        return [_subst_local(y, lid, repl, deep) for y in x]
    if not isinstance(x, dict):
        return x
    if x.get('k') == 'Path' and x.get('res') == 'local' and x.get('local') == lid:
        return repl
    if x.get('k') == 'Closure' and not deep:
        return x
    return {key: (_subst_local(v, lid, repl, deep) if isinstance(v, (dict, list)) and key not in ('targs', 'adj', 'pat', 'params')
                  else v) for key, v in x.items()}


def _inline_bool_lets(blk):
    stmts = list(blk['stmts'])
    tail = blk.get('expr')
    changed = False
    for i, st in enumerate(stmts):
        if st.get('k') != 'Let' or 'init' not in st or st['pat'].get('k') != 'Binding' or \
                st['pat'].get('mut') or st['pat'].get('ty') != 'bool':
            continue
        lid = st['pat']['local']
        init = st['init']
        if any(n.get('k') in ('Closure', 'Assign', 'AssignOp', 'Ret') for n in walk(init)):
            continue
        reads = {n['local'] for n in walk(init) if n.get('k') == 'Path' and n.get('res') == 'local'}
        dirty = set()
        items = [(j, stmts[j]) for j in range(i + 1, len(stmts))] + ([('tail', tail)] if tail is not None else [])
        for j, it in items:
            node = it.get('e') if isinstance(j, int) and it.get('k') in ('Semi', 'Expr') else \
                (it.get('init') if isinstance(j, int) and it.get('k') == 'Let' else (it if j == 'tail' else None))
            if node is not None and not (reads & dirty):
                pn = peel(node)
                tgt = None
                if pn.get('k') in ('If', 'Match') and pn.get('ch'):
                    tgt = 0
                if tgt is not None and any(n.get('k') == 'Path' and n.get('res') == 'local' and n.get('local') == lid
                                           for n in walk(pn['ch'][0])) and pn['ch'][0].get('k') != 'LetExpr':
                    new_pn = dict(pn)
                    new_pn['ch'] = [_subst_local(pn['ch'][0], lid, init)] + list(pn['ch'][1:])
                    if j == 'tail':
                        tail = new_pn
                    elif it.get('k') == 'Let':
                        stmts[j] = dict(it, init=new_pn)
                    else:
                        stmts[j] = dict(it, e=new_pn)
                    changed = True
                    it = stmts[j] if isinstance(j, int) else tail
            dirty |= _assigned_locals(it if isinstance(it, dict) else {})
    if not changed:
        return blk
    out = dict(blk)
    out['stmts'] = stmts
    if tail is not None:
        out['expr'] = tail
    return out


def _only_break(b):
    """a block that does nothing but `break` (no label, no value)"""
    b = peel(b)
    if b.get('k') == 'Break':
        return not b.get('ch') and not b.get('label')
    if b.get('k') != 'Block':
        return False
    items = [st.get('e') for st in b.get('stmts', []) if st.get('k') in ('Semi', 'Expr')]
    if len(items) != len(b.get('stmts', [])):
        return False
    if 'expr' in b:
        items.append(b['expr'])
    return len(items) == 1 and _only_break(items[0]) if items and peel(items[0]).get('k') == 'Break' else False


def normalize(e):
    """Re-sugar `for`, `while`, ranges and destructuring assignments (returns a new tree)."""
    if isinstance(e, list):
        return [normalize(x) for x in e]
    if not isinstance(e, dict):
        return e
    k = e.get('k')
    # statements / arms / fields are dicts too: recurse generically first
    out = {}
    for key, v in e.items():
        if key in ('pat',):
            out[key] = _norm_pat(v)
        elif key == 'params':
            out[key] = [_norm_pat(p) for p in v]
        elif isinstance(v, (dict, list)) and key not in ('targs', 'captures', 'adj'):
            out[key] = normalize(v)
        else:
            out[key] = v
    e = out
    # for loops
    if k == 'Match' and e.get('src') == 'ForLoopDesugar' and len(e.get('arms', [])) == 1:
        it = e['ch'][0]
        if it.get('k') == 'Call' and callee_is(it, 'IntoIterator::into_iter'):
            it = it['ch'][1]
        if peel(it).get('k') == 'MethodCall' and callee_is(peel(it), 'IntoIterator::into_iter') and \
                len(peel(it)['ch']) == 1:
            it = peel(it)['ch'][0]            # `for x in v.into_iter()` is `for x in v`
        lp = e['arms'][0]['body']
        try:
            inner = lp['ch'][0]['stmts'][0]['e']
            some_arm = [a for a in inner['arms'] if a['pat'].get('k') == 'TupleStruct'][0]
            return {'k': 'For', 'pat': some_arm['pat']['ch'][0], 'ch': [it, some_arm['body']],
                    'sp': e.get('sp'), 'id': e.get('id'), 'ty': '()',
                    **({'exp': True, 'csp': e.get('csp')} if e.get('exp') else {})}
        except (KeyError, IndexError):
            return e
    # while loops
    if k == 'Loop' and e.get('src') == 'While':
        try:
            blk = e['ch'][0]
            iff = blk['expr'] if 'expr' in blk else blk['stmts'][0]['e']
            if iff['k'] == 'If':
                return {'k': 'While', 'ch': [iff['ch'][0], iff['ch'][1]], 'sp': e.get('sp'),
                        'id': e.get('id'), 'ty': '()'}
        except (KeyError, IndexError):
            pass
        return e
    # `Trait::m(recv, args..)` / `Type::m(recv, args..)` of a method is `recv.m(args..)`
    if k == 'Call' and e.get('has_self') and len(e.get('ch', [])) >= 2 and e.get('callee') and \
            not strip_generics(e['callee']).endswith(('Try::branch', 'FromResidual::from_residual')):
        recv = e['ch'][1]
        out_ = {kk: vv for kk, vv in e.items() if kk not in ('k', 'ch', 'has_self', 'callee_res', 'callee_name',
                                                           'callee_local')}
        out_.update({'k': 'MethodCall', 'method': strip_generics(e['callee']).split('::')[-1],
                     'ch': [recv] + list(e['ch'][2:]), 'recv_ty': recv.get('ty'), 'ufcs': True})
        return out_
    # a boolean-valued `if a { b } else { c }` over pure operands is `(a && b) || (!a && c)`
    if k == 'If' and e.get('ty') == 'bool' and len(e.get('ch', [])) == 3 and \
            peel(e['ch'][0]).get('k') != 'LetExpr':
        def pure(x):
            return not any(n.get('k') in ('Assign', 'AssignOp', 'Closure', 'Ret', 'Break', 'Continue', 'Loop',
                                          'While', 'For', 'Let', 'LetExpr') or
                           (n.get('k') == 'Match' and 'TryDesugar' in n.get('src', '')) for n in walk(x))

        def single(x):
            x = peel(x)
            while x.get('k') == 'Block' and not x.get('stmts') and 'expr' in x:
                x = peel(x['expr'])
            return x if x.get('k') != 'Block' else None
        a, b, c = e['ch'][0], single(e['ch'][1]), single(e['ch'][2])
        if b is not None and c is not None and pure(a) and pure(b) and pure(c) and \
                not (b.get('k') == 'Lit' and c.get('k') == 'Lit'):
            def lit(x):
                return x.get('v') if x.get('k') == 'Lit' and x.get('v') in ('true', 'false') else None

            def bop(op, x, y):
                return {'k': 'Binary', 'op': op, 'ch': [x, y], 'ty': 'bool', 'sp': e.get('sp')}
            nota = {'k': 'Unary', 'op': 'Not', 'ch': [a], 'ty': 'bool', 'sp': e.get('sp')}
            if lit(b) == 'true':
                return bop('Or', a, c)
            if lit(c) == 'true':
                return bop('Or', nota, b)
            if lit(b) == 'false':
                return bop('And', nota, c)
            if lit(c) == 'false':
                return bop('And', a, b)
    # `match a.cmp(&b) { Less => X, Equal => Y, Greater => Z }` on integers is an if-chain on
    # `a < b`, `a == b`, `a > b` (arms in order; the last arm takes what is left)
    if k == 'Match' and e.get('src') in (None, 'Normal'):
        r = _int_cmp_match(e)
        if r is not None:
            return r
    # `loop { if c { break; } rest }` is `while !c { rest }`
    if k == 'Loop' and e.get('src') != 'While':
        blk = e['ch'][0] if e.get('ch') else {}
        stmts = blk.get('stmts', []) if isinstance(blk, dict) else []
        if stmts and stmts[0].get('k') in ('Semi', 'Expr'):
            iff = peel(stmts[0]['e'])
            if iff.get('k') == 'If' and len(iff['ch']) == 2 and _only_break(iff['ch'][1]):
                cond = {'k': 'Unary', 'op': 'Not', 'ch': [iff['ch'][0]], 'ty': 'bool', 'sp': iff.get('sp'),
                        'id': iff.get('id')}
                body = dict(blk)
                body['stmts'] = stmts[1:]
                return {'k': 'While', 'ch': [cond, body], 'sp': e.get('sp'), 'id': e.get('id'), 'ty': '()'}
        return e
    # ranges
    if k == 'Struct' and e.get('def') and strip_generics(e['def']).endswith('ops::Range') \
            and len(e.get('fields', [])) == 2:
        fs = {f['field']: f['e'] for f in e['fields']}
        hi = peel(fs['end'])
        if hi.get('k') == 'Binary' and hi.get('op') == 'Add' and peel(hi['ch'][1]).get('k') == 'Lit' and \
                peel(hi['ch'][1]).get('v') == '1' and 'usize' in (hi.get('ty') or 'usize'):
            # `a..b + 1` over indices is `a..=b`
            return {'k': 'Range', 'incl': True, 'ch': [fs['start'], hi['ch'][0]], 'sp': e.get('sp'),
                    'id': e.get('id'), 'ty': e.get('ty'), 'from_plus_one': True}
        return {'k': 'Range', 'incl': False, 'ch': [fs['start'], fs['end']], 'sp': e.get('sp'),
                'id': e.get('id'), 'ty': e.get('ty')}
    if k == 'Call' and callee_is(e, 'RangeInclusive::new'):
        return {'k': 'Range', 'incl': True, 'ch': [e['ch'][1], e['ch'][2]], 'sp': e.get('sp'),
                'id': e.get('id'), 'ty': e.get('ty')}
    # `match r { Ok(v) => v, Err(e) => return Err(e) }` is `r?` (same error type)
    if k == 'Match' and not e.get('src', '').endswith('Desugar') and len(e.get('arms', [])) == 2 and \
            not any('guard' in a for a in e['arms']):
        def _ctor(p, nm):
            return p.get('k') == 'TupleStruct' and strip_generics(p.get('def', '')).endswith('::' + nm) and \
                len(p.get('ch', [])) == 1 and p['ch'][0].get('k') == 'Binding'
        okarm = [a for a in e['arms'] if _ctor(a['pat'], 'Ok')]
        errarm = [a for a in e['arms'] if _ctor(a['pat'], 'Err')]
        if len(okarm) == 1 and len(errarm) == 1:
            ob, eb = peel(okarm[0]['body']), peel(errarm[0]['body'])
            if eb.get('k') == 'Block' and len(eb.get('stmts', [])) == 1 and 'expr' not in eb:
                eb = peel(eb['stmts'][0].get('e', {}))
            ret = eb if eb.get('k') == 'Ret' and eb.get('ch') else None
            rv = peel(ret['ch'][0]) if ret else {}
            if ob.get('k') == 'Path' and ob.get('local') == okarm[0]['pat']['ch'][0].get('local') and \
                    rv.get('k') == 'Call' and strip_generics(rv.get('callee', '')).endswith('::Err') and \
                    len(rv['ch']) == 2 and peel(rv['ch'][1]).get('local') == errarm[0]['pat']['ch'][0].get('local'):
                return {'k': 'Match', 'src': 'TryDesugar', 'ch': [e['ch'][0]], 'arms': e['arms'],
                        'sp': e.get('sp'), 'id': e.get('id'), 'ty': e.get('ty'), 'manual_try': True}
    # `match o { Some(v) => v, None => return Err(E) }` is `o.ok_or_else(|| E)?` (same error type)
    if k == 'Match' and not e.get('src', '').endswith('Desugar') and len(e.get('arms', [])) == 2 and \
            not any('guard' in a for a in e['arms']):
        somearm = [a for a in e['arms'] if a['pat'].get('k') == 'TupleStruct' and
                   strip_generics(a['pat'].get('def', '')).endswith('::Some') and len(a['pat'].get('ch', [])) == 1 and
                   a['pat']['ch'][0].get('k') == 'Binding']
        nonearm = [a for a in e['arms'] if (a['pat'].get('k') in ('Path', 'Expr', 'Struct') and
                                            pat_src(a['pat']).endswith('None')) or a['pat'].get('k') == 'Wild']
        if len(somearm) == 1 and len(nonearm) == 1 and somearm[0] is not nonearm[0]:
            sb, nb = peel(somearm[0]['body']), peel(nonearm[0]['body'])
            while nb.get('k') == 'Block' and not nb.get('stmts') and 'expr' in nb:
                nb = peel(nb['expr'])
            if nb.get('k') == 'Block' and len(nb.get('stmts', [])) == 1 and 'expr' not in nb:
                nb = peel(nb['stmts'][0].get('e', {}))
            rv = peel(nb['ch'][0]) if nb.get('k') == 'Ret' and nb.get('ch') else {}
            if sb.get('k') == 'Path' and sb.get('local') == somearm[0]['pat']['ch'][0].get('local') and \
                    rv.get('k') == 'Call' and strip_generics(rv.get('callee', '')).endswith('Err') and len(rv['ch']) == 2:
                thunk = {'k': 'Closure', 'params': [], 'captures': [], 'ch': [rv['ch'][1]], 'sp': rv.get('sp'),
                         'ty': 'closure'}
                call = {'k': 'MethodCall', 'method': 'ok_or_else', 'callee': 'std::option::Option::<T>::ok_or_else',
                        'ch': [e['ch'][0], thunk], 'sp': e.get('sp'), 'ty': 'std::result::Result'}
                return {'k': 'Match', 'src': 'TryDesugar', 'ch': [call], 'arms': [], 'sp': e.get('sp'),
                        'id': e.get('id'), 'ty': e.get('ty'), 'manual_try': True}
    # `match c { true => A, false => B }` (second arm possibly `_`) is `if c { A } else { B }`
    if k == 'Match' and not e.get('src', '').endswith('Desugar') and len(e.get('arms', [])) == 2 and \
            not any('guard' in a for a in e['arms']):
        l0, l1 = pat_src(e['arms'][0]['pat']), pat_src(e['arms'][1]['pat'])
        pick = (0, 1) if l0 == 'true' and l1 in ('false', '_') else (1, 0) if l0 == 'false' and l1 in ('true', '_') else None
        if pick is not None:
            def blk_(x):
                return x if x.get('k') == 'Block' else {'k': 'Block', 'stmts': [], 'expr': x,
                                                        'sp': x.get('sp'), 'ty': x.get('ty')}
            return {'k': 'If', 'ch': [e['ch'][0], blk_(e['arms'][pick[0]]['body']), blk_(e['arms'][pick[1]]['body'])],
                    'sp': e.get('sp'), 'id': e.get('id'), 'ty': e.get('ty')}
    # `match s { 0 => A, m if g(m) => B, m => C }` over a plain place `s`: an if-chain in arm order
    # (first-match semantics made explicit); a binding arm binds the scrutinee
    if k == 'Match' and not e.get('src', '').endswith('Desugar') and len(e.get('arms', [])) >= 2:
        r = _lit_match_chain(e)
        if r is not None:
            return r
    # `c.then(|| x)` is `if c { Some(x) } else { None }`; so is `c.then_some(x)` for an x without effects
    if k == 'MethodCall' and e.get('method') in ('then', 'then_some') and len(e.get('ch', [])) == 2 and \
            (callee_is(e, 'bool::then') and peel(e['ch'][1]).get('k') == 'Closure' and
             not peel(e['ch'][1]).get('params') or
             callee_is(e, 'bool::then_some') and _effect_free(e['ch'][1])):
        x_ = peel(e['ch'][1])['ch'][0] if e['method'] == 'then' else e['ch'][1]
        ty_ = e.get('ty')
        inner_ty = x_.get('ty')
        some_ = {'k': 'Call', 'ty': ty_, 'callee_res': 'Ctor(Variant, Fn)', 'callee': 'std::prelude::v1::Some',
                 'targs': [inner_ty], 'sp': e.get('sp'),
                 'ch': [{'k': 'Path', 'ty': 'fn', 'res': 'Ctor(Variant, Fn)', 'def': 'std::prelude::v1::Some',
                         'targs': [inner_ty], 'sp': e.get('sp')}, x_]}
        none_ = {'k': 'Path', 'ty': ty_, 'res': 'Ctor(Variant, Const)', 'def': 'std::prelude::v1::None',
                 'targs': [inner_ty], 'sp': e.get('sp')}
        return {'k': 'If', 'ty': ty_, 'sp': e.get('sp'), 'id': e.get('id'),
                'ch': [e['ch'][0], {'k': 'Block', 'ty': ty_, 'stmts': [], 'expr': some_, 'sp': e.get('sp')},
                       {'k': 'Block', 'ty': ty_, 'stmts': [], 'expr': none_, 'sp': e.get('sp')}]}
    # `o.unwrap_or_else(|| d)` is `o.unwrap_or(d)` when d is a literal or panic-free arithmetic on locals
    if k == 'MethodCall' and e.get('method') == 'unwrap_or_else' and len(e.get('ch', [])) == 2 and \
            callee_is(e, 'Option::unwrap_or_else'):
        c_ = peel(e['ch'][1])
        if c_.get('k') == 'Closure' and not c_.get('params'):
            b_ = peel(c_['ch'][0])
            while b_.get('k') == 'Block' and not b_.get('stmts') and 'expr' in b_:
                b_ = peel(b_['expr'])
            if _pure_arith(b_):
                return {'k': 'MethodCall', 'method': 'unwrap_or', 'callee': 'std::option::Option::<T>::unwrap_or',
                        'ch': [e['ch'][0], b_], 'sp': e.get('sp'), 'id': e.get('id'), 'ty': e.get('ty')}
    # `o.map_or(d, |x| x)` is `o.unwrap_or(d)`
    if k == 'MethodCall' and e.get('method') == 'map_or' and len(e.get('ch', [])) == 3 and \
            callee_is(e, 'Option::map_or'):
        c_ = peel(e['ch'][2])
        if c_.get('k') == 'Closure' and len(c_.get('params', [])) == 1 and c_['params'][0].get('k') == 'Binding':
            b_ = peel(c_['ch'][0])
            while b_.get('k') == 'Block' and not b_.get('stmts') and 'expr' in b_:
                b_ = peel(b_['expr'])
            if b_.get('k') == 'Path' and b_.get('res') == 'local' and b_.get('local') == c_['params'][0]['local']:
                return {'k': 'MethodCall', 'method': 'unwrap_or',
                        'callee': 'std::option::Option::<T>::unwrap_or', 'ch': [e['ch'][0], e['ch'][1]],
                        'sp': e.get('sp'), 'id': e.get('id'), 'ty': e.get('ty')}
    # `match o { Some(p) => A, None => B }` is `if let Some(p) = o { A } else { B }`
    if k == 'Match' and not e.get('src', '').endswith('Desugar') and len(e.get('arms', [])) == 2 and \
            not any('guard' in a for a in e['arms']):
        def _is_some(p):
            return p.get('k') == 'TupleStruct' and strip_generics(p.get('def', '')).endswith('::Some')

        def _is_none(p):
            return (p.get('k') in ('Path', 'Expr', 'Struct') and pat_src(p).endswith('None')) or p.get('k') == 'Wild'
        a0, a1 = e['arms']
        some, none = (a0, a1) if _is_some(a0['pat']) and _is_none(a1['pat']) else \
            (a1, a0) if _is_some(a1['pat']) and _is_none(a0['pat']) and a0['pat'].get('k') != 'Wild' else (None, None)
        if some is not None:
            le = {'k': 'LetExpr', 'pat': some['pat'], 'ch': [e['ch'][0]], 'sp': e.get('sp'), 'ty': 'bool'}
            sb, nb = some['body'], none['body']
            # `Some(v) => v, None => d`  is  o.unwrap_or(d) for a literal / plain default
            inner = some['pat']['ch'][0] if len(some['pat'].get('ch', [])) == 1 else {}
            psb, pnb = peel(sb), peel(nb)
            if inner.get('k') == 'Binding' and psb.get('k') == 'Path' and psb.get('local') == inner.get('local') \
                    and (pnb.get('k') in ('Lit', 'Path') or _pure_arith(pnb) or
                         (pnb.get('k') == 'Call' and len(pnb.get('ch', [])) == 1)):
                return {'k': 'MethodCall', 'method': 'unwrap_or',
                        'callee': 'std::option::Option::<T>::unwrap_or', 'ch': [e['ch'][0], nb],
                        'sp': e.get('sp'), 'id': e.get('id'), 'ty': e.get('ty')}

            def blk(x):
                return x if x.get('k') == 'Block' else {'k': 'Block', 'stmts': [], 'expr': x,
                                                        'sp': x.get('sp'), 'ty': x.get('ty')}
            nbb = blk(nb)
            empty_else = nbb.get('k') == 'Block' and not nbb.get('stmts') and \
                ('expr' not in nbb or (peel(nbb['expr']).get('k') == 'Tup' and not peel(nbb['expr']).get('ch')))
            return {'k': 'If', 'ch': [le, blk(sb)] + ([] if empty_else and e.get('ty') == '()' else [nbb]),
                    'sp': e.get('sp'), 'id': e.get('id'), 'ty': e.get('ty')}
    # `match o { Some(p) if g => A, _ => B }` is `if let Some(p) = o { if g { A } else { B } } else { B }`
    if k == 'Match' and not e.get('src', '').endswith('Desugar') and len(e.get('arms', [])) == 2 and \
            'guard' in e['arms'][0] and 'guard' not in e['arms'][1]:
        a0, a1 = e['arms']
        p0, p1 = a0['pat'], a1['pat']
        if p0.get('k') == 'TupleStruct' and strip_generics(p0.get('def', '')).endswith('::Some') and \
                (p1.get('k') == 'Wild' or (p1.get('k') == 'Binding' and not p1.get('ch'))):
            def blk2(x):
                return x if x.get('k') == 'Block' else {'k': 'Block', 'stmts': [], 'expr': x,
                                                        'sp': x.get('sp'), 'ty': x.get('ty')}
            nb = blk2(a1['body'])
            empty_else = not nb.get('stmts') and \
                ('expr' not in nb or (peel(nb['expr']).get('k') == 'Tup' and not peel(nb['expr']).get('ch'))
                 or (peel(nb['expr']).get('k') == 'Block' and not peel(nb['expr']).get('stmts')
                     and 'expr' not in peel(nb['expr'])))
            drop_else = empty_else and e.get('ty') == '()'
            inner = {'k': 'If', 'ch': [a0['guard'], blk2(a0['body'])] + ([] if drop_else else [nb]),
                     'sp': e.get('sp'), 'ty': e.get('ty')}
            le = {'k': 'LetExpr', 'pat': p0, 'ch': [e['ch'][0]], 'sp': e.get('sp'), 'ty': 'bool'}
            return {'k': 'If', 'ch': [le, {'k': 'Block', 'stmts': [], 'expr': inner, 'sp': e.get('sp'),
                                          'ty': e.get('ty')}] + ([] if drop_else else [nb]),
                    'sp': e.get('sp'), 'id': e.get('id'), 'ty': e.get('ty')}
    # `iter.for_each(|p| body)` is `for p in iter { body }` (a closure body without `return`)
    if k == 'MethodCall' and e.get('method') == 'for_each' and len(e.get('ch', [])) == 2 and \
            callee_is(e, 'Iterator::for_each'):
        cl = peel(e['ch'][1])
        if cl.get('k') == 'Closure' and len(cl.get('params', [])) == 1 and \
                not any(x.get('k') == 'Ret' for x in walk(cl['ch'][0])):
            it = e['ch'][0]
            if peel(it).get('k') == 'MethodCall' and callee_is(peel(it), 'IntoIterator::into_iter') and \
                    len(peel(it)['ch']) == 1:
                it = peel(it)['ch'][0]
            return {'k': 'For', 'pat': cl['params'][0], 'ch': [it, cl['ch'][0]],
                    'sp': e.get('sp'), 'id': e.get('id'), 'ty': '()', 'via': 'for_each'}
    # `let f = |p| body; .. f(a) ..` is `.. body[p := a] ..` for an immutable local helper closure that
    # is only called, with effect-free arguments
    if k == 'Block' and any(s_.get('k') == 'Let' and 'init' in s_ and s_['pat'].get('k') == 'Binding' and
                            not s_['pat'].get('mut') and peel(s_['init']).get('k') == 'Closure'
                            for s_ in e.get('stmts', [])):
        e = _inline_local_closures(e)
    # `let PAT = init else { diverge }; rest` is `if let PAT = init { rest } else { diverge }`
    if k == 'Block' and any(s_.get('k') == 'Let' and 'els' in s_ and 'init' in s_ for s_ in e.get('stmts', [])):
        e = _let_else(e)
    # `let c = a < b; .. if c & d {..}` is `if (a < b) & d {..}` when nothing c reads is assigned
    # in between
    if k == 'Block' and e.get('stmts'):
        e = _inline_bool_lets(e)
    # `let mut i = a; .. while i < b { body; i += 1 }` is `for i in a..b { body }`
    if k == 'Block' and e.get('stmts'):
        e = _while_counters(e)
    # destructuring assignment
    if k == 'Block' and e.get('stmts') and 'expr' not in e:
        st = e['stmts']
        s0 = st[0]
        if s0['k'] == 'Let' and 'init' in s0 and _all_lhs(s0['pat']) and len(st) >= 2 and \
                all(s['k'] in ('Semi', 'Expr') and s['e'].get('k') == 'Assign' and
                    is_local(s['e']['ch'][1], 'lhs') for s in st[1:]):
            targets = [s['e']['ch'][0] for s in st[1:]]
            init = s0['init']
            binds = _pat_binds(s0['pat'])
            if init.get('k') == 'Tup' and s0['pat'].get('k') == 'Tuple' and \
                    len(init['ch']) == len(s0['pat']['ch']) and \
                    all(c.get('k') == 'Binding' for c in s0['pat']['ch']):
                order = {b['local']: i for i, b in enumerate(s0['pat']['ch'])}
                stmts = []
                for s in st[1:]:
                    tgt = s['e']['ch'][0]
                    val = init['ch'][order[s['e']['ch'][1]['local']]]
                    stmts.append({'k': 'Semi', 'e': {'k': 'Assign', 'ch': [tgt, val],
                                                     'sp': s['e'].get('sp'), 'id': s['e'].get('id'),
                                                     'ty': '()', 'multi': True}})
                return {'k': 'Block', 'stmts': stmts, 'sp': e.get('sp'), 'id': e.get('id'),
                        'ty': '()', 'multi_assign': True}
            return {'k': 'MultiAssign', 'targets': targets, 'pat': s0['pat'], 'ch': [init],
                    'sp': e.get('sp'), 'id': e.get('id'), 'ty': '()', 'binds': len(binds)}
    return e


def _inline_local_closures(blk):
    import copy
    st = list(blk['stmts'])
    out_st = []
    tail = blk.get('expr')
    i = 0
    changed = False
    while i < len(st):
        s_ = st[i]
        cl = peel(s_['init']) if s_.get('k') == 'Let' and 'init' in s_ and s_['pat'].get('k') == 'Binding' and \
            not s_['pat'].get('mut') else None
        if cl is None or cl.get('k') != 'Closure' or \
                not all(p.get('k') == 'Binding' and not p.get('mut') for p in cl.get('params', [])) or \
                any(n.get('k') == 'Ret' for n in walk(cl['ch'][0])) or \
                _assigned_locals(cl['ch'][0]):
            out_st.append(s_)
            i += 1
            continue
        lid = s_['pat']['local']
        rest = {'k': 'Tup', 'ch': [x for r in st[i + 1:] for x in ([r.get('init')] if r.get('k') == 'Let' else [r.get('e')])
                                   if x is not None] + ([tail] if tail is not None else [])}
        uses = [n for n in walk(rest) if n.get('k') == 'Path' and n.get('res') == 'local' and n.get('local') == lid]
        calls = [n for n in walk(rest) if n.get('k') == 'Call' and n.get('ch') and
                 peel(n['ch'][0]).get('k') == 'Path' and peel(n['ch'][0]).get('local') == lid]
        ok = bool(calls) and len(uses) == len(calls) and \
            all(len(c['ch']) - 1 == len(cl['params']) and all(_effect_free(a) for a in c['ch'][1:]) for c in calls)
        if not ok:
            out_st.append(s_)
            i += 1
            continue

        def subst(x):
            if isinstance(x, list):
                return [subst(y) for y in x]
            if not isinstance(x, dict):
                return x
            if x.get('k') == 'Call' and x.get('ch') and peel(x['ch'][0]).get('k') == 'Path' and \
                    peel(x['ch'][0]).get('local') == lid:
                body = copy.deepcopy(cl['ch'][0])
                for p_, a_ in zip(cl['params'], x['ch'][1:]):
                    body = _subst_local(body, p_['local'], subst(a_), True)
                return body
            return {key: (subst(v) if isinstance(v, (dict, list)) and key not in ('targs', 'adj', 'captures') else v)
                    for key, v in x.items()}
        st = st[:i + 1] + [subst(r) for r in st[i + 1:]]
        if tail is not None:
            tail = subst(tail)
        changed = True
        i += 1          # the binding itself is dropped
    if not changed:
        return blk
    out = {key: v for key, v in blk.items() if key not in ('stmts', 'expr')}
    out['stmts'] = out_st
    if tail is not None:
        out['expr'] = tail
    return out


def _let_else(blk):
    st = list(blk['stmts'])
    i = next(j for j, s_ in enumerate(st) if s_.get('k') == 'Let' and 'els' in s_ and 'init' in s_)
    le = st[i]
    rest = {'k': 'Block', 'stmts': st[i + 1:], 'sp': blk.get('sp'), 'ty': blk.get('ty')}
    if 'expr' in blk:
        rest['expr'] = blk['expr']
    if any(s_.get('k') == 'Let' and 'els' in s_ and 'init' in s_ for s_ in rest['stmts']):
        rest = _let_else(rest)
    if rest.get('stmts'):
        rest = _while_counters(_inline_bool_lets(rest))
    els = le['els'] if le['els'].get('k') == 'Block' else {'k': 'Block', 'stmts': [], 'expr': le['els'],
                                                            'sp': le['els'].get('sp'), 'ty': le['els'].get('ty')}
    cond = {'k': 'LetExpr', 'pat': le['pat'], 'ch': [le['init']], 'sp': le.get('sp'), 'ty': 'bool'}
    iff = {'k': 'If', 'ch': [cond, rest, els], 'sp': blk.get('sp'), 'ty': blk.get('ty'), 'let_else': True}
    out = {key: v for key, v in blk.items() if key not in ('stmts', 'expr')}
    out['stmts'] = st[:i]
    out['expr'] = iff
    return out


def _while_counters(blk):
    st = list(blk['stmts'])
    tail = False
    if 'expr' in blk and peel(blk['expr']).get('k') == 'While':
        # a loop in tail position is a statement of type ()
        st.append({'k': 'Expr', 'e': blk['expr']})
        tail = True
    changed = False
    i = 0
    while i < len(st):
        s_ = st[i]
        x = s_.get('e') if s_['k'] in ('Semi', 'Expr') else None
        if x is not None and x.get('k') == 'While':
            cond, body = peel(x['ch'][0]), x['ch'][1]
            cnt = bound = None
            incl = False
            if cond.get('k') == 'Binary' and cond['op'] in ('Lt', 'Le'):
                cnt, bound = peel(cond['ch'][0]), cond['ch'][1]
                incl = cond['op'] == 'Le'
            elif cond.get('k') == 'Binary' and cond['op'] in ('Gt', 'Ge'):
                cnt, bound = peel(cond['ch'][1]), cond['ch'][0]
                incl = cond['op'] == 'Ge'
            if cnt is not None and cnt.get('k') == 'Path' and cnt.get('res') == 'local' and \
                    body.get('k') == 'Block' and body.get('stmts') and 'expr' not in body:
                lid = cnt['local']
                last = body['stmts'][-1]
                le = peel(last.get('e', {})) if last['k'] in ('Semi', 'Expr') else {}
                inc = le.get('k') == 'AssignOp' and le.get('op') == 'AddAssign' and \
                    peel(le['ch'][0]).get('local') == lid and peel(le['ch'][1]).get('k') == 'Lit' and \
                    peel(le['ch'][1]).get('v') == '1'
                # the declaration: an earlier `let mut i = <literal or plain local>` in this block
                decl = [j for j in range(i) if st[j]['k'] == 'Let' and st[j]['pat'].get('k') == 'Binding'
                        and st[j]['pat'].get('local') == lid and 'init' in st[j] and
                        peel(st[j]['init']).get('k') in ('Lit', 'Path')]
                rest = body['stmts'][:-1]
                assigned = {peel(y['ch'][0]).get('local') for z in rest for y in walk(z.get('e') or z.get('init') or {})
                            if y.get('k') in ('Assign', 'AssignOp')}
                bound_locals = {y['local'] for y in walk(bound) if y.get('k') == 'Path' and y.get('res') == 'local'}
                has_cont = any(y.get('k') == 'Continue' for z in rest for y in walk(z.get('e') or z.get('init') or {}))
                used_after = any(y.get('k') == 'Path' and y.get('local') == lid
                                 for z in st[i + 1:] for y in walk(z.get('e') or z.get('init') or {})) or \
                    ('expr' in blk and not tail and
                     any(y.get('k') == 'Path' and y.get('local') == lid for y in walk(blk['expr'])))
                between = any(y.get('k') == 'Path' and y.get('local') == lid
                              for z in st[decl[-1] + 1:i] for y in walk(z.get('e') or z.get('init') or {})) if decl else True
                if inc and decl and lid not in assigned and not (bound_locals & assigned) and \
                        not has_cont and not used_after and not between:
                    d = decl[-1]
                    pat = dict(st[d]['pat'])
                    pat['mut'] = False
                    rng = {'k': 'Range', 'incl': incl, 'ch': [st[d]['init'], bound], 'sp': x.get('sp'),
                           'id': None, 'ty': 'std::ops::Range<usize>'}
                    nb = dict(body)
                    nb['stmts'] = rest
                    loop = {'k': 'For', 'pat': pat, 'ch': [rng, nb], 'sp': x.get('sp'), 'id': x.get('id'),
                            'ty': '()', 'via': 'while'}
                    st[i] = dict(s_, e=loop)
                    del st[d]
                    i -= 1
                    changed = True
        i += 1
    if not changed:
        return blk
    out = dict(blk)
    if tail:
        last = st.pop()
        out['expr'] = last['e']
    out['stmts'] = st
    return out


def _pat_binds(p):
    out = []
    if p.get('k') == 'Binding':
        out.append(p)
    for c in p.get('ch', []):
        out.extend(_pat_binds(c))
    return out


def _all_lhs(p):
    b = _pat_binds(p)
    return bool(b) and all(x['name'] == 'lhs' for x in b)


def try_operand(e):
    """If e is `expr?` (TryDesugar match) return expr."""
    if e.get('k') == 'Match' and 'TryDesugar' in e.get('src', ''):
        c = e['ch'][0]
        if c.get('k') == 'Call' and callee_is(c, 'Try::branch'):
            return c['ch'][1]
        return c
    return None


# ------------------------------------------------------------ alpha renaming

def alpha(e, names=None, prefix='x'):
    """Copy of the tree with every local renamed by order of first occurrence
    (patterns and paths), so two bodies that differ only in variable names render equal."""
    names = {} if names is None else names

    def nm(lid):
        if lid not in names:
            names[lid] = '%s%d' % (prefix, len(names))
        return names[lid]

    def pat(p):
        if not isinstance(p, dict):
            return p
        q = dict(p)
        if q.get('k') == 'Binding':
            q['name'] = nm(q['local'])
        if 'ch' in q:
            q['ch'] = [pat(c) for c in q['ch']]
        if 'sub' in q:
            q['sub'] = pat(q['sub'])
        if 'fields' in q:
            q['fields'] = [dict(f, pat=pat(f['pat'])) for f in q['fields']]
        return q

    def rec(x):
        if isinstance(x, list):
            return [rec(y) for y in x]
        if not isinstance(x, dict):
            return x
        q = {}
        # patterns first (binding order = textual order)
        for key, v in x.items():
            if key == 'pat':
                q[key] = pat(v)
            elif key == 'params':
                q[key] = [pat(p) for p in v]
            elif key in ('captures', 'targs', 'adj'):
                q[key] = v
            elif isinstance(v, (dict, list)):
                q[key] = rec(v)
            else:
                q[key] = v
        if q.get('k') == 'Path' and q.get('res') == 'local':
            q['name'] = nm(q['local'])
        return q

    return rec(e)
