"""Rules built on the SEQ evaluator: declared lengths, returned lengths, underflow worlds,
positional specification of the lag family, causality, driver iterator forms."""
import lia
from lia import L, add, sub, scale, feasible
import seq as S
from seq import P
from facts import src, loc, _pat_binds, walk, callee_is, peel

RULES = {
    'SEQ.len': 'at every to_trust / TrustIter::new / trust_my_length site the pipeline yields '
               'exactly the declared number of items, for all symbolic lengths and parameters',
    'SEQ.ret-len': 'every return path of a length-contract function yields the contract length',
    'SEQ.underflow': 'no parameter combination makes an unsigned length computation underflow '
                     '(a debug-profile panic) before the iterator is built',
    'SEQ.pos': 'output position p of a lag adaptor reads source position p - n when that is '
               'inside the series and is the fill value otherwise',
    'SEQ.causal': 'for a non-negative lag every source index read at output position p is <= p',
    'SEQ.zip-agree': 'both operands of a zip have equal length (or the site is a tabled '
                     'prefix-feed idiom of the window drivers)',
}


def param_sym(fn, name):
    for p in fn.params:
        for b in _pat_binds(p):
            if b['name'] == name:
                return '%s#%d' % (name, b['local'])
    return None


def site_key(node):
    return S._clean(src(node))[:110]


def run_eval(fn):
    ev = S.Evaluator(fn)
    ev.run_fn()
    return ev


def facts_of(ev, W):
    return W.facts + S.axioms(ev, W)


def check_len_sites(run, fn, ev):
    """SEQ.len at all declaration sites (merged over worlds)."""
    by_site = {}
    for kind, node, W, s, d, how in ev.obligations:
        ok, detail = S.check_len(ev, W, s, d)
        k = id(node)
        cur = by_site.get(k)
        if cur is None or (cur[1] and not ok):
            by_site[k] = (node, ok, detail, how, (cur[4] + 1) if cur else 1)
        else:
            by_site[k] = (cur[0], cur[1], cur[2], cur[3], cur[4] + 1)
    for node, ok, detail, how, nworlds in by_site.values():
        run.ob('SEQ.len', fn, site_key(node), ok, loc(node),
               '%s; %s (%d world(s))' % (how, S._clean(detail), nworlds))
    return len(by_site)


def check_underflow(run, fn, ev, exempt_window0=False):
    seen = {}
    for node, W, a, b in ev.underflows:
        fs = facts_of(ev, W)
        exempt = False
        if exempt_window0:
            # is the underflow possible with window >= 1 ?
            wsyms = [k for f in fs for k in f if isinstance(k, str) and k.startswith('window#')]
            if wsyms:
                if not feasible(fs + [add(L(wsyms[0]), L(-1))]):
                    exempt = True
        key = id(node)
        if key not in seen or (seen[key][1] and not exempt):
            region = '; '.join(S._clean(lia.show(f)) + ' >= 0' for f in W.facts[-6:])
            seen[key] = (node, exempt, region)
    for node, exempt, region in seen.values():
        run.ob('SEQ.underflow', fn, '`%s`' % S._clean(src(node)), exempt, loc(node),
               ('only with window == 0 (precondition window >= 1: clean panic in debug, '
                'full-length prefix windows in release)' if exempt else
                'underflows in the region [%s]' % region), trivial=exempt)
    return len(seen)


def check_ret_len(run, fn, ev, expected_fn, what):
    """expected_fn(world) -> linear form."""
    n = 0
    bad = None
    for W, q, node in ev.returns:
        if q is None:
            continue
        n += 1
        exp = expected_fn(W)
        fs = facts_of(ev, W)
        if q.unknown:
            ok, detail = False, 'pipeline not understood: ' + q.unknown
        elif q.inf:
            ok, detail = False, 'unbounded iterator returned'
        else:
            ok = lia.entails_eq(fs, q.len, exp)
            detail = 'returned length %s vs %s %s' % (S._clean(lia.show(q.len)), what,
                                                       S._clean(lia.show(exp)))
            if not ok:
                detail += ' in the region [%s]' % '; '.join(
                    S._clean(lia.show(f)) + ' >= 0' for f in W.facts[-6:])
        run.ob('SEQ.ret-len', fn, site_key(node), ok, loc(node), detail)
    return n


def check_lag_positions(run, fn, ev, n_sym, base='self', diff=False):
    """SEQ.pos / SEQ.causal for shift-like functions. n_sym is the signed lag symbol."""
    npos = 0
    for W, q, node in ev.returns:
        if q is None or q.unknown or q.inf:
            continue
        fs = facts_of(ev, W)
        len_sym = L('len(%s)' % base)
        for guards, el in q.pieces:
            g = fs + guards + [L(P), add(sub(q.len, L(P)), L(-1))]
            if not feasible(g):
                continue
            npos += 1
            target = sub(L(P), L(n_sym))     # p - n
            srcs = S.elem_sources(el)
            key = '%s @ %s' % (S._clean(S.show_elem(el))[:70], site_key(node)[:40])
            if not srcs:
                # pure fill: p - n must be outside [0, len)
                inside = g + [target, add(sub(len_sym, target), L(-1))]
                ok = not feasible(inside)
                run.ob('SEQ.pos', fn, key, ok, loc(node),
                       'fill piece; p - n outside [0,len): %s' % ('proved' if ok else
                                                                  'NOT excluded'))
                continue
            if not diff:
                ok = len(srcs) == 1 and srcs[0][0] == base and \
                    lia.entails_eq(g, srcs[0][1], target)
                run.ob('SEQ.pos', fn, key, ok, loc(node),
                       'reads %s; expected %s[p - n]' % (S._clean(S.show_elem(el)), base))
            else:
                # diff/pct: pair(a, b): a = x[p-n], b = x[p]; a fill flowing through the
                # element function is checked by the caller
                idxs = [i for b_, i in srcs if b_ == base]
                want_a = lia.entails_eq(g, idxs[0], target) if len(idxs) == 2 else None
                want_b = lia.entails_eq(g, idxs[1], L(P)) if len(idxs) == 2 else None
                if len(idxs) == 2:
                    run.ob('SEQ.pos', fn, key, bool(want_a and want_b), loc(node),
                           'pair reads (%s); expected (x[p - n], x[p])'
                           % ', '.join(S._clean(lia.show(i)) for i in idxs))
                elif len(idxs) == 1:
                    has_fill = 'fill(' in S.show_elem(el)
                    if has_fill:
                        # fill on the lagged side: p - n outside the series, the other is x[p]
                        inside = g + [target, add(sub(len_sym, target), L(-1))]
                        ok = lia.entails_eq(g, idxs[0], L(P)) and not feasible(inside)
                        run.ob('SEQ.pos', fn, key, ok, loc(node),
                               'fill paired with x[%s]' % S._clean(lia.show(idxs[0])))
                    else:
                        # lag 0: both operands are x[p]
                        ok = lia.entails_eq(g, idxs[0], L(P)) and lia.entails_eq(g, idxs[0], target)
                        run.ob('SEQ.pos', fn, key, ok, loc(node),
                               'single read x[%s]; expected x[p] = x[p - n] (lag 0)'
                               % S._clean(lia.show(idxs[0])))
            # causality for n >= 0
            gn = g + [L(n_sym)]
            if feasible(gn):
                bad = [i for b_, i in srcs if not lia.entails_le(gn, i, L(P))]
                run.ob('SEQ.causal', fn, key, not bad, loc(node),
                       'source indices %s <= p for n >= 0' %
                       ', '.join(S._clean(lia.show(i)) for _, i in srcs))
    return npos
