"""Window drivers (tea-core/src/vec_core/cores/view.rs) and their backend fast paths.

Kernel forms (`*_to`): bounds of every unchecked access (IDX.driver / IDX.other), the two
loops partition [0,len) with one store per position (DRV.cover), no return without writing
while len > 0 (DRV.early), callback arguments per phase (DRV.args).
Iterator forms: output length (SEQ.ret-len) and (removed, new) pairs per position (DRV.iter).
Fast paths: uninit(len) -> *_to -> assume_init skeleton (INIT.skeleton).
"""
import lia
from lia import L, add, sub, scale, feasible
import seq as S
from seq import P
import seqrules
from facts import (src, loc, walk, children, callee_is, callee, peel, is_local, _pat_binds,
                   strip_generics)

RULES = {
    'IDX.driver': 'every index passed to an unchecked accessor inside a window driver is '
                  'proved < len (slices: 0 <= start <= end <= len) from the loop ranges',
    'IDX.other': 'indices into the second series are bounded by the first series\' length, so '
                 'a dominating check must relate the two lengths',
    'DRV.cover': 'the warm-up loop and the main loop of a kernel-form driver partition [0,len) '
                 'and store exactly one result at the loop position, unconditionally',
    'DRV.early': 'a kernel-form driver never returns before writing while len > 0 (its callers '
                 'expose the buffer with assume_init)',
    'DRV.args': 'the callback receives (None | element(s)/index at i-w+1, element(s) at i) '
                '[slice forms: exactly max(0,i-w+1)..=i]',
    'DRV.iter': 'iterator-form drivers pair position p with removed = None for p < w-1 and '
                'x[p-(w-1)] afterwards, new = x[p]',
    'INIT.skeleton': 'a fast path allocates uninit(self.len()), passes the buffer to the '
                     'kernel form with the caller\'s arguments unchanged, then assume_init',
}

TO_FNS = ['rolling_custom_to', 'rolling_apply_to', 'rolling2_apply_to', 'rolling_apply_idx_to',
          'rolling2_apply_idx_to']
ITER_FNS = ['rolling_custom_iter', 'rolling2_custom', 'rolling_apply', 'rolling2_apply',
            'rolling_apply_idx', 'rolling2_apply_idx']


def _w(f):
    return S._clean(lia.show(f)) if f is not None else '?'


def view_fn(F, name):
    return F.one('vec_core::cores::view::Vec1View::' + name)


def check_kernel_form(run, F, name, rules):
    fn = view_fn(F, name)
    ev = S.Evaluator(fn).run_fn()
    two = name.startswith('rolling2')
    nacc = 0
    lself = L('len(self)')
    # merge accesses per node over worlds
    per = {}
    for kind, node, W, forms, recv, lp in ev.accesses:
        fs = seqrules.facts_of(ev, W)
        ok = True
        why = ''
        if any(f is None for f in forms):
            ok, why = False, 'index is not a linear term'
        elif kind in ('uget', 'uset'):
            bound = lself if recv in ('self', 'out') else L('len(%s)' % recv)
            ok = lia.entails_ge0(fs, forms[0]) and lia.entails_lt(fs, forms[0], bound)
            why = '%s < %s' % (_w(forms[0]), _w(bound))
        elif kind == 'uslice':
            bound = lself if recv == 'self' else L('len(%s)' % recv)
            ok = lia.entails_ge0(fs, forms[0]) and lia.entails_le(fs, forms[0], forms[1]) and \
                lia.entails_le(fs, forms[1], bound)
            why = '0 <= %s <= %s <= %s' % (_w(forms[0]), _w(forms[1]), _w(bound))
        k = id(node)
        cur = per.get(k)
        if cur is None or (cur[1] and not ok):
            per[k] = (node, ok, why, kind, recv)
    for node, ok, why, kind, recv in per.values():
        rule = 'IDX.other' if recv == 'other' else 'IDX.driver'
        if rule in rules:
            run.ob(rule, fn, '%s' % S._clean(src(node))[:80], ok, loc(node),
                   ('proved ' if ok else 'NOT proved: ') + why +
                   ('' if ok or recv != 'other' else
                    ' (nothing relates len(other) to len(self))'))
            nacc += 1
    # loops
    if 'DRV.cover' in rules:
        recs = [l for l in ev.loops if isinstance(l, dict)]
        nodes = []
        for l in recs:
            if id(l['node']) not in [id(n) for n in nodes]:
                nodes.append(l['node'])
        ok_struct = len(nodes) == 2 and all(l.get('pos') is not None for l in recs)
        run.ob('DRV.cover', fn, 'two range loops', ok_struct, fn.loc(),
               '%d loop(s) found%s' % (len(nodes), '' if ok_struct else
                                       ' (expected warm-up loop and main loop over ranges)'))
        if ok_struct:
            A = [l for l in recs if l['node'] is nodes[0]]
            B = [l for l in recs if l['node'] is nodes[1]]
            okc = True
            detail = []
            for b in B:
                fb = seqrules.facts_of(ev, b['world'])
                a = [x for x in A if all(f in b['world'].facts for f in x['world'].facts)]
                if not a:
                    okc = False
                    detail.append('no matching warm-up world')
                    continue
                a = a[0]
                c1 = lia.entails_eq(fb, a['lo'], {})
                c2 = lia.entails_eq(fb, a['hi'], b['lo'])
                c3 = lia.entails_eq(fb, b['hi'], lself)
                okc = okc and c1 and c2 and c3
                detail.append('[%s,%s) ++ [%s,%s) %s [0,len)' % (_w(a['lo']), _w(a['hi']),
                                                                  _w(b['lo']), _w(b['hi']),
                                                                  '=' if (c1 and c2 and c3) else '!='))
            run.ob('DRV.cover', fn, 'ranges partition [0,len)', okc and bool(B), loc(nodes[0]),
                   '; '.join(detail))
            for which, group in (('warm-up', A), ('main', B)):
                oks = True
                det = ''
                for l in group:
                    us = l['usets']
                    if len(us) != 1:
                        oks, det = False, '%d stores in the loop body' % len(us)
                        break
                    kind, node, W, forms, recv, _ = us[0]
                    fs = seqrules.facts_of(ev, W)
                    if forms[0] is None or not lia.entails_eq(fs, forms[0], l['pos']):
                        oks, det = False, 'store index %s is not the loop position %s' % (
                            _w(forms[0]), _w(l['pos']))
                        break
                    if not _unconditional(l['node']['ch'][1], node):
                        oks, det = False, 'store is conditional'
                        break
                    det = 'one unconditional store at the loop position %s' % _w(l['pos'])
                run.ob('DRV.cover', fn, '%s loop store' % which, oks and bool(group),
                       loc(group[0]['node']) if group else fn.loc(), det)
    if 'DRV.early' in rules:
        bad = []
        for W, node in ev.ret_worlds:
            fs = seqrules.facts_of(ev, W)
            if feasible(fs + [add(lself, L(-1))]):
                bad.append((W, node))
        run.ob('DRV.early', fn, 'return before writing', not bad,
               loc(bad[0][1]) if bad else fn.loc(),
               ('returns with no slot written in the region [%s] with len(self) >= 1 - the '
                'fast paths then assume_init an unwritten buffer'
                % '; '.join(_w(f) + ' >= 0' for f in bad[0][0].facts[-4:])) if bad else
               '%d early return(s), all imply len == 0' % len(ev.ret_worlds))
    if 'DRV.args' in rules:
        check_args(run, fn, ev, name)
    return nacc


def _unconditional(body, target):
    """target is reached from body through blocks / call arguments only."""
    def rec(e):
        if e is target:
            return True
        k = e.get('k')
        if k in ('If', 'Match', 'For', 'While', 'Loop', 'Closure'):
            return False
        return any(rec(c) for c in children(e))
    return rec(body)


# -- callback arguments ------------------------------------------------------

def _inline(e, env):
    e = peel(e)
    if e.get('k') == 'Path' and e.get('res') == 'local' and e['local'] in env:
        return env[e['local']]
    if e.get('k') == 'Block' and not e.get('stmts') and 'expr' in e:
        return _inline(e['expr'], env)
    return e


def sem(e, ev, W, env):
    """Semantic shape of a callback argument."""
    e = _inline(e, env)
    k = e.get('k')
    if k == 'Path' and e.get('def') and strip_generics(e['def']).endswith('None'):
        return ('none',)
    if k == 'Call' and strip_generics(e.get('callee', '')).endswith('Some') and len(e['ch']) == 2:
        return ('some', sem(e['ch'][1], ev, W, env))
    if k == 'Tup':
        return ('tup',) + tuple(sem(c, ev, W, env) for c in e['ch'])
    if k == 'MethodCall' and callee_is(e, 'Vec1View::uget') and len(e['ch']) == 2:
        for W1, i in ev.ev_int(_inline(e['ch'][1], env), W):
            return ('elem', src(peel(e['ch'][0])), i)
    if k == 'MethodCall' and e['method'] == 'unwrap':
        r = peel(e['ch'][0])
        if r.get('k') == 'MethodCall' and callee_is(r, 'Vec1View::uslice', 'Vec1View::slice'):
            for W1, a in ev.ev_int(_inline(r['ch'][1], env), W):
                for W2, b in ev.ev_int(_inline(r['ch'][2], env), W1):
                    return ('slice', src(peel(r['ch'][0])), a, b)
    if e.get('ty') == 'usize':
        for W1, i in ev.ev_int(e, W):
            return ('int', i)
    return ('?', src(e)[:60])


def sem_eq(a, b, fs):
    if a[0] != b[0] or len(a) != len(b):
        return False
    for x, y in zip(a[1:], b[1:]):
        if isinstance(x, tuple) and isinstance(y, tuple):
            if not sem_eq(x, y, fs):
                return False
        elif isinstance(x, dict) or isinstance(y, dict):
            if x is None or y is None or not lia.entails_eq(fs, x, y):
                return False
        elif x != y:
            return False
    return True


def sem_show(a):
    if a[0] in ('none',):
        return 'None'
    if a[0] == 'some':
        return 'Some(%s)' % sem_show(a[1])
    if a[0] == 'tup':
        return '(' + ', '.join(sem_show(x) for x in a[1:]) + ')'
    if a[0] == 'elem':
        return '%s[%s]' % (a[1], _w(a[2]))
    if a[0] == 'slice':
        return '%s[%s..%s]' % (a[1], _w(a[2]), _w(a[3]))
    if a[0] == 'int':
        return _w(a[1])
    return str(a)


def spec_args(name, phase, pos, start):
    """Expected callback arguments at loop position `pos` (linear form)."""
    def el(base, i):
        return ('elem', base, i)
    two = name.startswith('rolling2')
    new = ('tup', el('self', pos), el('other', pos)) if two else el('self', pos)
    if 'custom' in name:
        lo = {} if phase == 'A' else start
        return [('slice', 'self', lo, add(pos, L(1)))]
    if 'idx' in name:
        rem = ('none',) if phase == 'A' else ('some', ('int', start))
        return [rem, ('int', pos), new]
    if phase == 'A':
        rem = ('none',)
    else:
        rem = ('some', ('tup', el('self', start), el('other', start))) if two else \
            ('some', el('self', start))
    return [rem, new]


def check_args(run, fn, ev, name):
    recs = [l for l in ev.loops if isinstance(l, dict) and l.get('pos') is not None]
    nodes = []
    for l in recs:
        if not any(l['node'] is n for n in nodes):
            nodes.append(l['node'])
    for li, node in enumerate(nodes[:2]):
        phase = 'AB'[li]
        group = [l for l in recs if l['node'] is node]
        ok_all = True
        det = ''
        for l in group:
            # re-enter the loop world: facts of the store access
            if not l['usets']:
                ok_all, det = False, 'no store'
                break
            kind, unode, W, forms, recv, _ = l['usets'][0]
            fs = seqrules.facts_of(ev, W)
            env = {}
            for x in walk(node['ch'][1]):
                if x.get('k') == 'Block':
                    for s in x.get('stmts', []):
                        if s['k'] == 'Let' and 'init' in s:
                            init = peel(s['init'])
                            if s['pat'].get('k') == 'Binding':
                                env[s['pat']['local']] = init
                            elif s['pat'].get('k') == 'Tuple' and init.get('k') == 'Tup':
                                for p_, v_ in zip(s['pat']['ch'], init['ch']):
                                    if p_.get('k') == 'Binding':
                                        env[p_['local']] = peel(v_)
            call = peel(unode['ch'][2])
            if call.get('k') != 'Call' or call.get('callee_name') != 'f':
                call = _inline(call, env)
            if call.get('k') != 'Call' or call.get('callee_name') != 'f':
                ok_all, det = False, 'stored value is not the callback result: ' + src(call)[:60]
                break
            got = [sem(a, ev, W, env) for a in call['ch'][1:]]
            start = sub(l['pos'], l['lo'])
            want = spec_args(name, phase, l['pos'], start)
            if len(got) != len(want) or not all(sem_eq(g, w, fs) for g, w in zip(got, want)):
                ok_all = False
                det = 'got f(%s), expected f(%s)' % (', '.join(sem_show(g) for g in got),
                                                      ', '.join(sem_show(w) for w in want))
                break
            det = 'f(%s)' % ', '.join(sem_show(g) for g in got)
        run.ob('DRV.args', fn, 'phase %s callback arguments' % phase, ok_all and bool(group),
               loc(node), det)


# -- iterator forms ----------------------------------------------------------

def check_iter_form(run, F, name, rules):
    fn = view_fn(F, name)
    ev = S.Evaluator(fn)
    w0 = S.World()
    if name.startswith('rolling2'):
        # precondition of the two-series forms: the second series is at least as long as the
        # first (the kernel forms assert exactly this; a longer second series is legal and
        # must not change what is read from the first)
        w0.facts += [L('len(self)'), L('len(other)'), sub(L('len(other)'), L('len(self)'))]
    ev.run_fn(w0)
    seqrules.check_len_sites(run, fn, ev)
    seqrules.check_underflow(run, fn, ev, exempt_window0=True)
    n = seqrules.check_ret_len(run, fn, ev, lambda W: L('len(self)'), 'input length')
    if 'DRV.iter' not in rules:
        return n
    wsym = seqrules.param_sym(fn, 'window')
    two = name.startswith('rolling2')
    for W, q, node in ev.returns:
        if q is None or q.unknown or q.inf:
            continue
        fs = seqrules.facts_of(ev, W)
        for guards, el in q.pieces:
            g = fs + guards + [L(P), add(sub(q.len, L(P)), L(-1))]
            if not feasible(g):
                continue
            wm1 = add(L(wsym), L(-1))
            ok = True
            why = []
            shape = _shape(el, name)
            if shape is None:
                ok = False
                why.append('element shape not recognised for this driver')
            else:
                R, N, END = shape
                want_new = ['self', 'other'] if two else ['self']
                if 'custom' in name:
                    # (end, start): slice [start, end) must be [max(0, p-(w-1)), p+1)
                    if not (END[0] == 'idx' and lia.entails_eq(g, END[1], add(L(P), L(1)))):
                        ok = False
                        why.append('slice end is not p + 1')
                    if R[0] == 'idx':
                        if not lia.entails_eq(g, R[1], sub(L(P), wm1)):
                            ok = False
                            why.append('slice start %s is not p - (w-1)' % _w(R[1]))
                    elif R == ('fill', '0'):
                        if not lia.entails_le(g, L(P), wm1):
                            ok = False
                            why.append('start 0 used at a position > w-1')
                    else:
                        ok = False
                        why.append('unrecognised slice start %s' % S.show_elem(R))
                else:
                    ns = S.elem_sources(N)
                    if [b for b, _ in ns] != want_new or \
                            not all(lia.entails_eq(g, i, L(P)) for _, i in ns):
                        ok = False
                        why.append('new element(s) %s, expected x[p] of %s'
                                   % ([(b, _w(i)) for b, i in ns], want_new))
                    if END is not None and not (END[0] == 'idx' and lia.entails_eq(g, END[1], L(P))):
                        ok = False
                        why.append('end index is not p')
                    if R[0] == 'fill':
                        if not R[1].endswith('None'):
                            ok = False
                            why.append('warm-up removed value is %s, not None' % R[1])
                        if not lia.entails_le(g, L(P), add(wm1, L(-1))):
                            ok = False
                            why.append('removed = None at a position >= w-1')
                    elif R[0] == 'some':
                        inner = R[1]
                        if 'idx' in name:
                            if not (inner[0] == 'idx' and lia.entails_eq(g, inner[1], sub(L(P), wm1))):
                                ok = False
                                why.append('start index is not p - (w-1)')
                        else:
                            rs = S.elem_sources(inner)
                            if [b for b, _ in rs] != want_new or \
                                    not all(lia.entails_eq(g, i, sub(L(P), wm1)) for _, i in rs):
                                ok = False
                                why.append('removed element(s) %s, expected x[p - (w-1)]'
                                           % [(b, _w(i)) for b, i in rs])
                    else:
                        ok = False
                        why.append('unrecognised removed value %s' % S.show_elem(R))
            run.ob('DRV.iter', fn, S._clean(S.show_elem(el))[:90], ok, loc(node),
                   '; '.join(why) if why else 'piece matches the window protocol')
    return n


def _shape(el, name):
    """(removed, new, end) components of a driver element, by driver.  When the map closure was
    applied symbolically the element is the callback call itself and the components are read off
    the callback's parameter order, whatever the pipeline's zip order or pattern names."""
    if el[0] == 'call':
        args = el[2:]
        if 'custom' in name:
            # f(slice) / f(slice_self, slice_other): every slice must be [start, end)
            if not args or any(a[0] != 'slice' for a in args):
                return None
            first = args[0]
            if any(a[2] != first[2] or a[3] != first[3] for a in args[1:]):
                return None
            want = ['self', 'other'][:len(args)]
            if [a[1] for a in args] != want[:len(args)] or \
                    len(args) != (2 if name.startswith('rolling2') else 1):
                return None
            return (first[2], None, first[3])
        if 'idx' in name:
            return (args[0], args[2], args[1]) if len(args) == 3 else None
        return (args[0], args[1], None) if len(args) == 2 else None
    if el[0] != 'map' or not isinstance(el[2], tuple) or el[2][0] != 'pair':
        return None
    a, b = el[2][1], el[2][2]
    if 'custom' in name:
        return (b, None, a)                  # (end, start)
    if 'idx' in name:
        # enumerate: (end, (v, start)) / (end, ((v, v2), start))
        if b[0] != 'pair':
            return None
        return (b[2], b[1], a)
    return (a, b, None)                      # (v_remove, v)


def _idx_forms(el):
    out = []
    if el[0] == 'idx':
        return [el[1]]
    for x in el[1:]:
        if isinstance(x, tuple) and x and isinstance(x[0], str):
            out.extend(_idx_forms(x))
    return out


def _fills(el):
    out = []
    if el[0] == 'fill':
        return [el[1]]
    for x in el[1:]:
        if isinstance(x, tuple) and x and isinstance(x[0], str):
            out.extend(_fills(x))
    return out


def check_drivers(run, F, rules=('IDX.driver', 'IDX.other', 'DRV.cover', 'DRV.early', 'DRV.args',
                                 'DRV.iter', 'SEQ.len')):
    for r in rules:
        if r in RULES:
            run.rule(r, RULES[r])
    for r in ('SEQ.len', 'SEQ.ret-len', 'SEQ.underflow'):
        run.rule(r, seqrules.RULES[r])
    n = 0
    for name in TO_FNS:
        n += check_kernel_form(run, F, name, rules)
    for name in ITER_FNS:
        check_iter_form(run, F, name, rules)
    return n
