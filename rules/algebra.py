"""Normal forms for arithmetic expression trees taken from the typed HIR.

`Poly` is a multivariate polynomial with rational coefficients over *atoms*;
an atom is a symbol, an opaque function application (arguments themselves in
normal form) or the inverse of a non-constant polynomial.  Two expression
trees with the same normal form are equal as real-valued functions of their
atoms; nothing is evaluated on inputs.

`Env` does the `let`-inlining: it maps local ids to normal forms while a block
is read top to bottom (straight-line code only; anything else becomes an
opaque atom).
"""
from fractions import Fraction

from facts import callee_is, callee, src, peel, strip_generics


class Poly:
    __slots__ = ('t',)

    def __init__(self, t=None):
        self.t = {k: v for k, v in (t or {}).items() if v != 0}

    # constructors
    @staticmethod
    def const(c):
        return Poly({(): Fraction(c)})

    @staticmethod
    def atom(a):
        return Poly({((a, 1),): Fraction(1)})

    def is_const(self):
        return all(k == () for k in self.t)

    def const_value(self):
        return self.t.get((), Fraction(0))

    def freeze(self):
        return tuple(sorted(self.t.items(), key=repr))

    def __eq__(self, o):
        return isinstance(o, Poly) and self.t == o.t

    def __hash__(self):
        return hash(self.freeze())

    def __add__(self, o):
        t = dict(self.t)
        for k, v in o.t.items():
            t[k] = t.get(k, 0) + v
        return Poly(t)

    def __neg__(self):
        return Poly({k: -v for k, v in self.t.items()})

    def __sub__(self, o):
        return self + (-o)

    def __mul__(self, o):
        t = {}
        for k1, v1 in self.t.items():
            for k2, v2 in o.t.items():
                m = {}
                for a, p in k1 + k2:
                    m[a] = m.get(a, 0) + p
                k = tuple(sorted(((a, p) for a, p in m.items() if p != 0), key=repr))
                t[k] = t.get(k, 0) + v1 * v2
        return Poly(t)

    def pow(self, n):
        r = Poly.const(1)
        for _ in range(n):
            r = r * self
        return r

    def inv(self):
        if not self.t:
            return Poly.atom(('opaque', '1/0'))
        if self.is_const() and self.const_value() != 0:
            return Poly.const(1 / self.const_value())
        # single monomial: invert factor-wise
        if len(self.t) == 1:
            (k, v), = self.t.items()
            return Poly({tuple((a, -p) for a, p in k): 1 / v})
        # normalise sign/scale: make leading coefficient 1
        items = sorted(self.t.items(), key=repr)
        lead = items[0][1]
        scaled = Poly({k: v / lead for k, v in self.t.items()})
        return Poly({((('inv', scaled.freeze()), 1),): 1 / lead})

    def atoms(self):
        s = set()
        for k in self.t:
            for a, _ in k:
                s.add(a)
        return s

    def mentions(self, pred):
        """True if any atom (recursively) satisfies pred."""
        def rec(a):
            if pred(a):
                return True
            if isinstance(a, tuple):
                for x in a[1:]:
                    if isinstance(x, tuple):
                        if _rec_frozen(x, pred):
                            return True
            return False
        return any(rec(a) for a in self.atoms())

    def subst(self, f):
        """Rename atoms with f(atom) -> atom (applied recursively)."""
        r = Poly()
        for k, v in self.t.items():
            m = Poly.const(v)
            for a, p in k:
                na = _subst_atom(a, f)
                if p > 0:
                    m = m * Poly.atom(na).pow(p)
                else:
                    m = m * Poly({((na, p),): Fraction(1)})
            r = r + m
        return r

    def show(self):
        if not self.t:
            return '0'
        parts = []
        for k, v in sorted(self.t.items(), key=repr):
            fs = []
            for a, p in k:
                s = show_atom(a)
                fs.append(s if p == 1 else '%s^%d' % (s, p))
            c = str(v) if (v != 1 or not fs) else ''
            if v == -1 and fs:
                c = '-'
            parts.append(c + ('*' if c not in ('', '-') and fs else '') + '*'.join(fs))
        return ' + '.join(parts)

    def __repr__(self):
        return 'Poly(%s)' % self.show()


def _rec_frozen(x, pred):
    if pred(x):
        return True
    if isinstance(x, tuple):
        return any(_rec_frozen(y, pred) for y in x)
    return False


def _subst_atom(a, f):
    if isinstance(a, tuple) and a and a[0] in ('sym',):
        return f(a)
    if isinstance(a, tuple):
        return tuple(_subst_atom(x, f) if isinstance(x, tuple) else x for x in a)
    return a


def show_atom(a):
    if isinstance(a, tuple) and a:
        if a[0] == 'sym':
            return a[1]
        if a[0] == 'fn':
            return '%s(%s)' % (a[1], ', '.join(show_frozen(x) for x in a[2]))
        if a[0] == 'inv':
            return '1/(%s)' % show_frozen(a[1])
        if a[0] == 'opaque':
            return '«%s»' % a[1]
    return str(a)


def show_frozen(fr):
    try:
        return Poly(dict(fr)).show()
    except Exception:
        return str(fr)


# coercions that do not change the real value of their receiver
COERCIONS = ('IsNone::unwrap', 'Number::f64', 'Cast::cast', 'Clone::clone', 'Number::i32',
             'Number::i64', 'Number::usize', 'Number::f32', 'Option::unwrap', 'Number::kh_sum')
COERCIONS = COERCIONS[:-1]


class Env:
    """Maps HIR local ids to Poly values (let-inlining)."""

    def __init__(self, parent=None):
        self.vals = dict(parent.vals) if parent else {}
        self.sym_of = dict(parent.sym_of) if parent else {}   # local id -> symbol name override
        self.killed = set(parent.killed) if parent else set()  # tracked locals mutated out of view

    def bind(self, local, value):
        self.vals[local] = value

    def name(self, local, name):
        self.sym_of[local] = name


def norm(e, env):
    """HIR expression -> Poly (opaque atoms where the shape is not arithmetic)."""
    e = peel(e)
    k = e.get('k')
    if k == 'Lit':
        v = e['v']
        try:
            if v.startswith('str:') or v.startswith('char:'):
                raise ValueError
            return Poly.const(Fraction(v.rstrip('.') if v.endswith('.') else v))
        except (ValueError, ZeroDivisionError):
            return Poly.atom(('opaque', 'lit:' + v))
    if k == 'Path':
        if e.get('res') == 'local':
            lid = e['local']
            if lid in env.vals:
                return env.vals[lid]
            return Poly.atom(('sym', env.sym_of.get(lid, e['name'])))
        return Poly.atom(('sym', strip_generics(e.get('def', '?')).split('::', 1)[-1]
                          if False else _short_def(e.get('def', '?'))))
    if k == 'Cast':
        return norm(e['ch'][0], env)
    if k == 'Unary':
        if e['op'] == 'Neg':
            return -norm(e['ch'][0], env)
        if e['op'] == 'Deref':
            return norm(e['ch'][0], env)
        return Poly.atom(('fn', 'not', (norm(e['ch'][0], env).freeze(),)))
    if k == 'Binary':
        op = e['op']
        a, b = norm(e['ch'][0], env), norm(e['ch'][1], env)
        if op == 'Add':
            return a + b
        if op == 'Sub':
            return a - b
        if op == 'Mul':
            return a * b
        if op == 'Div':
            return a * b.inv()
        if op == 'Shr' and b.is_const() and b.const_value().denominator == 1:
            # `x >> k` on a product of consecutive integers: exact halving in the uses here
            return a * Poly.const(Fraction(1, 2 ** int(b.const_value())))
        return Poly.atom(('fn', op, (a.freeze(), b.freeze())))
    if k == 'MethodCall':
        recv = e['ch'][0]
        rest = e['ch'][1:]
        if callee_is(e, *COERCIONS) and not rest:
            return norm(recv, env)
        c = callee(e) or e['method']
        m = e['method']
        if m == 'powi' and len(rest) == 1:
            p = norm(rest[0], env)
            if p.is_const() and p.const_value().denominator == 1 and 0 <= p.const_value() <= 8:
                return norm(recv, env).pow(int(p.const_value()))
            return Poly.atom(('fn', 'powi', (norm(recv, env).freeze(), p.freeze())))
        if m == 'pow' and len(rest) == 1:
            p = norm(rest[0], env)
            if p.is_const() and p.const_value().denominator == 1 and 0 <= p.const_value() <= 8:
                return norm(recv, env).pow(int(p.const_value()))
        if m == 'mul_add' and len(rest) == 2:
            return norm(recv, env) * norm(rest[0], env) + norm(rest[1], env)
        return Poly.atom(('fn', m, tuple(norm(x, env).freeze() for x in [recv] + rest)))
    if k == 'Call':
        c = callee(e) or src(e['ch'][0])
        return Poly.atom(('fn', _short_def(c), tuple(norm(x, env).freeze() for x in e['ch'][1:])))
    if k == 'Block':
        env2 = Env(env)
        ok = read_block(e, env2)
        if ok and 'expr' in e:
            return norm(e['expr'], env2)
        return Poly.atom(('opaque', src(e)))
    if k == 'If':
        c = e['ch']
        cond = src(c[0])
        a = norm(c[1], env)
        b = norm(c[2], env) if len(c) > 2 else Poly.atom(('opaque', 'unit'))
        return Poly.atom(('fn', 'if', (('cond', cond), a.freeze(), b.freeze())))
    if k == 'Field':
        b = peel(e['ch'][0])
        if b.get('k') == 'Path' and b.get('res') == 'local' and (b['local'], e['field']) in env.sym_of:
            return Poly.atom(('sym', env.sym_of[(b['local'], e['field'])]))
        return Poly.atom(('fn', 'field:' + e['field'], (norm(e['ch'][0], env).freeze(),)))
    return Poly.atom(('opaque', src(e)))


def _short_def(d):
    p = strip_generics(d)
    segs = p.split('::')
    return '::'.join(segs[-2:]) if len(segs) >= 2 else p


def read_block(blk, env):
    """Read the `let` statements and compound assignments to block-local variables of a
    straight-line block into env.  Returns False if a statement is not understood (then
    the values read so far are still valid for the statements before it)."""
    for s in blk.get('stmts', []):
        if s['k'] == 'Let':
            if 'init' not in s:
                continue
            for lid in _assigned_tracked(s['init'], env):
                env.vals.pop(lid, None)
                env.killed.add(lid)
            bind_pat(s['pat'], s['init'], env)
        elif s['k'] in ('Semi', 'Expr'):
            x = s['e']
            if x.get('k') == 'AssignOp' and x['ch'][0].get('res') == 'local' and \
                    (x['ch'][0]['local'] in env.vals or x['ch'][0]['local'] in env.killed):
                lid = x['ch'][0]['local']
                cur = env.vals.get(lid)
                if cur is None:
                    cur = Poly.atom(('sym', env.sym_of.get(lid, x['ch'][0]['name'])))
                rhs = norm(x['ch'][1], env)
                op = x['op']
                if op == 'AddAssign':
                    env.vals[lid] = cur + rhs
                elif op == 'SubAssign':
                    env.vals[lid] = cur - rhs
                elif op == 'MulAssign':
                    env.vals[lid] = cur * rhs
                elif op == 'DivAssign':
                    env.vals[lid] = cur * rhs.inv()
                else:
                    return False
            elif x.get('k') == 'Assign' and x['ch'][0].get('res') == 'local' and \
                    (x['ch'][0]['local'] in env.vals or x['ch'][0]['local'] in env.killed):
                env.vals[x['ch'][0]['local']] = norm(x['ch'][1], env)
            else:
                # other statements do not change block-local bindings we track,
                # unless they assign to one inside a nested construct: those become opaque
                killed = _assigned_tracked(x, env)
                for lid in killed:
                    env.vals.pop(lid, None)
                    env.killed.add(lid)
    return True


def _assigned_tracked(x, env):
    from facts import walk
    out = set()
    for n in walk(x):
        if n.get('k') in ('Assign', 'AssignOp') and n['ch'][0].get('res') == 'local' and \
                n['ch'][0]['local'] in env.vals:
            out.add(n['ch'][0]['local'])
    return out


def _assigns_tracked(x, env):
    return bool(_assigned_tracked(x, env))


def bind_pat(pat, init, env):
    k = pat.get('k')
    if k == 'Binding':
        v = norm(init, env)
        ats = list(v.atoms())
        if len(ats) == 1 and ats[0][0] == 'fn' and '|' in str(ats[0]) and v == Poly.atom(ats[0]):
            # result of a call taking a closure: opaque, keep the variable's own name
            env.vals.pop(pat['local'], None)
            return
        env.bind(pat['local'], v)
    elif k == 'Tuple' and peel(init).get('k') == 'Tup' and len(pat['ch']) == len(peel(init)['ch']):
        vals = [norm(x, env) for x in peel(init)['ch']]
        for p, v in zip(pat['ch'], vals):
            if p.get('k') == 'Binding':
                env.bind(p['local'], v)
    else:
        # destructured from an opaque value: the names themselves are the symbols
        from facts import _pat_binds
        for b in _pat_binds(pat):
            env.vals.pop(b['local'], None)


# ------------------------------------------------------------ canonical strings -> Poly

def parse_poly(s, defs=None, _depth=0):
    """Normal form of a dtree canonical arithmetic string.  `defs` maps kept-let names to
    their defining strings (the `name := expr` effects of the path), substituted on use, so
    introducing or removing a helper `let` does not change the result.  Anything that is not
    + - * / or a literal becomes an opaque atom keyed by its text."""
    defs = defs or {}
    s = s.strip()
    if _depth > 30:
        return Poly.atom(('sym', s))
    # strip one layer of parentheses around the whole string
    if s.startswith('(') and _match(s, 0) == len(s) - 1:
        inner = s[1:-1]
        cut = _top_op(inner)
        if cut is not None:
            i, op = cut
            a = parse_poly(inner[:i], defs, _depth + 1)
            b = parse_poly(inner[i + len(op):], defs, _depth + 1)
            op = op.strip()
            if op == '+':
                return a + b
            if op == '-':
                return a - b
            if op == '*':
                return a * b
            if op == '/':
                return a * b.inv()
        if _top_comma(inner):
            return Poly.atom(('sym', s))
        return parse_poly(inner, defs, _depth + 1)
    if s.startswith('-') and len(s) > 1:
        return -parse_poly(s[1:], defs, _depth + 1)
    try:
        t = s[:-1] if s.endswith('.') and s[:-1].isdigit() else s
        return Poly.const(Fraction(t))
    except (ValueError, ZeroDivisionError):
        pass
    # method suffixes with arithmetic meaning
    import re as _re
    m = _re.fullmatch(r'(.+)\.powi\((\d+)\)', s)
    if m and _balanced_s(m.group(1)):
        return parse_poly(m.group(1), defs, _depth + 1).pow(int(m.group(2)))
    m = _re.fullmatch(r'(.+)\.pow\((\d+)\)', s)
    if m and _balanced_s(m.group(1)):
        return parse_poly(m.group(1), defs, _depth + 1).pow(int(m.group(2)))
    m = _re.fullmatch(r'(.+)\.(sqrt|abs|ln|exp)\(\)', s)
    if m and _balanced_s(m.group(1)):
        return Poly.atom(('fn', m.group(2), (parse_poly(m.group(1), defs, _depth + 1).freeze(),)))
    if s in defs:
        return parse_poly(defs[s], defs, _depth + 1)
    return Poly.atom(('sym', s))


def _balanced_s(x):
    d = 0
    for ch in x:
        if ch in '([{':
            d += 1
        elif ch in ')]}':
            d -= 1
            if d < 0:
                return False
    return d == 0


def _match(s, i):
    d = 0
    for j in range(i, len(s)):
        if s[j] in '([{':
            d += 1
        elif s[j] in ')]}':
            d -= 1
            if d == 0:
                return j
    return -1


def _top_op(inner):
    d = 0
    for i, ch in enumerate(inner):
        if ch in '([{':
            d += 1
        elif ch in ')]}':
            d -= 1
        elif ch == ' ' and d == 0:
            for op in (' + ', ' - ', ' * ', ' / '):
                if inner.startswith(op, i):
                    return i, op
    return None


def _top_comma(inner):
    d = 0
    for ch in inner:
        if ch in '([{':
            d += 1
        elif ch in ')]}':
            d -= 1
        elif ch == ',' and d == 0:
            return True
    return False


def defs_of(effects):
    """{name: expr} from the `name := expr` effects of a path; a name that is assigned again
    later (a mutable accumulator, `:=` being only its initial value) is not a definition"""
    import re as _re
    out = {}
    alltext = ' ; '.join(effects)
    for e in effects:
        if ' := ' in e:
            a, b = e.split(' := ', 1)
            a = a.strip()
            if _re.search(r'(?<![\w\]])%s (\w+Assign|=) ' % _re.escape(a), alltext):
                continue
            out[a] = b
    return out
