"""FDIFF - fractional difference (tevec/src/rolling.rs, feature `fdiff`): weight generator,
alignment of the weight vector with the window slice, null handling."""
import re

import dtree
import lia
from lia import L, add, sub, scale
import nullrules as N
from kernels import find_kernels

RULES = {
    'FDIFF.coef': 'fdiff_coef(d, w) lists binom(d, k) * (-1)^k for k = w-1 down to 0 (the last '
                  'weight, for the most recent element, is +1): decision table of the generator',
    'FDIFF.align': 'the window slice (or its non-null elements) is zipped with exactly as many '
                   'weights as it has elements, so the most recent element always meets the '
                   'weight of lag 0 - also while the window is still filling',
    'FDIFF.nonnull': 'on a path where the window may contain nulls the weights are zipped with '
                     'the non-null elements only (the k-th most recent valid element gets lag k)',
    'FDIFF.gate': 'the null-aware form yields a value only on paths where the window holds at least the '
                  'effective min_periods (the request clamped to the window) valid elements: proved from the '
                  'path\'s own tests over the valid count (linear arithmetic), so a full-length window with too '
                  'few valid elements is null',
    'FDIFF.fold': 'the fold adds value * weight (skipping a null value in the null-aware form)',
}

COEF = re.compile(r'rolling::fdiff_coef\(d, (.+)\)\.titer\(\)(?:\.skip\((.+)\))?$')


def _term(x):
    """linear term over window / LEN (slice length) / N (valid count)"""
    x = x.strip()
    if x == 'window':
        return L('window')
    if x in ('a0.titer().count_valid()',):
        return L('N')
    if x in ('a0.len()', 'a0.titer().len()'):
        return L('LEN')
    if re.fullmatch(r'\d+', x):
        return L(int(x))
    if re.fullmatch(r'min\(min_periods\.unwrap_or\(.+\), window\)|min\(window, min_periods\.unwrap_or\(.+\)\)', x):
        return L('MP')   # the effective min_periods: the request (or its default) clamped to the window
    m = re.fullmatch(r'\((.+) - (.+)\)', x)
    if m:
        a, b = _term(m.group(1)), _term(m.group(2))
        return sub(a, b) if a is not None and b is not None else None
    m = re.fullmatch(r'rolling::fdiff_coef\(d, (.+)\)\.len\(\)', x)
    if m:
        return _term(m.group(1))
    return None


def _facts(cs):
    fs = [L('N'), sub(L('LEN'), L('N')), sub(L('window'), L('LEN')), add(L('LEN'), L(-1))]
    for c in cs:
        m = re.fullmatch(r'\((.+) (==|<=|<|!=) (.+)\)', c)
        if not m:
            continue
        a, b = _term(m.group(1)), _term(m.group(3))
        if a is None or b is None:
            continue
        d = sub(b, a)
        if m.group(2) == '==':
            fs += [d, scale(d, -1)]
        elif m.group(2) == '<=':
            fs.append(d)
        elif m.group(2) == '<':
            fs.append(add(d, L(-1)))
    return fs


def _fold_tables_ok(fn, k, valid_form):
    from facts import walk, peel
    cls = [x for x in walk(k.closure['ch'][0]) if x.get('k') == 'Closure' and len(x.get('params', [])) == 2]
    if not cls:
        return False
    for cl in cls:
        t = dtree.closure_table(fn.hir, cl, N.self_env(fn))
        rows = {(frozenset(cs), l[7:] if l.startswith('return ') else l, tuple(ef)) for cs, l, ef in t}
        ok = False
        for a in 'abc':
            acc, v, w = a + '0', a + '1', a + '2'
            val = '((%s * %s) + %s)' % (v, w, acc)
            if valid_form:
                want = {(frozenset({'VALID(%s)' % v}), val, ()), (frozenset({'!VALID(%s)' % v}), acc, ())}
            else:
                want = {(frozenset(), val, ())}
            ok = ok or rows == want
        if not ok:
            return False
    return True


def check(run, F):
    for r, t in RULES.items():
        run.rule(r, t)
    fns = [f for f in F.fns if f.name == 'fdiff_coef' and f.file.endswith('tevec/src/rolling.rs')]
    if not fns:
        return 0
    t = N.tbl(fns[0])
    body = '0..window.rev().map(|a0| sign = -sign; (tea_ffi::binom(d, a0) * sign)).collect_trusted_to_vec()'
    # the sign is flipped before use: starting from +1 for an even window, lag k gets (-1)^k
    want = N.T((['((window % 2) == 0)'], body, ['sign := 1.']), (['((window % 2) != 0)'], body, ['sign := -1.']))
    run.ob('FDIFF.coef', fns[0], 'weights by lag, oldest first', t == want, fns[0].loc(), 'table %s' % dtree.show(t))
    n = 0
    for k in find_kernels(F):
        if 'fdiff' not in k.name or not k.custom:
            continue
        n += 1
        fn = k.fn
        valid_form = k.name.startswith('ts_v')
        tb = dtree.closure_table(fn.hir, k.closure, N.self_env(fn))
        folds = 0
        for cs, leaf, ef in tb:
            if leaf == 'NULL':
                continue
            m = re.fullmatch(r'(.+)\.zip\((.+)\)\.fold\(0\., (\|b0, b1, b2\| .+)\)', leaf)
            key = 'zip under [%s]' % ', '.join(sorted(c.replace('a0.titer().count_valid()', 'n') for c in cs))
            if not m:
                run.ob('FDIFF.align', fn, key, False, fn.loc(), 'result is not a fold over values zipped with weights: %s' % leaf[:100])
                continue
            folds += 1
            X, W, f = m.groups()
            lenX = L('LEN') if X == 'a0.titer()' else L('N') if X == 'a0.titer().filter(IsNone::not_none)' else None
            cm = COEF.match(W)
            lenW = None
            skip_ok = True
            if cm:
                lenW = _term(cm.group(1))
                if cm.group(2) and lenW is not None:
                    s_ = _term(cm.group(2))
                    lenW = sub(lenW, s_) if s_ is not None else None
            fs = _facts(cs)
            if cm and cm.group(2) and lenW is not None:
                # the skip must not exceed the weight count
                skip_ok = lia.entails_ge0(fs, lenW)
            ok = lenX is not None and lenW is not None and skip_ok and \
                lia.entails_ge0(fs, sub(lenX, lenW)) and lia.entails_ge0(fs, sub(lenW, lenX))
            run.ob('FDIFF.align', fn, key, ok, fn.loc(),
                   '%s values zipped with %s weights: %s' % (
                       lia.show(lenX) if lenX is not None else '?', lia.show(lenW) if lenW is not None else '?',
                       'equal on this path' if ok else
                       'not equal for every window fill (slice length LEN <= window; N valid of them): the '
                       'most recent element does not meet lag 0 -- values `%s`, weights `%s`' % (X, W)))
            if valid_form:
                # MP <= window holds because the effective min_periods is `min(.., window)`; a path that never
                # mentions it relies on exactly that clamp
                gate = lia.entails_ge0(fs + [sub(L('window'), L('MP'))], sub(L('N'), L('MP')))
                run.ob('FDIFF.gate', fn, key, gate, fn.loc(),
                       'valid count >= effective min_periods on this path: %s' % gate)
                all_valid = lia.entails_ge0(fs, sub(L('N'), L('LEN')))
                okn = X == 'a0.titer().filter(IsNone::not_none)' or all_valid
                run.ob('FDIFF.nonnull', fn, key, okn, fn.loc(),
                       'values `%s`; window proved null-free on this path: %s' % (X, all_valid))
            wantf = '|b0, b1, b2| if VALID(b1) { ((b1 * b2) + b0) } else { b0 }' if valid_form else \
                '|b0, b1, b2| ((b1 * b2) + b0)'
            okf = f == wantf
            if not okf:
                # any spelling of the fold function (negated test, early `return acc`, `pair.0 / .1`):
                # its decision table is `valid -> acc + v * w`, `null -> acc`
                okf = _fold_tables_ok(fn, k, valid_form)
            run.ob('FDIFF.fold', fn, key, okf, fn.loc(), 'fold `%s`' % f)
        run.floor('FDIFF.align', 'fold paths in %s' % k.name, folds, 2 if valid_form else 1)
    return n
