"""Decision trees of small functions / element closures.

`paths(body, env)` enumerates the control paths of an expression as
(conditions, leaf, effects): conditions is a frozenset of canonical predicate strings (with a
leading '!' for the false branch), leaf is the canonical string of the produced value,
effects the canonical assignments made on the path.  Coercions that do not change the value
(clone / unwrap / cast / to_opt / as_ref / f64 ...) are erased and immutable `let`s are
inlined, so the normal form survives renaming, let-introduction, if/else nesting order of
independent tests and `&`/`&&`.
"""
import re
from facts import (callee_is, callee, peel, src, strip_generics, children, is_local, _pat_binds,
                   try_operand, pat_src)

ERASE = ('Clone::clone', 'IsNone::unwrap', 'Option::unwrap', 'Cast::cast', 'IsNone::to_opt',
         'Option::as_ref', 'IsNone::as_opt', 'Number::f64', 'Into::into', 'From::from',
         'Option::cloned', 'ToOwned::to_owned', 'Option::as_mut', 'Borrow::borrow',
         'Deref::deref', 'AsRef::as_ref', 'Number::to')
NULLS = ('f64::NAN', 'f32::NAN', '::None', 'IsNone::none')


def _fresh(env, cls):
    """next positional name of a class of bound locals: closure parameters a0.. (b0.. one
    closure deeper), pattern binds m0.., kept (mutable / effectful) lets v0.."""
    key = '__n_%s__' % cls
    n = env.get(key, 0)
    env[key] = n + 1
    return '%s%d' % (cls, n)


_EFFECTFUL = re.compile(r'\.(next|next_back|nth|pop\w*|push\w*|insert|remove|replace|swap|write|uset|set|'
                        r'sort\w*|truncate|retain|drain|extend|clear|select_nth\w*|'
                        r'fetch_\w+|borrow_mut|lock)\(|\.take\(\)')


def _inlineable(pat, c, en):
    """may the immutable `let pat = <c>` be replaced by its initialiser at its uses?  Not when
    it is mutable, long, contains a closure, reads state that is assigned later, or calls a
    method that consumes / mutates its receiver."""
    if pat.get('mut') or len(c) > 60 or '|' in c:
        return False
    if str(pat.get('ty', '')).startswith('(') and not re.fullmatch(r'[\w.]+(\(\))?', c):
        # a computed pair bound whole is kept under a name and read by projection, exactly as
        # when it is taken apart by a tuple pattern
        return False
    if re.search(r'\bself\.\w', c) and not c.endswith(')'):
        return False
    if _EFFECTFUL.search(c):
        return False
    mut_names = {en.get(l_, n_) for l_, n_ in en.get('__mutated__', ()) if n_ != 'self'}
    # a mutated local named like a function (`min`, `max`) is not that function's call
    return not any(re.search(r'(?<![\w.:])%s(?![\w(])' % re.escape(m_), c) for m_ in mut_names)


def _assign_str(e, env):
    """canonical text of an assignment; `x = x + e` / `x = e + x` / `x = x - e` are spelled as
    the compound forms `x AddAssign e` / `x SubAssign e`"""
    tgt = canon(e['ch'][0], env)
    if e.get('k') == 'AssignOp':
        return '%s %s %s' % (tgt, e['op'], canon(e['ch'][1], env))
    r = peel(e['ch'][1])
    if r.get('k') == 'Binary' and r['op'] in ('Add', 'Sub', 'Mul', 'Div'):
        a, b = canon(r['ch'][0], env), canon(r['ch'][1], env)
        if a == tgt:
            return '%s %sAssign %s' % (tgt, r['op'], b)
        if b == tgt and r['op'] in ('Add', 'Mul'):
            return '%s %sAssign %s' % (tgt, r['op'], a)
    return '%s = %s' % (tgt, canon(e['ch'][1], env))


def _bind_params(pats, env):
    """closure parameters and `for` patterns are named by position: a0, a1 .. at depth 0,
    b0 .. one level deeper (a loop body is the body of its `for_each` closure)"""
    d = env.get('__cdepth__', 0)
    env['__cdepth__'] = d + 1
    names = []
    for p in pats:
        ar = _tuple_arity(p.get('ty')) if p.get('k') == 'Binding' and not p.get('ch') and not p.get('mut') else 0
        if ar >= 2:
            # a pair bound whole is the pair of its components (read by `.0` / `.1` or taken apart
            # by a later `let`): the same names as when the parameter is a tuple pattern
            parts = []
            for _ in range(ar):
                nm = '%s%d' % ('abcdefgh'[min(d, 7)], len(names))
                names.append(nm)
                parts.append(nm)
            env[p['local']] = '(' + ', '.join(parts) + ')'
            continue
        for b in _pat_binds(p):
            nm = '%s%d' % ('abcdefgh'[min(d, 7)], len(names))
            env[b['local']] = nm
            names.append(nm)
    return names


def _tuple_arity(ty):
    """number of components of a tuple type `(A, B<C, D>, ..)`, 0 for anything else"""
    ty = (ty or '').strip()
    if not (ty.startswith('(') and ty.endswith(')')) or ty == '()':
        return 0
    depth, n = 0, 1
    for i, ch in enumerate(ty):
        if ch in '(<[':
            depth += 1
        elif ch in ')>]':
            depth -= 1
            if depth == 0 and i != len(ty) - 1:
                return 0
        elif ch == ',' and depth == 1:
            n += 1
    return n if not ty.rstrip(')').rstrip().endswith(',') else n - 1


def _tuple_parts(c, n):
    """components of a tuple written out as text `(x, y)` of arity n, else None"""
    if c.startswith('(') and c.endswith(')') and _balanced(c[1:-1]):
        ps = _split_top(c[1:-1])
        if len(ps) == n and n >= 2:
            return ps
    return None


def _balanced(s):
    d = 0
    for ch in s:
        if ch in '([{':
            d += 1
        elif ch in ')]}':
            d -= 1
            if d < 0:
                return False
    return d == 0


def _split_top(s):
    out, d, cur = [], 0, ''
    for ch in s:
        if ch in '([{':
            d += 1
        elif ch in ')]}':
            d -= 1
        if ch == ',' and d == 0:
            out.append(cur.strip())
            cur = ''
        else:
            cur += ch
    out.append(cur.strip())
    return out


def _keep_name(env, local):
    """name of a kept let: forced by the caller through env['__names__'] (role detection on
    the HIR) or positional"""
    forced = env.get('__names__', {})
    if local in forced:
        return forced[local]
    return _fresh(env, 'v')


def pat_canon(p, env, scr=None):
    """Canonical pattern text; binds get positional names (or the scrutinee itself for the
    payload of `Some(x)`, coercions being erased)."""
    k = p.get('k')
    if k == 'Binding':
        if 'ch' in p and p['ch']:
            nm = _fresh(env, 'm')
            env[p['local']] = nm
            return nm + ' @ ' + pat_canon(p['ch'][0], env, scr)
        nm = scr if scr is not None else _fresh(env, 'm')
        env[p['local']] = nm
        return '_'
    if k == 'Wild':
        return '_'
    if k == 'Tuple':
        return '(' + ', '.join(pat_canon(c, env, '%s.%d' % (scr, i) if scr is not None else None)
                               for i, c in enumerate(p.get('ch', []))) + ')'
    if k == 'TupleStruct':
        d = strip_generics(p.get('def', '?'))
        name = '::'.join(d.split('::')[-2:])
        ch = p.get('ch', [])
        if d.endswith('Some') and len(ch) == 1:
            return 'Some(' + pat_canon(ch[0], env, scr) + ')'
        return name + '(' + ', '.join(pat_canon(c, env) for c in ch) + ')'
    if k == 'Or':
        return ' | '.join(sorted(pat_canon(c, env, scr) for c in p.get('ch', [])))
    if k in ('Ref', 'Deref'):
        return pat_canon(p['ch'][0], env, scr)
    for c in _pat_binds(p):
        env[c['local']] = _fresh(env, 'm')
    return pat_src(p)


_CMP_REL = {('Ordering::Less',): '(%(a)s < %(b)s)', ('Ordering::Greater',): '(%(b)s < %(a)s)',
            ('Ordering::Equal',): '(%(a)s == %(b)s)',
            ('Ordering::Equal', 'Ordering::Less'): '(%(a)s <= %(b)s)',
            ('Ordering::Equal', 'Ordering::Greater'): '(%(b)s <= %(a)s)',
            ('Ordering::Greater', 'Ordering::Less'): '(%(a)s != %(b)s)'}


def _cmp_relation(scr, txt):
    """`a.cmp(b) is Less` is `a < b` (Ord::cmp; and `a.partial_cmp(b) is Some(Less)`)"""
    m = re.fullmatch(r'(.+)\.(cmp|partial_cmp)\((.+)\)', scr)
    if not m or not _balanced(m.group(1)) or not _balanced(m.group(3)):
        return None
    t = txt
    if m.group(2) == 'partial_cmp':
        mm = re.fullmatch(r'Some\((.+)\)', t)
        if not mm:
            return None
        t = mm.group(1)
    key = tuple(sorted(x.strip() for x in t.split('|')))
    f = _CMP_REL.get(key)
    if f is None:
        return None
    a, b = m.group(1), m.group(3)
    r = f % {'a': a, 'b': b}
    # equality / inequality operands are spelled in sorted order like every == / !=
    mm = re.fullmatch(r'\((.+) (==|!=) (.+)\)', r)
    if mm and mm.group(3) < mm.group(1) and _balanced(mm.group(1)):
        r = '(%s %s %s)' % (mm.group(3), mm.group(2), mm.group(1))
    return r


def _arm_cond(scr, pat, env):
    """predicate string of `scr matches pat` (Option patterns become VALID tests)."""
    txt = pat_canon(pat, env, scr)
    rel = _cmp_relation(scr, txt)
    if rel is not None:
        return rel
    if txt == 'Some(_)':
        return 'VALID(%s)' % scr
    if txt in ('option::None', 'Option::None', 'v1::None', 'None') or txt.endswith('::None'):
        return '!VALID(%s)' % scr
    return '%s is %s' % (scr, txt)


def _rank(c):
    """which of a predicate and its negation spells an `if`: un-negated and `==` first"""
    return (c.startswith('!'), bool(re.fullmatch(r'\(.* != .*\)', c)), c)


def _opt_pat_kind(p):
    """'some' / 'none' / 'any' for an Option-shaped component pattern, else None"""
    k = p.get('k')
    if k in ('Wild', 'Binding') and not p.get('ch'):
        return 'any'
    if k == 'TupleStruct' and strip_generics(p.get('def', '')).endswith('Some') and \
            len(p.get('ch', [])) == 1 and p['ch'][0].get('k') in ('Wild', 'Binding'):
        return 'some'
    if k in ('Path', 'Struct', 'Expr') and pat_src(p).endswith('None'):
        return 'none'
    if k in ('Ref', 'Deref'):
        return _opt_pat_kind(p['ch'][0])
    if k == 'Expr' and pat_src(p) in ('true', 'false'):
        return pat_src(p)
    return None


def _tuple_match_rows(e, env):
    """`match (x, y) { (Some(a), None) => .., .. }` over Option components: one row per
    validity assignment of the tested components, each with the first arm that accepts it
    (source first-match semantics made explicit, so arm order no longer matters)."""
    scr = peel(e['ch'][0])
    if scr.get('k') != 'Tup':
        return None
    n = len(scr['ch'])
    arms = []
    for a in e['arms']:
        if 'guard' in a:
            return None
        p = a['pat']
        while p.get('k') in ('Ref', 'Deref'):
            p = p['ch'][0]
        if p.get('k') == 'Wild':
            kinds = ['any'] * n
            comps = [None] * n
        elif p.get('k') == 'Tuple' and len(p.get('ch', [])) == n:
            kinds = [_opt_pat_kind(c) for c in p['ch']]
            comps = p['ch']
            if None in kinds:
                return None
        else:
            return None
        arms.append((a, kinds, comps))
    names = [canon(c, env) for c in scr['ch']]
    tested = [i for i in range(n) if any(k[i] != 'any' for _, k, _ in arms)]
    import itertools
    rows = []
    for vals in itertools.product((True, False), repeat=len(tested)):
        asg = dict(zip(tested, vals))
        for a, kinds, comps in arms:
            if all(kinds[i] == 'any' or (kinds[i] in ('some', 'true')) == asg[i] for i in tested):
                en = dict(env)
                for i in range(n):
                    if comps[i] is not None:
                        pat_canon(comps[i], en, names[i])
                boolc = {i for i in tested if any(k_[i] in ('true', 'false') for _, k_, _ in arms)}
                conds = []
                for i in tested:
                    if i in boolc:
                        conds.extend(conj(scr['ch'][i], dict(env), asg[i]))
                    else:
                        conds.append(('VALID(%s)' if asg[i] else '!VALID(%s)') % names[i])
                rows.append((conds, a, en))
                break
    return rows


def canon(e, env):
    e = peel(e)
    k = e.get('k')
    if k == 'Path':
        if e.get('res') == 'local':
            return env.get(e['local'], e['name'])
        d = strip_generics(e.get('def', '?'))
        if d.endswith(NULLS):
            return 'NULL'
        segs = d.split('::')
        if e.get('res') in ('AssocFn', 'Fn') and '::'.join(segs[-2:]) in ERASE:
            return '|a0| a0'                       # `.map(Cast::cast)` is `.map(|v| v.cast())`
        return '::'.join(segs[-2:])
    if k == 'Lit':
        return e['v']
    if k == 'Cast':
        return canon(e['ch'][0], env)
    if k == 'AddrOf':
        return canon(e['ch'][0], env)
    if k == 'Block' and not e.get('stmts') and 'expr' in e:
        return canon(e['expr'], env)
    if k == 'MethodCall':
        if callee_is(e, *ERASE) and len(e['ch']) == 1:
            return canon(e['ch'][0], env)
        if callee_is(e, 'IsNone::not_none', 'Option::is_some') and len(e['ch']) == 1:
            return 'VALID(%s)' % canon(e['ch'][0], env)
        if callee_is(e, 'IsNone::is_none', 'Option::is_none') and len(e['ch']) == 1:
            return '!VALID(%s)' % canon(e['ch'][0], env)
        if callee_is(e, 'DateTime::is_nat', 'TimeDelta::is_nat', 'Time::is_nat') or \
                (e['method'] == 'is_nat' and len(e['ch']) == 1):
            return '!VALID(%s)' % canon(e['ch'][0], env)
        if e['method'] == 'is_not_nat' and len(e['ch']) == 1:
            return 'VALID(%s)' % canon(e['ch'][0], env)
        # `(a..b).contains(&x)` is `a <= x && x < b`; `(a..=b).contains(&x)` is `a <= x && x <= b`
        r0_ = peel(e['ch'][0])
        if e['method'] == 'contains' and len(e['ch']) == 2 and r0_.get('k') == 'Range' and \
                peel(r0_['ch'][0]).get('k') != 'Lit':
            lo_, hi_, x_ = canon(r0_['ch'][0], env), canon(r0_['ch'][1], env), canon(e['ch'][1], env)
            parts_ = sorted({'(%s <= %s)' % (lo_, x_), '(%s %s %s)' % (x_, '<=' if r0_.get('incl') else '<', hi_)})
            return '(%s)' % ' && '.join(parts_)
        args_ = [canon(x, env) for x in e['ch'][1:]]
        if e['method'] in ('min', 'max') and len(args_) == 1 and callee_is(e, 'Ord::min', 'Ord::max'):
            # `a.min(b)`, `b.min(a)`, `std::cmp::min(a, b)`: one spelling
            return '%s(%s)' % (e['method'], ', '.join(sorted([canon(e['ch'][0], env), args_[0]])))
        if e['method'] == 'unwrap_or_else' and len(args_) == 1 and args_[0] in ('IsNone::none', '|| NULL', 'NULL'):
            return '%s.unwrap_or(NULL)' % canon(e['ch'][0], env)
        # `o.map_or(d, f)` is `o.map(f).unwrap_or(d)`; `o.map_or_else(d, f)` is `o.map(f).unwrap_or_else(d)`
        if e['method'] == 'map' and args_ == ['|a0| a0'] and callee_is(e, 'Option::map') and _literal_identity(e['ch'][1]):
            return canon(e['ch'][0], env)          # mapping with the identity
        if e['method'] == 'map_or' and len(args_) == 2 and callee_is(e, 'Option::map_or'):
            if args_[1] == '|a0| a0' and _literal_identity(e['ch'][2]):
                return '%s.unwrap_or(%s)' % (canon(e['ch'][0], env), args_[0])
            return '%s.map(%s).unwrap_or(%s)' % (canon(e['ch'][0], env), args_[1], args_[0])
        if e['method'] == 'map_or_else' and len(args_) == 2 and callee_is(e, 'Option::map_or_else'):
            inner_ = '%s.map(%s)' % (canon(e['ch'][0], env), args_[1])
            if args_[1] == '|a0| a0' and _literal_identity(e['ch'][2]):
                inner_ = canon(e['ch'][0], env)
            if args_[0] in ('IsNone::none', '|| NULL', 'NULL'):
                return '%s.unwrap_or(NULL)' % inner_
            return '%s.unwrap_or_else(%s)' % (inner_, args_[0])
        # a default that is a pure nullary constructor: lazily or eagerly evaluated, the same value
        if e['method'] == 'unwrap_or_else' and len(args_) == 1 and \
                args_[0] in ('Zero::zero', 'One::one', 'Default::default', '|| Zero::zero()', '|| One::one()',
                             '|| Default::default()'):
            return '%s.unwrap_or(%s)' % (canon(e['ch'][0], env), args_[0].replace('|| ', '') if args_[0].startswith('||')
                                         else args_[0] + '()')
        return '%s.%s(%s)' % (canon(e['ch'][0], env), e['method'], ', '.join(args_))
    if k == 'Call':
        c = e['ch'][0]
        if e.get('callee_res', '').startswith('Ctor') and \
                strip_generics(e.get('callee', '')).endswith('Some') and len(e['ch']) == 2:
            return 'Some(%s)' % canon(e['ch'][1], env)
        if callee_is(e, 'IsNone::none'):
            return 'NULL'
        if callee_is(e, *ERASE) and len(e['ch']) == 2:
            return canon(e['ch'][1], env)          # `Cast::<U>::cast(v)` is `v.cast()`
        name = 'Self' if e.get('callee_res') == 'SelfCtor' else canon(c, env)
        a_ = [canon(x, env) for x in e['ch'][1:]]
        if not a_ and callee_is(e, 'TimeUnitTrait::unit') and e.get('targs'):
            # a nullary associated function whose meaning is its Self type
            return '%s::<%s>()' % (name, e['targs'][0])
        if callee_is(e, 'cmp::min', 'cmp::max') and len(a_) == 2:
            return '%s(%s)' % (name.split('::')[-1], ', '.join(sorted(a_)))
        if e.get('callee_res') == 'AssocFn' and a_ and a_[0] in ('self', 'self.view', 'self.0') and \
                '::' in name and name.split('::')[-1][:1].islower():
            # fully qualified call of a method on self: `Trait::m(self, x)` is `self.m(x)`
            return '%s.%s(%s)' % (a_[0], name.split('::')[-1], ', '.join(a_[1:]))
        return '%s(%s)' % (name, ', '.join(a_))
    if k == 'Binary':
        op = {'Lt': '<', 'Le': '<=', 'Gt': '>', 'Ge': '>=', 'Eq': '==', 'Ne': '!=', 'Add': '+',
              'Sub': '-', 'Mul': '*', 'Div': '/', 'Rem': '%', 'And': '&&', 'Or': '||',
              'BitAnd': '&', 'BitOr': '|'}.get(e['op'], e['op'])
        if op in ('&&', '||', '&', '|') and e.get('ty', 'bool') in ('bool', None, ''):
            # boolean connectives: flattened, operands sorted; a disjunction is spelled as the
            # negated conjunction of the negations (one normal form for De Morgan pairs)
            def flat(x, which):
                x = peel(x)
                if x.get('k') == 'Binary' and x['op'] in which:
                    return flat(x['ch'][0], which) + flat(x['ch'][1], which)
                return [x]
            if op in ('&&', '&'):
                parts = sorted(set(canon(x, env) for x in flat(e, ('And', 'BitAnd'))))
                return '(%s)' % ' && '.join(parts) if len(parts) > 1 else parts[0]
            parts = sorted(set(_neg(canon(x, env)) for x in flat(e, ('Or', 'BitOr'))))
            return '!(%s)' % ' && '.join(parts) if len(parts) > 1 else _neg(parts[0])
        a, b = canon(e['ch'][0], env), canon(e['ch'][1], env)
        if op in ('==', '!='):
            # comparison with a unit enum variant is a pattern test
            for x_, y_, nx in ((a, b, peel(e['ch'][0])), (b, a, peel(e['ch'][1]))):
                if nx.get('k') == 'Path' and nx.get('res') != 'local' and \
                        re.fullmatch(r'(\w+::)+[A-Z]\w*', x_) and not x_.endswith(NULLS):
                    p_ = _cmp_relation(y_, x_) or '%s is %s' % (y_, x_)
                    return p_ if op == '==' else _neg(p_)
                if nx.get('k') == 'Call' and re.fullmatch(r'Some\((\w+::)+[A-Z]\w*\)', x_) and \
                        peel(nx['ch'][1]).get('k') == 'Path' and peel(nx['ch'][1]).get('res') != 'local':
                    p_ = _cmp_relation(y_, x_) or '%s is %s' % (y_, x_)
                    return p_ if op == '==' else _neg(p_)
        if op in ('>', '>='):
            a, b, op = b, a, {'>': '<', '>=': '<='}[op]
        # unsigned operands: `0 < x`, `1 <= x` are `x != 0`; `x < 1`, `x <= 0` are `x == 0`
        uns = ('usize', 'u8', 'u16', 'u32', 'u64', 'u128')
        if op in ('<', '<=') and (peel(e['ch'][0]).get('ty') in uns or peel(e['ch'][1]).get('ty') in uns):
            if (op, a) in (('<', '0'), ('<=', '1')):
                a, b, op = '0', b, '!='
            elif (op, b) in (('<', '1'), ('<=', '0')):
                a, b, op = '0', a, '=='
        if op in ('==', '!=', '+', '*') and b < a:
            a, b = b, a
        return '(%s %s %s)' % (a, op, b)
    if k == 'Unary':
        if e['op'] == 'Not':
            return _neg(canon(e['ch'][0], env))
        if e['op'] == 'Neg':
            return '-' + canon(e['ch'][0], env)
        return canon(e['ch'][0], env)
    if k == 'Tup':
        return '(' + ', '.join(canon(x, env) for x in e['ch']) + ')'
    if k == 'Array':
        return '[' + ', '.join(canon(x, env) for x in e['ch']) + ']'
    if k == 'Index':
        return '%s[%s]' % (canon(e['ch'][0], env), canon(e['ch'][1], env))
    if k == 'Range':
        return '%s..%s%s' % (canon(e['ch'][0], env), '=' if e['incl'] else '', canon(e['ch'][1], env))
    if k == 'Field':
        b_ = canon(e['ch'][0], env)
        if e['field'].isdigit() and b_.startswith('(') and b_.endswith(')'):
            parts_ = _split_top(b_[1:-1])
            if len(parts_) > int(e['field']) and len(parts_) >= 2 and _balanced(b_[1:-1]):
                return parts_[int(e['field'])]          # projection of a tuple written out
        r_ = '%s.%s' % (b_, e['field'])
        return env.get('__fields__', {}).get(r_, r_)
    if k == 'Struct':
        return '%s{%s}' % ('::'.join(strip_generics(e.get('def', '?')).split('::')[-1:]),
                           ', '.join('%s: %s' % (f['field'], canon(f['e'], env))
                                     for f in e['fields']))
    if k == 'Closure':
        # closure parameters are named by position (a0, a1 .. at depth 0, b0 .. inside)
        env2 = dict(env)
        names = _bind_params(e.get('params', []), env2)
        body_ = canon(e['ch'][0], env2)
        if len(names) == 1 and body_ == 'VALID(%s)' % names[0]:
            return 'IsNone::not_none'          # eta: |x| x.not_none()
        if len(names) == 1 and body_ == '!VALID(%s)' % names[0]:
            return 'IsNone::is_none'
        # eta: |a| F(a) is the path F (a function or constructor named by path)
        b0_ = peel(e['ch'][0])
        while b0_.get('k') == 'Block' and not b0_.get('stmts') and 'expr' in b0_:
            b0_ = peel(b0_['expr'])
        if len(names) == 1 and b0_.get('k') == 'Call' and len(b0_['ch']) == 2 and \
                e['params'][0].get('k') == 'Binding' and peel(b0_['ch'][0]).get('res') != 'local' and \
                peel(b0_['ch'][1]).get('k') == 'Path' and peel(b0_['ch'][1]).get('local') == e['params'][0].get('local'):
            return canon(b0_['ch'][0], env)
        # eta: |a, b| a.m(b) is the path Trait::m
        b_ = peel(e['ch'][0])
        while b_.get('k') == 'Block' and not b_.get('stmts') and 'expr' in b_:
            b_ = peel(b_['expr'])
        if len(names) >= 1 and b_.get('k') == 'MethodCall' and len(b_['ch']) == len(names) and \
                not callee_is(b_, *ERASE) and \
                all(p_.get('k') == 'Binding' for p_ in e.get('params', [])) and \
                all(peel(a_).get('k') == 'Path' and peel(a_).get('local') == p_.get('local')
                    for a_, p_ in zip(b_['ch'], e['params'])) and b_.get('callee'):
            return '::'.join(strip_generics(b_['callee']).split('::')[-2:])
        return '|%s| %s' % (', '.join(names), body_)
    t = try_operand(e)
    if t is not None:
        return canon(t, env) + '?'
    if k == 'If':
        c = e['ch']
        if len(c) == 3 and peel(c[1]).get('k') == 'Lit' and peel(c[2]).get('k') == 'Lit' and \
                {peel(c[1]).get('v'), peel(c[2]).get('v')} == {'true', 'false'}:
            cc_ = conj(e, dict(env))
            return cc_[0] if len(cc_) == 1 else '(%s)' % ' && '.join(sorted(cc_))
        en = dict(env)
        cs = conj(c[0], en)
        if len(c) > 2 and e.get('ty') == 'bool' and len(cs) == 1:
            # a boolean-valued `if A { B } else { C }` with a literal branch is a formula:
            # C true: !A || B ; B true: A || C ; C false: A && B ; B false: !A && C
            # (a disjunction is spelled as the negated conjunction of the negations)
            def one(x, en_):
                x = peel(x)
                while x.get('k') == 'Block' and not x.get('stmts') and 'expr' in x:
                    x = peel(x['expr'])
                return canon(x, en_) if x.get('k') != 'Block' else None
            B, C = one(c[1], en), one(c[2], env)
            A = cs[0]

            def AND(x, y):
                return '(%s)' % ' && '.join(sorted({x, y}))
            if B is not None and C is not None:
                if C == 'true':
                    return '!%s' % AND(A, _neg(B))
                if B == 'true':
                    return '!%s' % AND(_neg(A), _neg(C))
                if C == 'false':
                    return AND(A, B)
                if B == 'false':
                    return AND(_neg(A), C)
        if len(c) > 2:
            ncs = conj(c[0], dict(env), False)
            # one spelling for `if c {A} else {B}` and `if !c {B} else {A}`
            if len(cs) == 1 and len(ncs) == 1 and _rank(ncs[0]) < _rank(cs[0]):
                return 'if %s { %s } else { %s }' % (ncs[0], canon(c[2], env), canon(c[1], en))
            return 'if %s { %s } else { %s }' % (' && '.join(cs), canon(c[1], en), canon(c[2], env))
        return 'if %s { %s }' % (' && '.join(cs), canon(c[1], en))
    if k == 'LetExpr':
        en = env
        return ' && '.join(conj(e, en))
    if k == 'Match' and _bool_match(e) is not None:
        c_, a_, b_ = _bool_match(e)
        return canon({'k': 'If', 'ch': [c_, a_, b_]}, env)
    if k == 'Match':
        tr = _tuple_match_rows(e, env)
        if tr is not None:
            rows_ = sorted((' && '.join(c), canon(a['body'], en)) for c, a, en in tr)
            if len(rows_) == 2 and rows_[1][0] == _neg(rows_[0][0]):
                (c0, b0), (c1, b1) = sorted(rows_, key=lambda x: _rank(x[0]))
                return 'if %s { %s } else { %s }' % (c0, b0, b1)
            return 'match { %s }' % ', '.join('%s => %s' % x for x in rows_)
        scr = canon(e['ch'][0], env)
        arms = []
        for a in e['arms']:
            en = dict(env)
            c = _arm_cond(scr, a['pat'], en)
            if 'guard' in a:
                c += ' if ' + ' && '.join(conj(a['guard'], en))
            arms.append((c, canon(a['body'], en)))
        if len(arms) == 2 and arms[1][0] == _neg(arms[0][0]) and not any(' if ' in c for c, _ in arms):
            (c0, b0), (c1, b1) = sorted(arms, key=lambda x: _rank(x[0]))
            return 'if %s { %s } else { %s }' % (c0, b0, b1)
        return 'match { %s }' % ', '.join('%s => %s' % x for x in arms)
    if k == 'Block':
        en = dict(env)
        parts = []
        for s_ in e.get('stmts', []):
            if s_['k'] == 'Let' and 'init' in s_:
                init = peel(s_['init'])
                pairs = [(s_['pat'], init)]
                if s_['pat'].get('k') == 'Tuple' and init.get('k') == 'Tup' and \
                        len(init['ch']) == len(s_['pat']['ch']):
                    pairs = list(zip(s_['pat']['ch'], init['ch']))
                for p_, v_ in pairs:
                    c = canon(v_, en)
                    if p_.get('k') == 'Binding' and _inlineable(p_, c, en):
                        en[p_['local']] = c
                    elif p_.get('k') == 'Binding':
                        nm = _keep_name(en, p_['local'])
                        en[p_['local']] = nm
                        parts.append('%s := %s' % (nm, c))
                    elif p_.get('k') == 'Tuple' and all(q.get('k') in ('Binding', 'Wild') for q in p_['ch']) and \
                            _tuple_parts(c, len(p_['ch'])) and not any(q.get('mut') for q in p_['ch']):
                        for q, v__ in zip(p_['ch'], _tuple_parts(c, len(p_['ch']))):
                            if q.get('k') == 'Binding':
                                en[q['local']] = v__
                    elif p_.get('k') == 'Tuple' and all(q.get('k') in ('Binding', 'Wild') for q in p_['ch']):
                        if _inlineable({'mut': any(q.get('mut') for q in p_['ch'])}, c, en) and \
                                re.fullmatch(r'[\w.]+(\(\))?', c):
                            nm = c
                        else:
                            nm = _fresh(en, 'v')
                            parts.append('%s := %s' % (nm, c))
                        for i_, q in enumerate(p_['ch']):
                            if q.get('k') == 'Binding':
                                en[q['local']] = en.get('__names__', {}).get(q['local'], '%s.%d' % (nm, i_))
                    else:
                        parts.append('let %s = %s' % (pat_canon(p_, en), c))
            elif s_['k'] == 'Let':
                for b_ in _pat_binds(s_['pat']):
                    en[b_['local']] = _keep_name(en, b_['local'])
            elif s_['k'] in ('Semi', 'Expr'):
                parts.append(canon(s_['e'], en))
        if 'expr' in e:
            parts.append(canon(e['expr'], en))
        if len(parts) == 1 and 'expr' not in e:
            # `{ x; }` and `{ x }` are the same block when x is of unit type
            last_ = [s_ for s_ in e.get('stmts', []) if s_['k'] in ('Semi', 'Expr')]
            if last_ and (peel(last_[-1]['e']).get('ty') == '()' or peel(last_[-1]['e']).get('k') in ('For', 'While')):
                return parts[0]
            return parts[0] + ';'
        return '; '.join(parts)
    if k in ('Assign', 'AssignOp'):
        return _assign_str(e, env)
    if k == 'Ret':
        return 'return ' + ' '.join(canon(x, env) for x in e.get('ch', []))
    if k in ('For',):
        en = dict(env)
        names = _bind_params([e['pat']], en)
        return 'for %s in %s { %s }' % (', '.join(names) or '_', canon(e['ch'][0], env), canon(e['ch'][1], en))
    if k == 'While':
        return 'while %s { %s }' % (canon(e['ch'][0], env), canon(e['ch'][1], env))
    if k == 'Loop':
        return 'loop { %s }' % canon(e['ch'][0], env)
    return src(e)


_ORD = ('Ordering::Equal', 'Ordering::Greater', 'Ordering::Less')


def _neg(c):
    """negation of a canonical predicate string (comparisons are flipped, not prefixed)"""
    if c.startswith('!'):
        return c[1:]
    m = re.fullmatch(r'(.+) is (Ordering::\w+(?: \| Ordering::\w+)*)', c)
    if m and _balanced(m.group(1)):
        # a test on std::cmp::Ordering: the negation is the complementary set of variants
        rest = sorted(set(_ORD) - set(m.group(2).split(' | ')))
        if rest:
            return '%s is %s' % (m.group(1), ' | '.join(rest))
    m = re.fullmatch(r'\((.+) (<=|<) (.+)\)', c)
    if m and _balanced(m.group(1)) and _balanced(m.group(3)):
        a, op, b = m.group(1), m.group(2), m.group(3)
        return '(%s %s %s)' % (b, '<' if op == '<=' else '<=', a)
    m = re.fullmatch(r'\((.+) (==|!=) (.+)\)', c)
    if m and _balanced(m.group(1)) and _balanced(m.group(3)):
        return '(%s %s %s)' % (m.group(1), '!=' if m.group(2) == '==' else '==', m.group(3))
    return '!' + c


def _balanced(s):
    d = 0
    for ch in s:
        if ch == '(':
            d += 1
        elif ch == ')':
            d -= 1
            if d < 0:
                return False
    return d == 0


def _matches_macro(e):
    """`matches!(x, P)` = `match x { P => true, _ => false }` -> (scrutinee, [true patterns])"""
    if e.get('k') != 'Match' or try_operand(e) is not None:
        return None
    tr = []
    for a in e.get('arms', []):
        b = peel(a['body'])
        if b.get('k') != 'Lit' or b.get('v') not in ('true', 'false') or 'guard' in a:
            return None
        if b['v'] == 'true':
            tr.append(a['pat'])
    return (e['ch'][0], tr) if tr else None


def _bool_match(e):
    """`match c { true => A, false => B }` (or with `_`) -> (c, A, B)"""
    if e.get('k') != 'Match' or try_operand(e) is not None or len(e.get('arms', [])) != 2:
        return None
    if any('guard' in a for a in e['arms']):
        return None
    lits = [pat_src(a['pat']) for a in e['arms']]
    if lits[0] == 'true' and lits[1] in ('false', '_'):
        return e['ch'][0], e['arms'][0]['body'], e['arms'][1]['body']
    if lits[0] == 'false' and lits[1] in ('true', '_'):
        return e['ch'][0], e['arms'][1]['body'], e['arms'][0]['body']
    return None


def _literal_identity(c):
    """`|x| x` written out (not a coercion closure that merely prints as the identity)"""
    c = peel(c)
    if c.get('k') != 'Closure' or len(c.get('params', [])) != 1 or c['params'][0].get('k') != 'Binding':
        return False
    b = peel(c['ch'][0])
    while b.get('k') == 'Block' and not b.get('stmts') and 'expr' in b:
        b = peel(b['expr'])
    return b.get('k') == 'Path' and b.get('res') == 'local' and b.get('local') == c['params'][0]['local']


def conj(e, env, positive=True):
    """Condition -> list of canonical predicate strings (a conjunction)."""
    e = peel(e)
    if e.get('k') == 'Binary' and e['op'] in ('And', 'BitAnd') and positive:
        return conj(e['ch'][0], env) + conj(e['ch'][1], env)
    if e.get('k') == 'Binary' and e['op'] in ('Or', 'BitOr') and not positive:
        return conj(e['ch'][0], env, False) + conj(e['ch'][1], env, False)
    if e.get('k') == 'Unary' and e['op'] == 'Not':
        return conj(e['ch'][0], env, not positive)
    if e.get('k') == 'If' and len(e['ch']) == 3:
        # `if c { true } else { false }` is c (and the swapped form its negation)
        tb, fb = peel(e['ch'][1]), peel(e['ch'][2])
        if tb.get('k') == 'Lit' and fb.get('k') == 'Lit' and {tb.get('v'), fb.get('v')} == {'true', 'false'}:
            return conj(e['ch'][0], env, positive == (tb.get('v') == 'true'))
    mm = _matches_macro(e)
    if mm is not None:
        scr = canon(mm[0], env)
        if len(mm[1]) == 1:
            p = _arm_cond(scr, mm[1][0], dict(env))
        else:
            p = '%s is %s' % (scr, ' | '.join(sorted(pat_canon(q, dict(env), scr) for q in mm[1])))
        return [p if positive else _neg(p)]
    if e.get('k') == 'LetExpr':
        p = _arm_cond(canon(e['ch'][0], env), e['pat'], env)
        return [p if positive else _neg(p)]
    c = canon(e, env)
    return [c if positive else _neg(c)]


def _mutated_names(e):
    """(local id, source name) of every local assigned somewhere in e"""
    from facts import walk
    out = set()
    for x in walk(e):
        if x.get('k') in ('Assign', 'AssignOp'):
            t = peel(x['ch'][0])
            while t.get('k') in ('Field', 'Index'):
                t = peel(t['ch'][0])
            if t.get('k') == 'Unary':
                t = peel(t['ch'][0])
            if t.get('k') == 'Path' and t.get('res') == 'local':
                out.add((t['local'], t['name']))
    return out


_TERMINAL = ('PANIC', 'break', 'continue')


def _split_top(x):
    """split a canonical string at its top-level commas"""
    out, d, cur = [], 0, []
    for ch in x:
        if ch in '([{':
            d += 1
        elif ch in ')]}':
            d -= 1
        if ch == ',' and d == 0:
            out.append(''.join(cur).strip())
            cur = []
        else:
            cur.append(ch)
    out.append(''.join(cur).strip())
    return out


def _option_map_or(e):
    """`o.map(|p| B).unwrap_or(D)`, `.unwrap_or_else(|| D)` / `(path)`, `o.map_or(D, |p| B)`,
    `o.map_or_else(|| D, |p| B)` -> (o, closure, default expression node or ('call', path node))"""
    if e.get('k') != 'MethodCall':
        return None
    me = e.get('method')
    ch = e['ch']

    def thunk(x):
        x = peel(x)
        if x.get('k') == 'Closure' and not x.get('params'):
            return x['ch'][0]
        if x.get('k') == 'Path':
            return ('call', x)
        return None
    if me in ('unwrap_or', 'unwrap_or_else') and len(ch) == 2 and callee_is(e, 'Option::unwrap_or', 'Option::unwrap_or_else'):
        r = peel(ch[0])
        if r.get('k') == 'MethodCall' and r.get('method') == 'map' and callee_is(r, 'Option::map') and \
                peel(r['ch'][1]).get('k') == 'Closure' and len(peel(r['ch'][1]).get('params', [])) == 1:
            d = ch[1] if me == 'unwrap_or' else thunk(ch[1])
            if d is not None:
                return r['ch'][0], peel(r['ch'][1]), d
    if me in ('map_or', 'map_or_else') and len(ch) == 3 and callee_is(e, 'Option::map_or', 'Option::map_or_else') and \
            peel(ch[2]).get('k') == 'Closure' and len(peel(ch[2]).get('params', [])) == 1:
        d = ch[1] if me == 'map_or' else thunk(ch[1])
        if d is not None:
            return ch[0], peel(ch[2]), d
    return None


def _split_and(x):
    """parts of a canonical conjunction `A && B && C` (top-level split), or None"""
    parts, d, cur, i = [], 0, [], 0
    while i < len(x):
        ch = x[i]
        if ch in '([{':
            d += 1
        elif ch in ')]}':
            d -= 1
        if d == 0 and x.startswith(' && ', i):
            parts.append(''.join(cur))
            cur = []
            i += 4
            continue
        if d == 0 and x.startswith(' || ', i):
            return None
        cur.append(ch)
        i += 1
    parts.append(''.join(cur))
    return parts if all(parts) else None


def _prime(en, locals_names):
    """new env in which every (local id, source name) of locals_names reads as the next version
    (name') of its current canonical name: what is read after an assignment is a new value"""
    en = dict(en)
    kv = dict(en.get('__val__', {}))
    for l_, n_ in locals_names:
        cur = en.get(l_, n_)
        if re.fullmatch(r"[\w\[\]<>=!() .*+\-&|]+'*", cur) and not cur.startswith('('):
            kv.pop(cur, None)
            en[l_] = cur + "'"
    en['__val__'] = kv
    return en


def _assign_target(x):
    t = peel(x['ch'][0])
    path = []
    while t.get('k') in ('Field', 'Index') or (t.get('k') == 'Unary' and t.get('op') == 'Deref'):
        if t.get('k') == 'Field':
            path.append(t['field'])
        t = peel(t['ch'][0])
    if t.get('k') == 'Path' and t.get('res') == 'local':
        return t, list(reversed(path))
    return None, None


def _after_assign(x, en):
    """env after the assignment statement x: later reads of the target see a new version"""
    t, path = _assign_target(x)
    if t is None:
        return en
    if not path:
        return _prime(en, [(t['local'], t['name'])])
    en = dict(en)
    fv = dict(en.get('__fields__', {}))
    key = '.'.join([en.get(t['local'], t['name'])] + path)
    fv[key] = fv.get(key, key) + "'"
    en['__fields__'] = fv
    return en


def _paths(e, env=None, conds=frozenset(), effects=()):
    """Yield (conds, leaf, effects, env) for every control path of e; env is the naming
    environment at the end of the path (assigned variables read as primed versions)."""
    env = dict(env or {})
    e = peel(e)
    if '__mutated__' not in env:
        env['__mutated__'] = _mutated_names(e)
    k = e.get('k')
    if k == 'Block':
        pending = [(conds, tuple(effects), env)]
        for s in e.get('stmts', []):
            nxt = []
            for cs, ef, en in pending:
                if s['k'] == 'Let' and 'init' in s and \
                        (s['pat'].get('k') == 'Binding' or
                         (s['pat'].get('k') == 'Tuple' and all(q_.get('k') in ('Binding', 'Wild') for q_ in s['pat']['ch']))) and \
                        peel(s['init']).get('k') in ('If', 'Match', 'Block') and _has_ret(peel(s['init'])):
                    # `let x = if c { return .. } else { e }`: control flow, not a value to inline
                    for c2, leaf, ef2, en2 in _paths(peel(s['init']), en, cs, ef):
                        if leaf.startswith('return ') or leaf in _TERMINAL:
                            yield c2, leaf, ef2, en2
                        else:
                            en2 = dict(en2)
                            if s['pat'].get('k') == 'Binding':
                                en2[s['pat']['local']] = leaf
                            else:
                                comps = _split_top(leaf[1:-1]) if leaf.startswith('(') and leaf.endswith(')') else []
                                if len(comps) == len(s['pat']['ch']):
                                    for q_, c_ in zip(s['pat']['ch'], comps):
                                        if q_.get('k') == 'Binding':
                                            en2[q_['local']] = c_
                                else:
                                    nm = _fresh(en2, 'v')
                                    ef2 = tuple(ef2) + ('%s := %s' % (nm, leaf),)
                                    for i_, q_ in enumerate(s['pat']['ch']):
                                        if q_.get('k') == 'Binding':
                                            en2[q_['local']] = '%s.%d' % (nm, i_)
                            nxt.append((c2, ef2, en2))
                elif s['k'] == 'Let' and 'init' in s and s['pat'].get('k') == 'Binding' and \
                        peel(s['init']).get('k') in ('If', 'Match') and try_operand(peel(s['init'])) is None \
                        and _inlineable(s['pat'], canon(peel(s['init']), en), en):
                    # an immutable conditional value: one path per branch, the value inlined
                    for c2, leaf, ef2, en2 in _paths(peel(s['init']), en, cs, ef):
                        if leaf.startswith('return ') or leaf in _TERMINAL:
                            yield c2, leaf, ef2, en2
                        else:
                            en2 = dict(en2)
                            en2[s['pat']['local']] = leaf
                            nxt.append((c2, ef2, en2))
                elif s['k'] == 'Let' and 'init' in s and s['pat'].get('k') == 'Binding' and \
                        peel(s['init']).get('k') in ('If', 'Match') and try_operand(peel(s['init'])) is None:
                    # a conditional value that must stay named: one definition per branch
                    nm = _keep_name(en, s['pat']['local'])
                    if s['pat'].get('mut') and '__mutkept__' in en:
                        en['__mutkept__'].add(nm)
                    for c2, leaf, ef2, en2 in _paths(peel(s['init']), en, cs, ef):
                        if leaf.startswith('return ') or leaf in _TERMINAL:
                            yield c2, leaf, ef2, en2
                        else:
                            en2 = dict(en2)
                            en2[s['pat']['local']] = nm
                            for key_ in ('__n_v__',):
                                en2[key_] = max(en2.get(key_, 0), en.get(key_, 0))
                            kv = dict(en2.get('__val__', {}))
                            if leaf == 'NULL':
                                kv[nm] = 'NULL'
                            else:
                                kv.pop(nm, None)
                            en2['__val__'] = kv
                            nxt.append((c2, tuple(ef2) + ('%s := %s' % (nm, leaf),), en2))
                elif s['k'] == 'Let' and 'init' in s:
                    en = dict(en)
                    init = peel(s['init'])

                    def bind(p_, v_, en=en):
                        nonlocal ef
                        c = canon(v_, en)
                        if not _inlineable(p_, c, en):
                            # mutable or effectful / long initialiser: keep a (positional) name
                            nm = _keep_name(en, p_['local'])
                            en[p_['local']] = nm
                            if p_.get('mut') and '__mutkept__' in en:
                                en['__mutkept__'].add(nm)
                            ef = ef + ('%s := %s' % (nm, c),)
                        else:
                            en[p_['local']] = c
                    if s['pat'].get('k') == 'Binding':
                        bind(s['pat'], init)
                    elif s['pat'].get('k') == 'Tuple' and init.get('k') == 'Tup' and \
                            len(init['ch']) == len(s['pat']['ch']):
                        for p_, v_ in zip(s['pat']['ch'], init['ch']):
                            if p_.get('k') == 'Binding':
                                bind(p_, v_)
                    elif s['pat'].get('k') == 'Tuple' and \
                            all(q.get('k') in ('Binding', 'Wild') or (q.get('k') == 'Tuple' and not q.get('ch'))
                                for q in s['pat']['ch']):
                        # opaque tuple value: components by projection (of a kept name unless
                        # the value is a plain immutable one)
                        c = canon(init, en)
                        tp_ = _tuple_parts(c, len(s['pat']['ch'])) if not any(q.get('mut') for q in s['pat']['ch']) else None
                        if tp_:
                            nm = None
                        elif _inlineable({'mut': any(q.get('mut') for q in s['pat']['ch'])}, c, en) and \
                                re.fullmatch(r'[\w.]+(\(\))?', c):
                            nm = c
                        else:
                            nm = _fresh(en, 'v')
                            ef = ef + ('%s := %s' % (nm, c),)
                        for i_, q in enumerate(s['pat']['ch']):
                            if q.get('k') == 'Binding':
                                en[q['local']] = tp_[i_] if tp_ else \
                                    en.get('__names__', {}).get(q['local'], '%s.%d' % (nm, i_))
                    elif s['pat'].get('k') != 'Binding':
                        pc = pat_canon(s['pat'], en)
                        ef = ef + ('let %s = %s' % (pc, canon(init, en)),)
                    # an initialiser that mutates captured state (closures, &mut calls)
                    mut_in = _mutated_names(init)
                    if mut_in:
                        en = _prime(en, mut_in)
                    nxt.append((cs, ef, en))
                elif s['k'] == 'Let':
                    en = dict(en)
                    for b_ in _pat_binds(s['pat']):
                        en[b_['local']] = _keep_name(en, b_['local'])
                    nxt.append((cs, ef, en))
                elif s['k'] in ('Semi', 'Expr'):
                    x = peel(s['e'])
                    if x.get('k') in ('If', 'Match', 'Block'):
                        for c2, leaf, ef2, en2 in _paths(x, en, cs, ef):
                            if leaf.startswith('return ') or leaf in _TERMINAL:
                                yield c2, leaf, ef2, en2
                            else:
                                if leaf not in ('()', 'NULL') and re.search(r'\w\(', leaf):
                                    # a branch that ends in a call evaluated for its effect
                                    ef2 = tuple(ef2) + (leaf,)
                                nxt.append((c2, ef2, en2))
                    elif x.get('k') == 'Ret':
                        v = canon(x['ch'][0], en) if x.get('ch') else '()'
                        yield cs, 'return ' + v, ef, en
                    elif x.get('k') in ('Break', 'Continue'):
                        yield cs, x['k'].lower(), ef, en
                    elif x.get('k') in ('Assign', 'AssignOp'):
                        nxt.append((cs, ef + (_assign_str(x, en),), _after_assign(x, en)))
                    elif x.get('ty') == '!' and x.get('k') in ('Call', 'MethodCall', 'Loop'):
                        yield cs, 'PANIC', ef, en          # panic!(..) / unreachable!(..) statement
                    elif x.get('k') in ('For', 'While', 'Loop'):
                        nxt.append((cs, ef + (canon(x, en),), _prime(en, _mutated_names(x))))
                    else:
                        en_after = _prime(en, _mutated_names(x)) if _mutated_names(x) else en
                        # a call evaluated for its effect, with or without a trailing semicolon
                        # (`unsafe { self.uset(i, v) }` as a unit-typed expression statement)
                        nxt.append((cs, ef + (canon(x, en),) if s['k'] in ('Semi', 'Expr') and
                                    x.get('k') in ('MethodCall', 'Call') else ef, en_after))
                else:
                    nxt.append((cs, ef, en))
            pending = nxt
        if 'expr' in e:
            for cs, ef, en in pending:
                yield from _paths(e['expr'], en, cs, ef)
        else:
            for cs, ef, en in pending:
                yield cs, '()', ef, en
        return
    if k == 'If':
        c = e['ch']
        en_t = dict(env)
        t = conj(c[0], en_t)
        f = conj(c[0], dict(env), False)
        # a kept name currently bound to the null literal decides VALID(name) outright
        known = env.get('__val__', {})

        def decide(cs_):
            out_ = []
            for c_ in cs_:
                m_ = re.fullmatch(r"(!?)VALID\((v\d+'*)\)", c_)
                if m_ and known.get(m_.group(2)) == 'NULL':
                    if not m_.group(1):
                        return None        # VALID(null) is false
                    continue
                out_.append(c_)
            return out_
        def alternatives(parts):
            # not (A && B && ..) as disjoint alternatives: !A | A && !B | A && B && !C ..
            # (the rows `if A { if B {X} else {Y} } else {Y}` would produce), A, B .. sorted
            # validity tests first (they guard the comparisons that follow), then by text
            parts = sorted(parts, key=lambda c_: (not c_.lstrip('!').startswith('VALID('), c_))
            out_ = []
            for i_ in range(len(parts)):
                alt = decide(list(parts[:i_]) + [_neg(parts[i_])])
                if alt is not None:
                    out_.append(alt)
            return out_
        t2 = decide(t)
        disj = _split_and(t[0][2:-1]) if len(t) == 1 and t[0].startswith('!(') and t[0].endswith(')') else None
        if disj is not None and len(disj) > 1 and t2 is not None:
            # the condition itself is a disjunction (a negated conjunction)
            for alt in alternatives(disj):
                yield from _paths(c[1], dict(en_t), conds | frozenset(alt), effects)
        elif t2 is not None:
            yield from _paths(c[1], en_t, conds | frozenset(t2), effects)
        if t2 is None:
            alts = [[]]                    # the else branch is taken unconditionally
        elif len(t) > 1 and len(f) == 1:
            alts = alternatives(t)
        elif disj is not None and len(disj) > 1:
            f2 = decide(sorted(disj))
            alts = [f2] if f2 is not None else []
        else:
            f2 = decide(f) if len(f) == 1 else f
            alts = [f2] if f2 is not None else []
        for f2 in alts:
            if len(c) > 2:
                yield from _paths(c[2], env, conds | frozenset(f2), effects)
            else:
                yield conds | frozenset(f2), '()', effects, env
        return
    if k == 'Match' and _bool_match(e) is not None:
        c_, a_, b_ = _bool_match(e)
        yield from _paths({'k': 'If', 'ch': [c_, a_, b_]}, env, conds, effects)
        return
    if k == 'Match' and try_operand(e) is None:
        tr = _tuple_match_rows(e, env)
        if tr is not None:
            for c_, a, en in tr:
                yield from _paths(a['body'], en, conds | frozenset(c_), effects)
            return
        scr = canon(e['ch'][0], env)
        prior = []
        for a in e['arms']:
            en = dict(env)
            c_ = _arm_cond(scr, a['pat'], en)
            if a['pat'].get('k') == 'Wild' and 'guard' not in a and prior and None not in prior:
                # the catch-all arm is the complement of the arms before it
                cs = conds | frozenset(_neg(p_) for p_ in prior)
            else:
                cs = conds | frozenset({c_})
            prior.append(None if 'guard' in a else c_)
            if 'guard' in a:
                cs = cs | frozenset(conj(a['guard'], en))
            yield from _paths(a['body'], en, cs, effects)
        return
    if k == 'Ret':
        v = canon(e['ch'][0], env) if e.get('ch') else '()'
        yield conds, 'return ' + v, effects, env
        return
    if k in ('Break', 'Continue'):
        yield conds, k.lower(), effects, env
        return
    if k in ('Assign', 'AssignOp'):
        yield conds, '()', tuple(effects) + (_assign_str(e, env),), _after_assign(e, env)
        return
    if k in ('For', 'While', 'Loop'):
        yield conds, '()', tuple(effects) + (canon(e, env),), _prime(env, _mutated_names(e))
        return
    if e.get('ty') == '!':
        yield conds, 'PANIC', effects, env
        return
    om = _option_map_or(e)
    if om is not None:
        # an Option combinator chain is control flow: Some -> closure body, None -> default
        recv, cl, dflt = om
        r_ = canon(recv, env)
        en_s = dict(env)
        for b_ in _pat_binds(cl['params'][0]):
            en_s[b_['local']] = r_
        yield from _paths(cl['ch'][0], en_s, conds | frozenset({'VALID(%s)' % r_}), effects)
        if isinstance(dflt, tuple):
            yield conds | frozenset({'!VALID(%s)' % r_}), canon({'k': 'Call', 'ch': [dflt[1]], 'callee': dflt[1].get('def', '')}, env), effects, env
        else:
            yield from _paths(dflt, env, conds | frozenset({'!VALID(%s)' % r_}), effects)
        return
    yield conds, canon(e, env), effects, env


def paths(e, env=None, conds=frozenset(), effects=()):
    """Yield (conds, leaf, effects) for every control path of e."""
    for cs, leaf, ef, en in _paths(e, env, conds, effects):
        yield cs, leaf, ef


def _has_ret(e):
    from facts import walk
    return any(x.get('k') == 'Ret' for x in walk(e) if x.get('k') != 'Closure') and \
        not any(x.get('k') == 'Closure' and any(y.get('k') == 'Ret' for y in walk(x)) for x in [])


def _contains(e, node):
    from facts import walk
    return e is node or any(x is node for x in walk(e))


def env_at(root, node, env=None):
    """Naming environment in force at `node` inside `root`: the lets, pattern binds and
    closure parameters on the way down are bound exactly as `paths` / `canon` bind them, so a
    table computed for an inner closure body names captured locals consistently (positional
    v-names for kept lets)."""
    env = dict(env or {})
    if '__mutated__' not in env:
        env['__mutated__'] = _mutated_names(root)

    def bind_let(pat, init):
        init = peel(init)
        if pat.get('k') == 'Binding' and init.get('k') in ('If', 'Match', 'Block') and _has_ret(init):
            lv = {l for c_, l, e_ in paths(init, env) if not l.startswith('return ') and l != 'PANIC'}
            env[pat['local']] = lv.pop() if len(lv) == 1 else _keep_name(env, pat['local'])
        elif pat.get('k') == 'Binding':
            c = canon(init, env)
            if not _inlineable(pat, c, env):
                env[pat['local']] = _keep_name(env, pat['local'])
            else:
                env[pat['local']] = c
        elif pat.get('k') == 'Tuple' and init.get('k') == 'Tup' and len(init['ch']) == len(pat['ch']):
            for p_, v_ in zip(pat['ch'], init['ch']):
                bind_let(p_, v_)
        elif pat.get('k') == 'Tuple' and all(q.get('k') in ('Binding', 'Wild') for q in pat['ch']):
            c = canon(init, env)
            tp_ = _tuple_parts(c, len(pat['ch'])) if not any(q.get('mut') for q in pat['ch']) else None
            if tp_:
                nm = None
            elif _inlineable({'mut': any(q.get('mut') for q in pat['ch'])}, c, env) and \
                    re.fullmatch(r'[\w.]+(\(\))?', c):
                nm = c
            else:
                nm = _fresh(env, 'v')
            for i_, q in enumerate(pat['ch']):
                if q.get('k') == 'Binding':
                    env[q['local']] = tp_[i_] if tp_ else \
                        env.get('__names__', {}).get(q['local'], '%s.%d' % (nm, i_))
        else:
            pat_canon(pat, env)

    def rec(e):
        e = peel(e)
        if e is node:
            return True
        k = e.get('k')
        if k == 'Block':
            for s_ in e.get('stmts', []):
                x = s_.get('init') if s_['k'] == 'Let' else s_.get('e')
                if x is not None and _contains(x, node):
                    return rec(x)
                if s_['k'] == 'Let' and 'init' in s_:
                    bind_let(s_['pat'], s_['init'])
                elif s_['k'] == 'Let':
                    for b_ in _pat_binds(s_['pat']):
                        env[b_['local']] = _keep_name(env, b_['local'])
            if 'expr' in e and _contains(e['expr'], node):
                return rec(e['expr'])
            return False
        if k == 'If':
            c = e['ch']
            if _contains(c[0], node):
                return rec(c[0])
            if _contains(c[1], node):
                conj(c[0], env)
                return rec(c[1])
            if len(c) > 2 and _contains(c[2], node):
                return rec(c[2])
            return False
        if k == 'Match' and try_operand(e) is None:
            if _contains(e['ch'][0], node):
                return rec(e['ch'][0])
            scr = canon(e['ch'][0], env)
            for a in e['arms']:
                if _contains(a['body'], node) or ('guard' in a and _contains(a['guard'], node)):
                    _arm_cond(scr, a['pat'], env)
                    return rec(a['body'])
            return False
        if k == 'Closure':
            _bind_params(e.get('params', []), env)
            return rec(e['ch'][0])
        if k == 'For':
            if _contains(e['ch'][0], node):
                return rec(e['ch'][0])
            _bind_params([e['pat']], env)
            return rec(e['ch'][1])
        for c in children(e):
            if _contains(c, node):
                return rec(c)
        return False
    rec(root)
    return env


def _diverges(e):
    """block / expression that never completes normally (return, break, continue, panic)"""
    e = peel(e)
    if e.get('ty') == '!':
        return True
    if e.get('k') in ('Ret', 'Break', 'Continue'):
        return True
    if e.get('k') == 'Block':
        for s_ in e.get('stmts', []):
            x = s_.get('e')
            if x is not None and _diverges(x):
                return True
        return 'expr' in e and _diverges(e['expr'])
    return False


def guards_at(root, node, env=None):
    """(conditions, env): the conjunction under which control reaches `node` inside `root`
    (branch conditions on the way down plus the negations of earlier diverging `if`s), in the
    canonical predicate strings of this module; None if node is not found."""
    env = dict(env or {})
    if '__mutated__' not in env:
        env['__mutated__'] = _mutated_names(root)
    conds = []

    def rec(e, en):
        e = peel(e)
        if e is node:
            return en
        k = e.get('k')
        if k == 'Block':
            en = dict(en)
            for s_ in e.get('stmts', []):
                x = s_.get('init') if s_['k'] == 'Let' else s_.get('e')
                if x is not None and _contains(x, node):
                    return rec(x, en)
                if s_['k'] == 'Let':
                    sub = env_at({'k': 'Block', 'stmts': [s_], 'expr': {'k': 'Lit', 'v': '0', '__probe__': 1}},
                                 None, en)
                    en = sub
                elif x is not None:
                    y = peel(x)
                    if y.get('k') == 'If' and len(y['ch']) == 2 and _diverges(y['ch'][1]):
                        conds.extend(conj(y['ch'][0], dict(en), False))
                    elif y.get('k') == 'If' and len(y['ch']) == 3 and _diverges(y['ch'][1]) and \
                            not _diverges(y['ch'][2]):
                        conds.extend(conj(y['ch'][0], dict(en), False))
                    elif y.get('k') == 'If' and len(y['ch']) == 3 and _diverges(y['ch'][2]) and \
                            not _diverges(y['ch'][1]):
                        conds.extend(conj(y['ch'][0], dict(en)))
            if 'expr' in e and _contains(e['expr'], node):
                return rec(e['expr'], en)
            return None
        if k == 'If':
            c = e['ch']
            if _contains(c[0], node):
                return rec(c[0], en)
            if _contains(c[1], node):
                en = dict(en)
                conds.extend(conj(c[0], en))
                return rec(c[1], en)
            if len(c) > 2 and _contains(c[2], node):
                conds.extend(conj(c[0], dict(en), False))
                return rec(c[2], en)
            return None
        if k == 'Match' and try_operand(e) is None:
            if _contains(e['ch'][0], node):
                return rec(e['ch'][0], en)
            tr = _tuple_match_rows(e, en)
            if tr is not None:
                hit = [(c_, a, en2) for c_, a, en2 in tr if _contains(a['body'], node)]
                if len(hit) == 1:
                    conds.extend(hit[0][0])
                    return rec(hit[0][1]['body'], hit[0][2])
                if len(hit) > 1:
                    # several validity assignments reach this arm: keep what they share
                    common = set(hit[0][0])
                    for c_, _, _ in hit[1:]:
                        common &= set(c_)
                    conds.extend(sorted(common))
                    return rec(hit[0][1]['body'], hit[0][2])
            scr = canon(e['ch'][0], en)
            prior = []
            for a in e['arms']:
                en2 = dict(en)
                c_ = _arm_cond(scr, a['pat'], en2)
                if _contains(a['body'], node) or ('guard' in a and _contains(a['guard'], node)):
                    if a['pat'].get('k') == 'Wild' and prior and None not in prior:
                        conds.extend(_neg(p_) for p_ in prior)
                    else:
                        conds.append(c_)
                    if 'guard' in a and _contains(a['body'], node):
                        conds.extend(conj(a['guard'], en2))
                    return rec(a['body'], en2)
                prior.append(None if 'guard' in a else c_)
            return None
        if k == 'Closure':
            en = dict(en)
            _bind_params(e.get('params', []), en)
            return rec(e['ch'][0], en)
        if k == 'For':
            if _contains(e['ch'][0], node):
                return rec(e['ch'][0], en)
            en = dict(en)
            _bind_params([e['pat']], en)
            return rec(e['ch'][1], en)
        for c in children(e):
            if _contains(c, node):
                return rec(c, en)
        return None
    en = rec(root, env)
    if en is None:
        return None
    return conds, en


def body_table(root, node, env=None):
    """Decision table of the body of a closure or of a `for` loop (the same thing after
    `for_each` normalisation), parameters named a0, a1 .., captured locals named as at the
    definition site."""
    body = node['ch'][0] if node.get('k') == 'Closure' else node['ch'][1]
    en = env_at(root, body, env)
    return table(body, en)


def closure_table(root, closure, env=None):
    """Decision table of a closure body, its parameters named a0, a1 .. and the locals it
    captures named as at its definition site."""
    en = env_at(root, closure['ch'][0], env)
    return table(closure['ch'][0], en)


_VNAME = re.compile(r'\bv\d+\b')
_IDENT = re.compile(r'[A-Za-z_]\w*')


def _toks(t):
    out = set()
    for cs, leaf, ef in t:
        for x in list(cs) + [leaf] + list(ef):
            out.update(_IDENT.findall(x))
    return out


_COMM = (' + ', ' * ', ' == ', ' != ')


def _resort(s):
    """re-sort the operands of commutative binary operators in a canonical string (their
    order depends on the names, which a renaming changes)"""
    out = []
    i = 0
    n = len(s)
    while i < n:
        ch = s[i]
        if ch != '(':
            out.append(ch)
            i += 1
            continue
        d = 0
        j = i
        while j < n:
            if s[j] in '([{':
                d += 1
            elif s[j] in ')]}':
                d -= 1
                if d == 0:
                    break
            j += 1
        if j >= n:
            out.append(s[i:])
            break
        inner = _resort(s[i + 1:j])
        # top-level split
        d = 0
        cut = None
        simple = True
        k = 0
        while k < len(inner):
            c = inner[k]
            if c in '([{':
                d += 1
            elif c in ')]}':
                d -= 1
            elif d == 0:
                if c == ',' or c == ';':
                    simple = False
                    break
                if c == ' ':
                    for op in _COMM:
                        if inner.startswith(op, k):
                            if cut is not None:
                                simple = False
                            cut = (k, op)
                    m_ = re.match(r' (-|/|%|<|<=|&&|\|\||&|\||is|=>|=|:=) ', inner[k:])
                    if m_:
                        simple = False
            k += 1
        if simple and cut is not None:
            a_, b_ = inner[:cut[0]], inner[cut[0] + len(cut[1]):]
            if b_ < a_:
                a_, b_ = b_, a_
            inner = a_ + cut[1] + b_
        out.append('(' + inner + ')')
        i = j + 1
    return ''.join(out)


def _resort_table(t):
    return {(frozenset(_resort(c) for c in cs), _resort(l), tuple(_resort(e) for e in ef)) for cs, l, ef in t}


def merge_rows(t):
    """combine rows that differ only in one complementary condition and agree on value and
    effects (the condition is irrelevant there)"""
    rows = [(frozenset(cs), l, tuple(ef)) for cs, l, ef in t]
    changed = True
    while changed:
        changed = False
        for i in range(len(rows)):
            for j in range(i + 1, len(rows)):
                (c1, l1, e1), (c2, l2, e2) = rows[i], rows[j]
                if l1 != l2 or e1 != e2:
                    continue
                d1, d2 = c1 - c2, c2 - c1
                if len(d1) == 1 and len(d2) == 1 and _neg(next(iter(d1))) == next(iter(d2)):
                    rows[i] = (c1 & c2, l1, e1)
                    del rows[j]
                    changed = True
                    break
            if changed:
                break
    return set(rows)


def equiv(a, b, unordered=False):
    """Equality of two tables up to an injective renaming of the positional names (v0, v1 ..)
    of kept lets: local variable names carry no meaning."""
    a, b = set(a), set(b)
    if a == b:
        return True
    if unordered:
        # effects are independent assignments: compare them as a multiset
        ao, bo = a, b
        a = {(cs, l, tuple(sorted(ef))) for cs, l, ef in a}
        b = {(cs, l, tuple(sorted(ef))) for cs, l, ef in b}
    a, b = merge_rows(a), merge_rows(b)
    if len(a) != len(b):
        return False
    a, b = _resort_table(a), _resort_table(b)
    if a == b:
        return True
    ta, tb = _toks(a), _toks(b)
    va = sorted(x for x in ta if _VNAME.fullmatch(x))
    vb = sorted(x for x in tb if _VNAME.fullmatch(x))
    if va and not vb:
        src_t, dst_t, A = a, b, va
        B = sorted(tb - (ta - set(va)))
    elif vb and not va:
        src_t, dst_t, A = b, a, vb
        B = sorted(ta - (tb - set(vb)))
    elif va and vb:
        src_t, dst_t, A, B = a, b, va, vb
    else:
        return False
    if len(A) > len(B) or len(A) > 9:
        return False
    import itertools

    def sigs(t, names):
        rx_all = re.compile(r'\b(%s)\b' % '|'.join(re.escape(n) for n in names))
        out = {}
        for nm in names:
            items = []
            for cs, leaf, ef in t:
                for kind, x in [('c', c) for c in cs] + [('l', leaf)] + [('e', e) for e in ef]:
                    if re.search(r'\b%s\b' % re.escape(nm), x):
                        items.append((kind, _resort(rx_all.sub(lambda mo: '@' if mo.group(1) == nm else '#', x))))
            out[nm] = tuple(sorted(items))
        return out
    sa, sb = sigs(src_t, A), sigs(dst_t, B)
    cands = [[b_ for b_ in B if sb[b_] == sa[a_]] for a_ in A]
    if any(not c for c in cands):
        return False
    n_try = 0
    rx = re.compile(r'\b(%s)\b' % '|'.join(A))
    for perm in itertools.product(*cands):
        if len(set(perm)) != len(perm):
            continue
        n_try += 1
        if n_try > 5000:
            return False
        m = dict(zip(A, perm))

        def f(x):
            return rx.sub(lambda mo: m[mo.group(1)], x)
        cand = _resort_table({(frozenset(f(c) for c in cs), f(l), tuple(f(e) for e in ef))
                              for cs, l, ef in src_t})
        if unordered:
            cand = {(cs, l, tuple(sorted(ef))) for cs, l, ef in cand}
            if cand == {(cs, l, tuple(sorted(ef))) for cs, l, ef in dst_t}:
                return True
        elif cand == dst_t:
            return True
    return False


_REL = re.compile(r'\((.+) (<=|<|==|!=) (.+)\)')


def _split_rel(c):
    """(lhs, op, rhs) of a canonical comparison with balanced sides, else None"""
    if not (c.startswith('(') and c.endswith(')')):
        return None
    inner = c[1:-1]
    d = 0
    for i, ch in enumerate(inner):
        if ch in '([{':
            d += 1
        elif ch in ')]}':
            d -= 1
        elif ch == ' ' and d == 0:
            for op in (' <= ', ' < ', ' == ', ' != '):
                if inner.startswith(op, i):
                    a, b = inner[:i], inner[i + len(op):]
                    if _balanced(a) and _balanced(b) and not re.search(r' (&&|\|\|) ', _strip_groups(a) + _strip_groups(b)):
                        return a, op.strip(), b
                    return None
    return None


def _strip_groups(x):
    out = []
    d = 0
    for ch in x:
        if ch in '([{':
            d += 1
        elif ch in ')]}':
            d -= 1
        elif d == 0:
            out.append(ch)
    return ''.join(out)


def simplify(cs):
    """Normal form of a conjunction: comparisons of the same two terms are merged into the one
    relation they allow (trichotomy), `p` with `!p` (or an empty relation) makes the path
    infeasible (None)."""
    rel = {}
    rest = set()
    for c in cs:
        r = _split_rel(c)
        if r is None:
            rest.add(c)
            continue
        a, op, b = r
        allowed = {'<': {'<'}, '<=': {'<', '='}, '==': {'='}, '!=': {'<', '>'}}[op]
        if b < a:
            a, b = b, a
            allowed = {{'<': '>', '>': '<', '=': '='}[x] for x in allowed}
        rel[(a, b)] = rel.get((a, b), {'<', '=', '>'}) & allowed
    for c in rest:
        if ('!' + c) in rest:
            return None
    out = set(rest)
    for (a, b), al in rel.items():
        if not al:
            return None
        al = frozenset(al)
        if al == {'<'}:
            out.add('(%s < %s)' % (a, b))
        elif al == {'='}:
            out.add('(%s == %s)' % (a, b))
        elif al == {'>'}:
            out.add('(%s < %s)' % (b, a))
        elif al == {'<', '='}:
            out.add('(%s <= %s)' % (a, b))
        elif al == {'=', '>'}:
            out.add('(%s <= %s)' % (b, a))
        elif al == {'<', '>'}:
            out.add('(%s != %s)' % (a, b))
    return frozenset(out)


def unprime(x):
    """drop the version marks (name' = value after an assignment) from a canonical string"""
    return re.sub(r"(?<=[\w\]])'+", '', x)


def select_rows(t, binding):
    """rows of a table whose conditions all hold at a sample point (see holds); None if some
    condition cannot be evaluated there"""
    out = []
    for cs, leaf, ef in t:
        vals = [holds(c, binding) for c in cs]
        if None in vals:
            return None
        if all(vals):
            out.append((cs, leaf, ef))
    return out


def holds(cond, binding):
    """Truth of a canonical condition at a sample point.  `binding` maps canonical sub-strings
    (terms or whole predicates) to python ints / bools; None when something else remains."""
    x = cond
    m_ = re.fullmatch(r'(!?)(.+) is ((?:-?\d+)(?: \| -?\d+)*)', x)
    if m_:
        # integer literal patterns
        x = '%s(%s)' % (m_.group(1), ' || '.join('(%s == %s)' % (m_.group(2), v_) for v_ in m_.group(3).split(' | ')))
    for k_ in sorted(binding, key=len, reverse=True):
        x = x.replace(k_, ' %s ' % repr(binding[k_]))
    x = x.replace('&&', ' and ').replace('||', ' or ')
    x = re.sub(r'!(?!=)', ' not ', x)
    if not re.fullmatch(r'[\s0-9()<>=!+\-*]*((True|False|and|or|not)[\s0-9()<>=!+\-*]*)*', x):
        return None
    try:
        return bool(eval(x, {'__builtins__': {}}, {}))
    except Exception:
        return None


class Table(set):
    """decision table; `==` is equality up to renaming of kept local names (see equiv)"""
    __hash__ = None

    def __eq__(self, other):
        return equiv(self, other) if isinstance(other, (set, frozenset)) else NotImplemented

    def __ne__(self, other):
        r = self.__eq__(other)
        return r if r is NotImplemented else not r


_ASSIGNS = re.compile(r'^([\w.\[\]]+) (=|\w+Assign) ')


def _inline_defs(leaf, ef, cs=(), mutkept=()):
    """substitute `v := X` into what follows when v is never reassigned and nothing X reads is
    assigned later on the path (the definition then only names a value)"""
    ef = list(ef)
    changed = True
    while changed:
        changed = False
        for i, e in enumerate(ef):
            m = re.match(r'(v\d+) := (.*)$', e)
            if not m or _EFFECTFUL.search(m.group(2)):
                continue
            v, x = m.group(1), m.group(2)
            later = ef[i + 1:]
            rxv = re.compile(r'\b%s\b' % v)
            if '|' in x and len(rxv.findall(' ; '.join(later + [leaf]))) != 1:
                continue           # a closure-valued definition is substituted only into a single use
            text = ' ; '.join(later + [leaf])
            targets = set(re.findall(r'([\w.\[\]]+) (?:=|:=|\w+Assign) ', text))
            if v in targets or v in mutkept or any(rxv.search(c_) for c_ in cs):
                continue
            if any(re.search(r'(?<![\w.])%s(?![\w(])' % re.escape(a_), x) for a_ in targets):
                continue
            sub_ = x if re.fullmatch(r'[\w.]+|.*\)|.*\}', x) else x
            ef = ef[:i] + [rxv.sub(lambda _m: sub_, l_) for l_ in later]
            leaf = rxv.sub(lambda _m: sub_, leaf)
            changed = True
            break
    return leaf, tuple(ef)


def _subst_bool_conds(cs, ef):
    """a condition that is just a kept boolean `v` (or `!v`) with `v := X` on the path is the
    condition X (reads of assigned variables are versioned, so X keeps denoting the values at the
    definition); `true` / `false` definitions decide the condition"""
    defs = {}
    for e in ef:
        m = re.match(r'(v\d+) := (.*)$', e)
        if m and not _EFFECTFUL.search(m.group(2)) and '|' not in m.group(2):
            if m.group(1) in defs:
                defs[m.group(1)] = None       # defined twice on the path: leave alone
            else:
                defs[m.group(1)] = m.group(2)
    out = []
    for c in cs:
        neg = c.startswith('!')
        v = c[1:] if neg else c
        x = defs.get(v) if re.fullmatch(r'v\d+', v) else None
        if x is None:
            out.append(c)
            continue
        if x in ('true', 'false'):
            if (x == 'true') == neg:
                return None                   # the path's condition is false
            continue
        out.append(_neg(x) if neg else x)
    return out if isinstance(cs, list) else type(cs)(out)


def _drop_dead(cs, leaf, ef):
    """remove `v := <pure expr>` definitions of kept lets that nothing on the path reads"""
    ef = list(ef)
    changed = True
    while changed:
        changed = False
        for i, e in enumerate(ef):
            m = re.match(r'(v\d+) := (.*)$', e)
            if not m or _EFFECTFUL.search(m.group(2)):
                continue
            rx = re.compile(r'\b%s\b' % m.group(1))
            if rx.search(leaf) or any(rx.search(c) for c in cs) or \
                    any(rx.search(x) for j, x in enumerate(ef) if j != i):
                continue
            del ef[i]
            changed = True
            break
    return tuple(ef)


def table(e, env=None):
    """Set of (conds, leaf, effects) with returns unwrapped."""
    out = Table()
    env = dict(env or {})
    env.setdefault('__mutkept__', set())
    mutkept = env['__mutkept__']
    for cs, leaf, ef in paths(e, env):
        if leaf.startswith('return '):
            leaf = leaf[7:]
        cs = _subst_bool_conds(cs, ef)
        if cs is None:
            continue
        cs = simplify(cs)
        if cs is None:
            continue        # infeasible path
        leaf, ef = _inline_defs(leaf, tuple(ef), cs, mutkept)
        out.add((cs, leaf, _drop_dead(cs, leaf, tuple(ef))))
    # a function whose two paths are `c -> true`, `!c -> false` is the predicate c itself
    # (`matches!(x, P)`, `if c { true } else { false }` in value position)
    rows = list(out)
    if len(rows) == 2 and all(not ef and len(cs) == 1 for cs, l, ef in rows) and \
            {l for cs, l, ef in rows} == {'true', 'false'}:
        (ct,) = [next(iter(cs)) for cs, l, ef in rows if l == 'true']
        (cf,) = [next(iter(cs)) for cs, l, ef in rows if l == 'false']
        if _neg(ct) == cf or _neg(cf) == ct:
            out = Table([(frozenset(), ct, ())])
    return out


def show(tbl):
    return [(sorted(c), l, list(e)) for c, l, e in sorted(tbl, key=lambda x: (sorted(x[0]), x[1]))]
