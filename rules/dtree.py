"""Decision trees of small functions / element closures.

`paths(body, env)` enumerates the control paths of an expression as
(conditions, leaf, effects): conditions is a frozenset of canonical predicate strings (with a
leading '!' for the false branch), leaf is the canonical string of the produced value,
effects the canonical assignments made on the path.  Coercions that do not change the value
(clone / unwrap / cast / to_opt / as_ref / f64 ...) are erased and immutable `let`s are
inlined, so the normal form survives renaming, let-introduction, if/else nesting order of
independent tests and `&`/`&&`.
"""
import re
from facts import (callee_is, callee, peel, src, strip_generics, children, is_local, _pat_binds,
                   try_operand, pat_src)

ERASE = ('Clone::clone', 'IsNone::unwrap', 'Option::unwrap', 'Cast::cast', 'IsNone::to_opt',
         'Option::as_ref', 'IsNone::as_opt', 'Number::f64', 'Into::into', 'From::from',
         'Option::cloned', 'ToOwned::to_owned', 'Option::as_mut', 'Borrow::borrow',
         'Deref::deref', 'AsRef::as_ref')
NULLS = ('f64::NAN', 'f32::NAN', '::None', 'IsNone::none')


def canon(e, env):
    e = peel(e)
    k = e.get('k')
    if k == 'Path':
        if e.get('res') == 'local':
            return env.get(e['local'], e['name'])
        d = strip_generics(e.get('def', '?'))
        if d.endswith(NULLS):
            return 'NULL'
        segs = d.split('::')
        return '::'.join(segs[-2:])
    if k == 'Lit':
        return e['v']
    if k == 'Cast':
        return canon(e['ch'][0], env)
    if k == 'Block' and not e.get('stmts') and 'expr' in e:
        return canon(e['expr'], env)
    if k == 'MethodCall':
        if callee_is(e, *ERASE) and len(e['ch']) == 1:
            return canon(e['ch'][0], env)
        if callee_is(e, 'IsNone::not_none', 'Option::is_some') and len(e['ch']) == 1:
            return 'VALID(%s)' % canon(e['ch'][0], env)
        if callee_is(e, 'IsNone::is_none', 'Option::is_none') and len(e['ch']) == 1:
            return '!VALID(%s)' % canon(e['ch'][0], env)
        if callee_is(e, 'DateTime::is_nat', 'TimeDelta::is_nat', 'Time::is_nat') or \
                (e['method'] == 'is_nat' and len(e['ch']) == 1):
            return '!VALID(%s)' % canon(e['ch'][0], env)
        if e['method'] == 'is_not_nat' and len(e['ch']) == 1:
            return 'VALID(%s)' % canon(e['ch'][0], env)
        return '%s.%s(%s)' % (canon(e['ch'][0], env), e['method'],
                              ', '.join(canon(x, env) for x in e['ch'][1:]))
    if k == 'Call':
        c = e['ch'][0]
        if e.get('callee_res', '').startswith('Ctor') and \
                strip_generics(e.get('callee', '')).endswith('Some') and len(e['ch']) == 2:
            return 'Some(%s)' % canon(e['ch'][1], env)
        if callee_is(e, 'IsNone::none'):
            return 'NULL'
        name = canon(c, env)
        return '%s(%s)' % (name, ', '.join(canon(x, env) for x in e['ch'][1:]))
    if k == 'Binary':
        op = {'Lt': '<', 'Le': '<=', 'Gt': '>', 'Ge': '>=', 'Eq': '==', 'Ne': '!=', 'Add': '+',
              'Sub': '-', 'Mul': '*', 'Div': '/', 'Rem': '%', 'And': '&&', 'Or': '||',
              'BitAnd': '&', 'BitOr': '|'}.get(e['op'], e['op'])
        a, b = canon(e['ch'][0], env), canon(e['ch'][1], env)
        if op in ('>', '>='):
            a, b, op = b, a, {'>': '<', '>=': '<='}[op]
        if op in ('==', '!=', '+', '*') and b < a:
            a, b = b, a
        return '(%s %s %s)' % (a, op, b)
    if k == 'Unary':
        if e['op'] == 'Not':
            return _neg(canon(e['ch'][0], env))
        if e['op'] == 'Neg':
            return '-' + canon(e['ch'][0], env)
        return canon(e['ch'][0], env)
    if k == 'Tup':
        return '(' + ', '.join(canon(x, env) for x in e['ch']) + ')'
    if k == 'Field':
        return '%s.%s' % (canon(e['ch'][0], env), e['field'])
    if k == 'Struct':
        return '%s{%s}' % ('::'.join(strip_generics(e.get('def', '?')).split('::')[-1:]),
                           ', '.join('%s: %s' % (f['field'], canon(f['e'], env))
                                     for f in e['fields']))
    if k == 'Closure':
        env2 = dict(env)
        return '|%s| %s' % (', '.join(pat_src(p) for p in e.get('params', [])),
                            canon(e['ch'][0], env2))
    t = try_operand(e)
    if t is not None:
        return canon(t, env) + '?'
    if k == 'If':
        c = e['ch']
        r = 'if %s { %s }' % (canon(c[0], env), canon(c[1], env))
        if len(c) > 2:
            r += ' else { %s }' % canon(c[2], env)
        return r
    if k == 'Block' and 'expr' in e and all(s['k'] == 'Let' and s['pat'].get('k') == 'Binding'
                                           and 'init' in s for s in e.get('stmts', [])):
        en = dict(env)
        for s in e['stmts']:
            en[s['pat']['local']] = canon(s['init'], en)
        return canon(e['expr'], en)
    return src(e)


def _neg(c):
    """negation of a canonical predicate string (comparisons are flipped, not prefixed)"""
    if c.startswith('!'):
        return c[1:]
    m = re.fullmatch(r'\((.+) (<=|<) (.+)\)', c)
    if m and _balanced(m.group(1)) and _balanced(m.group(3)):
        a, op, b = m.group(1), m.group(2), m.group(3)
        return '(%s %s %s)' % (b, '<' if op == '<=' else '<=', a)
    m = re.fullmatch(r'\((.+) (==|!=) (.+)\)', c)
    if m and _balanced(m.group(1)) and _balanced(m.group(3)):
        return '(%s %s %s)' % (m.group(1), '!=' if m.group(2) == '==' else '==', m.group(3))
    return '!' + c


def _balanced(s):
    d = 0
    for ch in s:
        if ch == '(':
            d += 1
        elif ch == ')':
            d -= 1
            if d < 0:
                return False
    return d == 0


def _matches_macro(e):
    """`matches!(x, P)` = `match x { P => true, _ => false }` -> (scrutinee, [true patterns])"""
    if e.get('k') != 'Match' or try_operand(e) is not None:
        return None
    tr = []
    for a in e.get('arms', []):
        b = peel(a['body'])
        if b.get('k') != 'Lit' or b.get('v') not in ('true', 'false') or 'guard' in a:
            return None
        if b['v'] == 'true':
            tr.append(pat_src(a['pat']))
    return (e['ch'][0], tr) if tr else None


def conj(e, env, positive=True):
    """Condition -> list of canonical predicate strings (a conjunction)."""
    e = peel(e)
    if e.get('k') == 'Binary' and e['op'] in ('And', 'BitAnd') and positive:
        return conj(e['ch'][0], env) + conj(e['ch'][1], env)
    if e.get('k') == 'Binary' and e['op'] in ('Or', 'BitOr') and not positive:
        return conj(e['ch'][0], env, False) + conj(e['ch'][1], env, False)
    if e.get('k') == 'Unary' and e['op'] == 'Not':
        return conj(e['ch'][0], env, not positive)
    mm = _matches_macro(e)
    if mm is not None:
        p = '%s is %s' % (canon(mm[0], env), ' | '.join(mm[1]))
        return [p if positive else '!' + p]
    if e.get('k') == 'LetExpr':
        pat = e['pat']
        init = canon(e['ch'][0], env)
        if pat.get('k') == 'TupleStruct' and strip_generics(pat.get('def', '')).endswith('Some') \
                and len(pat.get('ch', [])) == 1 and pat['ch'][0].get('k') in ('Binding', 'Wild', 'Tuple'):
            p = 'VALID(%s)' % init
            bs = _pat_binds(pat)
            if len(bs) == 1:
                env[bs[0]['local']] = init
            else:
                for b in bs:
                    env[b['local']] = b['name']
            return [p if positive else '!' + p]
        p = 'let %s = %s' % (pat_src(pat), init)
        return [p if positive else '!' + p]
    c = canon(e, env)
    return [c if positive else _neg(c)]


def _mutated_names(e):
    from facts import walk
    out = set()
    for x in walk(e):
        if x.get('k') in ('Assign', 'AssignOp'):
            t = peel(x['ch'][0])
            while t.get('k') == 'Field':
                t = peel(t['ch'][0])
            if t.get('k') == 'Path' and t.get('res') == 'local':
                out.add(t['name'])
    return out


def paths(e, env=None, conds=frozenset(), effects=()):
    """Yield (conds, leaf, effects) for every control path of e."""
    env = dict(env or {})
    e = peel(e)
    if '__mutated__' not in env:
        env['__mutated__'] = _mutated_names(e)
    k = e.get('k')
    if k == 'Block':
        eff = list(effects)
        pending = [(conds, tuple(eff), env)]
        for s in e.get('stmts', []):
            nxt = []
            for cs, ef, en in pending:
                if s['k'] == 'Let' and 'init' in s:
                    en = dict(en)
                    init = peel(s['init'])

                    def bind(p_, v_, en=en):
                        nonlocal ef
                        c = canon(v_, en)
                        if p_.get('mut') or len(c) > 60 or '|' in c or (re.search(r'\bself\.\w', c) and not c.endswith(')')) \
                                or any(re.search(r'\b%s\b' % re.escape(m_), c) for m_ in en.get('__mutated__', ()) if m_ != 'self'):
                            # mutable or effectful / long initialiser: keep the name
                            en[p_['local']] = p_['name']
                            ef = ef + ('%s := %s' % (p_['name'], c),)
                        else:
                            en[p_['local']] = c
                    if s['pat'].get('k') == 'Binding':
                        bind(s['pat'], init)
                    elif s['pat'].get('k') == 'Tuple' and init.get('k') == 'Tup' and \
                            len(init['ch']) == len(s['pat']['ch']):
                        for p_, v_ in zip(s['pat']['ch'], init['ch']):
                            if p_.get('k') == 'Binding':
                                bind(p_, v_)
                    nxt.append((cs, ef, en))
                elif s['k'] in ('Semi', 'Expr'):
                    x = peel(s['e'])
                    if x.get('k') in ('If', 'Match', 'Block'):
                        for c2, leaf, ef2 in paths(x, en, cs, ef):
                            if leaf.startswith('return ') or leaf == 'PANIC':
                                yield c2, leaf, ef2
                            else:
                                nxt.append((c2, ef2, en))
                    elif x.get('k') == 'Ret':
                        v = canon(x['ch'][0], en) if x.get('ch') else '()'
                        yield cs, 'return ' + v, ef
                    elif x.get('k') in ('Assign', 'AssignOp'):
                        op = '=' if x['k'] == 'Assign' else x['op']
                        nxt.append((cs, ef + ('%s %s %s' % (canon(x['ch'][0], en), op,
                                                           canon(x['ch'][1], en)),), en))
                    else:
                        nxt.append((cs, ef + (canon(x, en),) if s['k'] == 'Semi' and
                                    x.get('k') in ('MethodCall', 'Call') else ef, en))
                else:
                    nxt.append((cs, ef, en))
            pending = nxt
        if 'expr' in e:
            for cs, ef, en in pending:
                yield from paths(e['expr'], en, cs, ef)
        else:
            for cs, ef, en in pending:
                yield cs, '()', ef
        return
    if k == 'If':
        c = e['ch']
        en_t = dict(env)
        t = conj(c[0], en_t)
        f = conj(c[0], dict(env), False)
        yield from paths(c[1], en_t, conds | frozenset(t), effects)
        if len(c) > 2:
            yield from paths(c[2], env, conds | frozenset(f), effects)
        else:
            yield conds | frozenset(f), '()', effects
        return
    if k == 'Match' and try_operand(e) is None:
        scr = canon(e['ch'][0], env)
        for a in e['arms']:
            en = dict(env)
            for b in _pat_binds(a['pat']):
                en[b['local']] = b['name'] if a['pat'].get('k') != 'Binding' else scr
            cs = conds | frozenset({'%s is %s' % (scr, pat_src(a['pat']))})
            if 'guard' in a:
                cs = cs | frozenset(conj(a['guard'], en))
            yield from paths(a['body'], en, cs, effects)
        return
    if k == 'Ret':
        v = canon(e['ch'][0], env) if e.get('ch') else '()'
        yield conds, 'return ' + v, effects
        return
    if k in ('Assign', 'AssignOp'):
        op = '=' if k == 'Assign' else e['op']
        yield conds, '()', tuple(effects) + ('%s %s %s' % (canon(e['ch'][0], env), op,
                                                          canon(e['ch'][1], env)),)
        return
    if e.get('ty') == '!':
        yield conds, 'PANIC', effects
        return
    yield conds, canon(e, env), effects


def table(e, env=None):
    """Set of (conds, leaf, effects) with returns unwrapped."""
    out = set()
    for cs, leaf, ef in paths(e, env):
        if leaf.startswith('return '):
            leaf = leaf[7:]
        out.add((cs, leaf, tuple(ef)))
    return out


def show(tbl):
    return [(sorted(c), l, list(e)) for c, l, e in sorted(tbl, key=lambda x: (sorted(x[0]), x[1]))]
