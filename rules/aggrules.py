"""Aggregations (tea-core/src/agg.rs, tea-agg): gates on the valid count, first-index rule,
find-first/last, fold helpers, masked sums, polynomial closed forms."""
import re
from fractions import Fraction

import dtree
import lia
from lia import L, add, sub, scale
import nullrules as N
from algebra import Poly, Env, norm, read_block
from facts import (walk, peel, src, loc, callee_is, _pat_binds, strip_generics, children)

RULES = {
    'AGG.gate': 'a non-null aggregate is produced only when the valid count reaches the '
                'statistic\'s minimum (1 sum/mean, 2 variance/covariance/correlation, 3 '
                'skewness, 4 kurtosis) and the requested min_periods',
    'AGG.first': 'arg-extrema replace the cached index only on a strictly greater / smaller '
                 'element, so the first extreme wins; the counter advances on every element',
    'AGG.find': 'vfirst / vlast are the first match of not_none from the front / the back',
    'AGG.table': 'counting / masking helpers have the decision table of their definition',
    'AGG.formula': 'the closed form equals the textbook formula over the same power sums '
                   '(polynomial normal form; identities over the reals)',
    'AGG.sub': '`n - j` on the valid count is reached only with n >= j (and n > j as a divisor)',
}


def parse_cond(c, syms):
    """canonical predicate string -> list of linear constraints (>= 0), or None."""
    negd = c.startswith('!')
    if negd:
        c = c[1:]
    m = re.fullmatch(r'\((.+) (<=|<|==|!=) (.+)\)', c)
    if not m:
        return None
    a, op, b = m.group(1), m.group(2), m.group(3)
    extra = []

    def term(t):
        t = t.strip()
        if re.fullmatch(r'\d+', t):
            return L(int(t))
        if re.fullmatch(r'\d+\.', t):
            return L(int(t[:-1]))
        mm = re.fullmatch(r'(\w+)\.max_with\((\d+)\)', t)
        if mm:
            s = 'max(%s,%s)' % (mm.group(1), mm.group(2))
            extra.append(sub(L(s), L(mm.group(1))))
            extra.append(sub(L(s), L(int(mm.group(2)))))
            return L(s)
        if re.fullmatch(r'\w+', t):
            return L(t)
        return None
    ta, tb = term(a), term(b)
    if ta is None or tb is None:
        return None
    d = sub(tb, ta)      # b - a
    if op == '<=':
        res = [d] if not negd else [add(scale(d, -1), L(-1))]
    elif op == '<':
        res = [add(d, L(-1))] if not negd else [scale(d, -1)]
    elif op == '==':
        if negd:
            # unsigned counters: x != 0 means x >= 1
            if a.strip() == '0' and re.fullmatch(r'\w+', b.strip()):
                return extra + [add(tb, L(-1))]
            if b.strip() == '0' and re.fullmatch(r'\w+', a.strip()):
                return extra + [add(ta, L(-1))]
            return extra
        res = [d, scale(d, -1)]
    else:
        if not negd:
            # unsigned counters: x != 0 means x >= 1
            if a.strip() == '0' and re.fullmatch(r'\w+', b.strip()):
                return extra + [add(tb, L(-1))]
            if b.strip() == '0' and re.fullmatch(r'\w+', a.strip()):
                return extra + [add(ta, L(-1))]
            return extra
        res = [d, scale(d, -1)]
    return extra + res


def gate_facts(conds):
    fs = []
    for c in conds:
        r = parse_cond(c, None)
        if r:
            fs.extend(r)
    return fs


def nonnull(leaf):
    if leaf in ('NULL', '(NULL, NULL)', 'PANIC'):
        return False
    return True


GATES = [  # (fn suffix, count symbol, minimum K, component)
    ('AggValidBasic::vsum', 'n', 1), ('AggValidBasic::vmean', 'n', 1),
    ('AggValidBasic::vmean_var', 'n', 2), ('AggValidBasic::vskew', 'n', 3),
    ('AggValidExt::vkurt', 'n', 4), ('AggValidBasic::vcov', 'n', 2),
    ('AggValidBasic::vcorr_pearson', 'n', 2), ('AggValidExt::n_sum_filter', 'n', 1),
    ('AggValidExt::vpercentile_of', 'total_count', 1),
]


def check_gates(run, F):
    n = 0
    for name, cnt, K in GATES:
        fn = F.one(name)
        t = N.tbl(fn)
        n += 1
        bad = []
        rows = 0
        for cs, leaf, ef in t:
            leaves = [leaf]
            # vskew / vkurt: result flows through `res := if (K <= n) {..} else {NULL}`
            res_defs = [e for e in ef if e.startswith('res := if ')]
            if leaf == 'res' and res_defs:
                m = re.match(r'res := if \((\d+) <= (\w+)\) ', res_defs[0])
                ok = bool(m) and int(m.group(1)) >= K and m.group(2) == cnt and \
                    res_defs[0].rstrip().endswith('else { NULL }')
                rows += 1
                if not ok:
                    bad.append((sorted(cs), res_defs[0][:80]))
                continue
            if name.endswith('vmean_var'):
                # variance component only
                m = re.fullmatch(r'\((.+), (.+)\)', leaf)
                var = m.group(2) if m else leaf
                # the split is at the top-level comma: find it
                depth = 0
                for i, ch in enumerate(leaf[1:-1]):
                    if ch == '(':
                        depth += 1
                    elif ch == ')':
                        depth -= 1
                    elif ch == ',' and depth == 0:
                        var = leaf[1:-1][i + 1:].strip()
                        break
                if var == 'NULL':
                    continue
            elif not nonnull(leaf):
                continue
            rows += 1
            fs = gate_facts(cs) + [L(cnt)]
            if not lia.entails_ge0(fs, sub(L(cnt), L(K))):
                bad.append((sorted(cs), leaf[:60]))
        run.ob('AGG.gate', fn, '%s needs %s >= %d' % (fn.name, cnt, K), not bad and rows > 0,
               fn.loc(), '%d non-null path(s); %s' % (rows, ('not gated: %s' % bad) if bad else
                                                      'all dominated by the count test'))
        # min_periods honoured
        if any(b['name'] == 'min_periods' for p in fn.params for b in _pat_binds(p)):
            bad2 = []
            for cs, leaf, ef in t:
                if not nonnull(leaf) or (name.endswith('vmean_var') and leaf.endswith(', NULL)')):
                    continue
                fs = gate_facts(cs) + [L(cnt), L('min_periods')]
                if not lia.entails_ge0(fs, sub(L(cnt), L('min_periods'))):
                    bad2.append((sorted(cs), leaf[:50]))
            run.ob('AGG.gate', fn, '%s honours min_periods' % fn.name, not bad2, fn.loc(),
                   'paths not dominated by n >= min_periods: %s' % bad2 if bad2 else 'ok')
    # vvar / vstd delegate
    for name, want in (('AggValidBasic::vvar', 'self.vmean_var(min_periods).1'),
                       ('AggValidBasic::vstd', 'self.vvar(min_periods).sqrt()'),
                       ('AggValidExt::vmean_filter', None)):
        fn = F.one(name)
        leaf = N.one_leaf(N.tbl(fn))
        if want:
            run.ob('AGG.gate', fn, '%s delegates' % fn.name, leaf == want, fn.loc(), 'body = %s' % leaf)
    fn = F.one('AggValidExt::vmean_filter')
    t = N.tbl(fn)
    want = N.T((['(min_periods <= n)'], '(sum / n)', []), (['(n < min_periods)'], 'NULL', []))
    run.ob('AGG.gate', fn, 'vmean_filter table', t == want, fn.loc(), dtree.show(t))
    return n


def check_sub(run, F):
    """`n - j` sites in the aggregation files."""
    n = 0
    for name, cnt, K in GATES:
        fn = F.one(name)
        for x in walk(fn.hir):
            if x.get('k') == 'Binary' and x['op'] == 'Sub' and x.get('ty') == 'usize':
                a, b = peel(x['ch'][0]), peel(x['ch'][1])
                if a.get('res') == 'local' and a.get('name') == cnt and b.get('k') == 'Lit':
                    n += 1
                    j = int(b['v'])
                    # K of this function is the proven lower bound wherever a non-null is built;
                    # `res != 0 && res.not_none()` regions inherit it (res non-null => gate held)
                    ok = j < K
                    run.ob('AGG.sub', fn, '`%s - %d`' % (cnt, j), ok, loc(x),
                           'count >= %d wherever a non-null result is being built' % K)
    return n


def check_first(run, F):
    n = 0
    for name, rel, guarded in (('AggValidBasic::vargmax', 'Greater', True),
                               ('AggValidBasic::vargmin', 'Less', True),
                               ('AggBasic::argmax', 'Greater', False),
                               ('AggBasic::argmin', 'Less', False)):
        fn = F.one(name)
        cl = [x for x in walk(fn.hir) if x.get('k') == 'Closure']
        n += 1
        if len(cl) != 1:
            run.ob('AGG.first', fn, fn.name, False, fn.loc(), 'expected one for_each closure')
            continue
        env = {b['local']: 'v' for b in _pat_binds(cl[0]['params'][0])}
        t = dtree.table(cl[0]['ch'][0], env)
        ext = 'max' if 'max' in fn.name else 'min'
        upd = ('%s = Some(v)' % ext, '%s_idx = Some(current_idx)' % ext)
        adv = ('current_idx AddAssign 1',)
        cmpc = 'let v1::Some(Ordering::%s) = v.partial_cmp(%s)' % (rel, ext)
        cmpc = cmpc.replace('v1::Some(Ordering', 'v1::Some(Ordering')
        g = ['VALID(v)'] if guarded else []
        want = N.T((g + ['VALID(%s)' % ext, cmpc], '()', upd + adv),
                   (g + ['VALID(%s)' % ext, '!' + cmpc], '()', adv),
                   (g + ['!VALID(%s)' % ext], '()', upd + adv))
        if guarded:
            want |= N.T((['!VALID(v)'], '()', adv))
        norm_t = {(frozenset(c.replace('let v1::Some(Ordering::%s) = v.partial_cmp(%s)' % (rel, ext), cmpc)
                             for c in cs), l, ef) for cs, l, ef in t}
        run.ob('AGG.first', fn, '%s: strict %s, first wins' % (fn.name, rel), norm_t == want,
               fn.loc(), 'table %s' % dtree.show(t))
        tail = N.one_leaf({(cs, l, ()) for cs, l, ef in N.tbl(fn)})
        run.ob('AGG.first', fn, '%s returns the cached index' % fn.name, tail == ext + '_idx',
               fn.loc(), 'returns %s' % tail)
    return n


def check_find(run, F):
    for name, want in (('AggValidBasic::vfirst', 'self.into_iter().find(|v| VALID(v))'),
                       ('AggValidBasic::vlast', 'self.into_iter().rev().find(|v| VALID(v))'),
                       ('AggBasic::first', 'self.into_iter().next()'),
                       ('AggBasic::last', 'self.into_iter().rev().first()')):
        fn = F.one(name)
        leaf = N.one_leaf(N.tbl(fn))
        run.ob('AGG.find', fn, fn.name, leaf == want, fn.loc(), 'body = %s' % leaf)


def check_folds(run, F):
    want = {
        'vfold': ('self.into_iter().fold(init, |acc, v| if VALID(v) { f(acc, v) } else { acc })', None),
        'vfold2': ('self.into_iter().zip(other).fold(init, |acc, (va, vb)| if (VALID(va) && VALID(vb)) '
                   '{ f(acc, va, vb) } else { acc })', None),
    }
    for name, (w, _) in want.items():
        fn = F.one('IterBasic::' + name)
        leaf = N.one_leaf(N.tbl(fn))
        run.ob('NULL.fold', fn, name, leaf == w, fn.loc(), 'body = %s' % leaf)
    for name in ('vfold_n', 'vapply', 'vapply_n'):
        fn = F.one('IterBasic::' + name)
        cl = [x for x in walk(fn.hir) if x.get('k') == 'Closure']
        ok = len(cl) == 1
        det = ''
        if ok:
            env = {}
            bs = [b for p in cl[0]['params'] for b in _pat_binds(p)]
            for b in bs:
                env[b['local']] = b['name']
            t = dtree.table(cl[0]['ch'][0], env)
            cnt = ('n AddAssign 1',) if name.endswith('_n') else ()
            if name == 'vfold_n':
                w = N.T((['VALID(v)'], 'f(acc, v)', cnt), (['!VALID(v)'], 'acc', ()))
            else:
                w = N.T((['VALID(v)'], 'f(v)', cnt), (['!VALID(v)'], '()', ()))
            ok = t == w
            det = 'closure table %s' % dtree.show(t)
            s = src(fn.hir)
            if name.endswith('_n'):
                ok = ok and 'let n = 0;' in s
        run.ob('NULL.fold', fn, name, ok, fn.loc(), det)
    return 5


def check_tables(run, F):
    specs = {
        'AggValidBasic::count_valid': 'self.vfold_n((), |(), _| ).0',
        'AggValidBasic::vany': 'self.vfold(false, |acc, x| (acc || x.bool_()))',
        'AggValidBasic::vall': 'self.vfold(true, |acc, x| (acc && x.bool_()))',
        'AggValidBasic::vmax': 'self.vfold(NULL, |acc, x| match acc.to_opt() { v1::None => v1::Some(x.unwrap()), '
                               'v1::Some(v) => v1::Some(v.max_with(x.unwrap())) })',
        'AggValidBasic::vmin': 'self.vfold(NULL, |acc, x| match acc { v1::None => v1::Some(x.unwrap()), '
                               'v1::Some(v) => v1::Some(v.min_with(x.unwrap())) })',
    }
    for name, w in specs.items():
        fn = F.one(name)
        leaf = N.one_leaf({(cs, l, ()) for cs, l, ef in N.tbl(fn)})
        run.ob('AGG.table', fn, fn.name, leaf == w, fn.loc(), 'body = %s' % leaf)
    fn = F.one('AggValidBasic::count_none')
    t = N.tbl(fn)
    w = N.T(([], 'n', ['n := 0', 'self.into_iter().for_each(|v| if !VALID(v) { n += 1; })']))
    run.ob('AGG.table', fn, 'count_none', t == w, fn.loc(), dtree.show(t))
    fn = F.one('AggValidBasic::vcount_value')
    t = N.tbl(fn)
    w = N.T((['!VALID(value)'], 'self.into_iter().fold(0, |acc, x| if !VALID(x) { (1 + acc) } else { acc })', []),
            (['VALID(value)'], 'self.vfold(0, |acc, x| if (value == x) { (1 + acc) } else { acc })', []))
    run.ob('AGG.table', fn, 'vcount_value', t == w, fn.loc(), dtree.show(t))
    # masked sum
    fn = F.one('AggValidExt::n_vsum_filter')
    cl = [x for x in walk(fn.hir) if x.get('k') == 'Closure']
    ok = len(cl) == 2
    det = ''
    if ok:
        env = {}
        for b in _pat_binds(cl[0]['params'][0]):
            env[b['local']] = b['name']
        t = dtree.table(cl[0]['ch'][0], env)
        w = N.T((['VALID(flag)', 'flag'], 'Some(v)', []), (['VALID(flag)', '!flag'], 'NULL', []),
                (['!VALID(flag)'], 'NULL', []))
        chain = src(fn.hir)
        ok = t == w and '.zip(mask).filter_map(' in chain and '.vfold_n(Zero::zero(), |acc, x| (acc + x))' in chain
        det = 'mask table %s' % dtree.show(t)
    run.ob('AGG.table', fn, 'masked sum filters before the null-skipping fold', ok, fn.loc(), det)
    # percentile_of counting closure
    fn = F.one('AggValidExt::vpercentile_of')
    cl = [x for x in walk(fn.hir) if x.get('k') == 'Closure']
    if cl:
        env = {b['local']: 'v' for b in _pat_binds(cl[0]['params'][0])}
        t = dtree.table(cl[0]['ch'][0], env)
        w = N.T((['VALID(v)', '(v < score)'], '()', ['total_count AddAssign 1', 'less_than_count AddAssign 1']),
                (['VALID(v)', '(score <= v)', '(score == v)'], '()', ['total_count AddAssign 1', 'exact_match_count AddAssign 1']),
                (['VALID(v)', '(score <= v)', '(score != v)'], '()', ['total_count AddAssign 1']),
                (['!VALID(v)'], '()', []))
        t2 = {(frozenset(c.replace('(v == score)', '(score == v)') for c in cs), l, ef) for cs, l, ef in t}
        run.ob('AGG.table', fn, 'percentile_of counting', t2 == w, fn.loc(), dtree.show(t))


def _poly_of(fn, result_pred, env=None):
    """Normal form of the expression selected by result_pred among the function's nodes, with
    all straight-line lets and compound assignments before it applied."""
    env = env or Env()
    hit = {}

    def rec(e):
        if e.get('k') == 'Block':
            saved = dict(env.vals)
            for s in e.get('stmts', []):
                x = s.get('init') or s.get('e')
                if x is not None:
                    for y in walk(x):
                        if result_pred(y) and 'p' not in hit:
                            # bind what we have, then normalise
                            hit['p'] = norm(y, env)
                            return True
                    if x.get('k') in ('If', 'Block', 'Match') and rec(x):
                        return True
                read_block({'stmts': [s]}, env)
            if 'expr' in e:
                if result_pred(e['expr']) and 'p' not in hit:
                    hit['p'] = norm(e['expr'], env)
                    return True
                if rec(e['expr']):
                    return True
            return False
        for c in children(e):
            if result_pred(c) and 'p' not in hit:
                hit['p'] = norm(c, env)
                return True
            if rec(c):
                return True
        return False
    rec(fn.hir)
    return hit.get('p')


def S(name):
    return Poly.atom(('sym', name))


def check_formulas(run, F):
    one = Poly.const(1)
    n = S('n')
    # vmean: sum / n
    fn = F.one('AggValidBasic::vmean')
    p = _poly_of(fn, lambda y: y.get('k') == 'Binary' and y['op'] == 'Div')
    run.ob('AGG.formula', fn, 'mean = sum / n', p == S('sum') * n.inv(), fn.loc(),
           'got %s' % (p.show() if p else None))
    # vmean_var: (m2 - m1^2/n)/(n-1) over raw sums
    fn = F.one('AggValidBasic::vmean_var')
    p = _poly_of(fn, lambda y: y.get('k') == 'Binary' and y['op'] == 'Div' and 'n - 1' in src(y))
    want = (S('m2') - S('m1') * S('m1') * n.inv()) * (n - one).inv()
    run.ob('AGG.formula', fn, 'sample variance = (Σx² - (Σx)²/n)/(n-1)', p == want, fn.loc(),
           'got %s ; expected %s' % (p.show() if p else None, want.show()))
    # vcov
    fn = F.one('AggValidBasic::vcov')
    p = _poly_of(fn, lambda y: y.get('k') == 'Binary' and y['op'] == 'Div' and 'n - 1' in src(y))
    want = (n * S('sum_ab') - S('sum_a') * S('sum_b')) * n.inv() * (n - one).inv()
    run.ob('AGG.formula', fn, 'sample covariance = (nΣab - ΣaΣb)/(n(n-1))', p == want, fn.loc(),
           'got %s ; expected %s' % (p.show() if p else None, want.show()))
    # vcorr_pearson numerator: Σab/n - ΣaΣb/n²
    fn = F.one('AggValidBasic::vcorr_pearson')
    p = _poly_of(fn, lambda y: y.get('k') == 'Binary' and y['op'] == 'Div' and 'sqrt' in src(y))
    ok = False
    det = None
    if p is not None:
        sq = [a for a in p.atoms() if a[0] == 'inv']
        va = S('sum2_a') * n.inv() - S('sum_a') * S('sum_a') * n.inv() * n.inv()
        vb = S('sum2_b') * n.inv() - S('sum_b') * S('sum_b') * n.inv() * n.inv()
        num = S('sum_ab') * n.inv() - S('sum_a') * S('sum_b') * n.inv() * n.inv()
        den = Poly.atom(('fn', 'sqrt', ((va * vb).freeze(),)))
        want = num * den.inv()
        ok = p == want
        det = 'got %s' % p.show()[:300]
    run.ob('AGG.formula', fn, 'Pearson r = cov_pop / sqrt(var_a var_b)', ok, fn.loc(), det)
    # vmean_filter, percentile formulas are covered by AGG.table
