"""Aggregations (tea-core/src/agg.rs, tea-agg): gates on the valid count, first-index rule,
find-first/last, fold helpers, masked sums, polynomial closed forms."""
import re
from fractions import Fraction

import dtree
import lia
from lia import L, add, sub, scale
import nullrules as N
from algebra import Poly, Env, norm, read_block
from facts import (walk, peel, src, loc, callee_is, _pat_binds, strip_generics, children)

RULES = {
    'AGG.gate': 'a non-null aggregate is produced only when the valid count reaches the '
                'statistic\'s minimum (1 sum/mean, 2 variance/covariance/correlation, 3 '
                'skewness, 4 kurtosis) and the requested min_periods',
    'AGG.first': 'arg-extrema replace the cached index only on a strictly greater / smaller '
                 'element, so the first extreme wins; the counter advances on every element',
    'AGG.find': 'vfirst / vlast are the first match of not_none from the front / the back',
    'AGG.table': 'counting / masking helpers have the decision table of their definition',
    'AGG.formula': 'the closed form equals the textbook formula over the same power sums '
                   '(polynomial normal form; identities over the reals)',
    'AGG.sub': '`n - j` on the valid count is reached only with n >= j (and n > j as a divisor)',
}


def parse_cond(c, syms):
    """canonical predicate string -> list of linear constraints (>= 0), or None."""
    negd = c.startswith('!')
    if negd:
        c = c[1:]
    m = re.fullmatch(r'\((.+) (<=|<|==|!=) (.+)\)', c)
    if not m:
        return None
    a, op, b = m.group(1), m.group(2), m.group(3)
    extra = []

    def term(t):
        t = t.strip()
        if re.fullmatch(r'\d+', t):
            return L(int(t))
        if re.fullmatch(r'\d+\.', t):
            return L(int(t[:-1]))
        mm = re.fullmatch(r'(\w+)\.max_with\((\d+)\)', t)
        if mm:
            s = 'max(%s,%s)' % (mm.group(1), mm.group(2))
            extra.append(sub(L(s), L(mm.group(1))))
            extra.append(sub(L(s), L(int(mm.group(2)))))
            return L(s)
        if re.fullmatch(r'\w+', t):
            return L(t)
        return None
    ta, tb = term(a), term(b)
    if ta is None or tb is None:
        return None
    d = sub(tb, ta)      # b - a
    if op == '<=':
        res = [d] if not negd else [add(scale(d, -1), L(-1))]
    elif op == '<':
        res = [add(d, L(-1))] if not negd else [scale(d, -1)]
    elif op == '==':
        if negd:
            # unsigned counters: x != 0 means x >= 1
            if a.strip() == '0' and re.fullmatch(r'\w+', b.strip()):
                return extra + [add(tb, L(-1))]
            if b.strip() == '0' and re.fullmatch(r'\w+', a.strip()):
                return extra + [add(ta, L(-1))]
            return extra
        res = [d, scale(d, -1)]
    else:
        if not negd:
            # unsigned counters: x != 0 means x >= 1
            if a.strip() == '0' and re.fullmatch(r'\w+', b.strip()):
                return extra + [add(tb, L(-1))]
            if b.strip() == '0' and re.fullmatch(r'\w+', a.strip()):
                return extra + [add(ta, L(-1))]
            return extra
        res = [d, scale(d, -1)]
    return extra + res


def gate_facts(conds):
    fs = []
    for c in conds:
        r = parse_cond(c, None)
        if r:
            fs.extend(r)
    return fs


def final_value(leaf, ef):
    """value of a path whose leaf is a variable: its last definition / assignment on the path"""
    if re.fullmatch(r'\w+', leaf):
        for e in reversed(ef):
            m = re.match(r'%s (:=|=) (.*)$' % re.escape(leaf), e)
            if m:
                return m.group(2)
            if re.match(r'%s \w+Assign ' % re.escape(leaf), e):
                return leaf
    return leaf


def nonnull(leaf):
    if leaf in ('NULL', '(NULL, NULL)', 'PANIC'):
        return False
    return True


GATES = [  # (fn suffix, minimum K)
    ('AggValidBasic::vsum', 1), ('AggValidBasic::vmean', 1),
    ('AggValidBasic::vmean_var', 2), ('AggValidBasic::vskew', 3),
    ('AggValidExt::vkurt', 4), ('AggValidBasic::vcov', 2),
    ('AggValidBasic::vcorr_pearson', 2), ('AggValidExt::n_sum_filter', 1),
    ('AggValidExt::vpercentile_of', 1),
]
COUNT_HELPERS = ('IterBasic::vapply_n',)
COUNT_SUM_HELPERS = ('IterBasic::vfold_n', 'AggValidExt::n_vsum_filter')


def roles(fn):
    """Names by role for the locals of an aggregation: `n` is the valid count (result of a
    counting helper, or the `+= 1` accumulator advanced on every non-null element), `sum` the
    fold result next to it, other accumulators are named after what they accumulate:
    S[<delta>] for `x += delta`, C[<conds>] for `x += 1` under extra conditions."""
    names = {}
    helper_locals = set()
    for blk in walk(fn.hir):
        if blk.get('k') != 'Block':
            continue
        for st in blk.get('stmts', []):
            if st['k'] != 'Let' or 'init' not in st:
                continue
            init = peel(st['init'])
            pat = st['pat']
            if init.get('k') == 'MethodCall' and callee_is(init, *COUNT_HELPERS) and pat.get('k') == 'Binding':
                names[pat['local']] = 'n'
            if init.get('k') == 'MethodCall' and callee_is(init, *COUNT_SUM_HELPERS) and \
                    pat.get('k') == 'Tuple' and len(pat['ch']) == 2 and \
                    all(q.get('k') == 'Binding' for q in pat['ch']):
                names[pat['ch'][0]['local']] = 'n'
                names[pat['ch'][1]['local']] = 'sum'
            if init.get('k') == 'MethodCall' and callee_is(init, *COUNT_SUM_HELPERS) and pat.get('k') == 'Binding':
                helper_locals.add(pat['local'])
                # the pair bound whole and read by projection: `r.0` is the count, `r.1` the sum
                names[(pat['local'], '0')] = 'n'
                names[(pat['local'], '1')] = 'sum'
            # `let n = r.0;` of a helper result bound to r
            if init.get('k') == 'Field' and peel(init['ch'][0]).get('local') in helper_locals and \
                    pat.get('k') == 'Binding':
                names[pat['local']] = 'n' if init.get('field') == '0' else 'sum'
    env0 = N.self_env(fn)
    for cl in walk(fn.hir):
        if cl.get('k') not in ('Closure', 'For'):
            continue
        t = dtree.body_table(fn.hir, cl, env0)
        valid_rows = [r for r in t if any(c.startswith('VALID(a') for c in r[0])
                      and not any(c.startswith('!VALID(a') or c.startswith('!(VALID(a') for c in r[0])]
        inner = {b['local'] for x in walk(cl) if x.get('k') == 'Block' for st in x.get('stmts', [])
                 if st['k'] == 'Let' for b in _pat_binds(st['pat'])}
        for x in walk(cl['ch'][0] if cl.get('k') == 'Closure' else cl['ch'][1]):
            if x.get('k') not in ('AssignOp', 'Assign'):
                continue
            tg = peel(x['ch'][0])
            if tg.get('k') != 'Path' or tg.get('res') != 'local' or tg['local'] in inner or \
                    tg['local'] in names:
                continue
            en = dtree.env_at(fn.hir, x, env0)
            # `x += d` and `x = x + d` are the same accumulation
            ma = re.fullmatch(r'(.+?) AddAssign (.+)', dtree._assign_str(x, en))
            if not ma:
                continue
            rhs = ma.group(2)
            me = en.get(tg['local'], tg['name'])
            if rhs != '1':
                names[tg['local']] = 'S[%s]' % rhs
                continue
            rows = [r for r in t if any(e == '%s AddAssign 1' % me for e in r[2])]
            if rows and set(map(id, rows)) == set(map(id, valid_rows)):
                names[tg['local']] = 'n'
            elif rows:
                common = frozenset.intersection(*[r[0] for r in rows])
                extra = sorted(c for c in common if not c.startswith('VALID(a'))
                names[tg['local']] = 'C[%s]' % ' && '.join(extra)
    return names


def rtbl(fn, versions=False):
    """function-level decision table with role names; the accumulators are read only after
    the single pass that fills them, so their version marks are dropped unless asked for"""
    env = N.self_env(fn)
    env['__names__'] = roles(fn)
    t = dtree.table(fn.hir, env)
    # `(n, sum)` of a counting helper however it is taken apart: `let (n, sum) = h;` or
    # `let r = h; r.0 .. r.1`
    helpers = set()
    for cs, l, ef in t:
        for e in ef:
            mh = re.match(r'(v\d+) := self\.(vfold_n|n_vsum_filter)\(', e)
            if mh:
                helpers.add(mh.group(1))
    if helpers:
        def proj(x):
            for h in helpers:
                x = re.sub(r"\b%s\.0\b" % h, 'n', x)
                x = re.sub(r"\b%s\.1\b" % h, 'sum', x)
            return x
        t = dtree.Table((frozenset(proj(c) for c in cs), proj(l), tuple(proj(e) for e in ef)) for cs, l, ef in t)
        env['__names__'] = dict(env['__names__'], **{'#helper': 'n'})
    if not versions:
        u = dtree.unprime
        t = dtree.Table((frozenset(u(c) for c in cs), u(l), tuple(u(e) for e in ef)) for cs, l, ef in t)
    return t, env


def check_gates(run, F):
    n = 0
    cnt = 'n'
    for name, K in GATES:
        fn = F.one(name)
        t, env = rtbl(fn)
        n += 1
        bad = []
        rows = 0
        has_count = 'n' in env['__names__'].values()
        for cs, leaf, ef in t:
            # vskew / vkurt: result flows through `res := if (K <= n) {..} else {NULL}`
            res_defs = [re.match(r'(\w+) := if \((\d+) <= (\w+)\) ', e) for e in ef]
            res_defs = [(m, e) for m, e in zip(res_defs, ef) if m and m.group(1) == leaf]
            if res_defs:
                m, e = res_defs[0]
                ok = int(m.group(2)) >= K and m.group(3) == cnt and e.rstrip().endswith('else { NULL }')
                rows += 1
                if not ok:
                    bad.append((sorted(cs), e[:80]))
                continue
            if name.endswith('vmean_var'):
                # variance component only: split the tuple leaf at its top-level comma
                var = leaf
                depth = 0
                for i, ch in enumerate(leaf[1:-1]):
                    if ch == '(':
                        depth += 1
                    elif ch == ')':
                        depth -= 1
                    elif ch == ',' and depth == 0:
                        var = leaf[1:-1][i + 1:].strip()
                        break
                if var == 'NULL':
                    continue
            elif not nonnull(final_value(leaf, ef)):
                continue
            rows += 1
            fs = gate_facts(cs) + [L(cnt)]
            if not lia.entails_ge0(fs, sub(L(cnt), L(K))):
                bad.append((sorted(cs), leaf[:60]))
        run.ob('AGG.gate', fn, '%s needs %s >= %d' % (fn.name, cnt, K), has_count and not bad and rows > 0,
               fn.loc(), '%d non-null path(s); %s' % (rows, ('not gated: %s' % bad) if bad else
                                                      'all dominated by the count test')
               if has_count else 'no valid-count variable recognised (roles %s)' % sorted(env['__names__'].values()))
        # min_periods honoured
        if any(b['name'] == 'min_periods' for p in fn.params for b in _pat_binds(p)):
            bad2 = []
            for cs, leaf, ef in t:
                if not nonnull(final_value(leaf, ef)) or (name.endswith('vmean_var') and leaf.endswith(', NULL)')):
                    continue
                fs = gate_facts(cs) + [L(cnt), L('min_periods')]
                if not lia.entails_ge0(fs, sub(L(cnt), L('min_periods'))):
                    bad2.append((sorted(cs), leaf[:50]))
            run.ob('AGG.gate', fn, '%s honours min_periods' % fn.name, not bad2, fn.loc(),
                   'paths not dominated by n >= min_periods: %s' % bad2 if bad2 else 'ok')
    # vvar / vstd delegate
    for name, want in (('AggValidBasic::vvar', 'self.vmean_var(min_periods).1'),
                       ('AggValidBasic::vstd', 'self.vvar(min_periods).sqrt()')):
        fn = F.one(name)
        leaf = N.one_leaf(N.tbl(fn))
        run.ob('AGG.gate', fn, '%s delegates' % fn.name, leaf == want, fn.loc(), 'body = %s' % leaf)
    fn = F.one('AggValidExt::vmean_filter')
    t, env = rtbl(fn)
    t = dtree.Table((cs, l, tuple(e for e in ef if ':=' not in e)) for cs, l, ef in t)
    want = N.T((['(min_periods <= n)'], '(sum / n)', []), (['(n < min_periods)'], 'NULL', []))
    run.ob('AGG.gate', fn, 'vmean_filter table', t == want, fn.loc(), dtree.show(t))
    return n


def check_sub(run, F):
    """`n - j` sites in the aggregation files."""
    n = 0
    for name, K in GATES:
        fn = F.one(name)
        cl = {l for l, r in roles(fn).items() if r == 'n'}
        for x in walk(fn.hir):
            if x.get('k') == 'Binary' and x['op'] == 'Sub' and x.get('ty') == 'usize':
                a, b = peel(x['ch'][0]), peel(x['ch'][1])
                if a.get('res') == 'local' and a.get('local') in cl and b.get('k') == 'Lit':
                    n += 1
                    j = int(b['v'])
                    # K of this function is the proven lower bound wherever a non-null is built;
                    # `res != 0 && res.not_none()` regions inherit it (res non-null => gate held)
                    ok = j < K
                    run.ob('AGG.sub', fn, '`n - %d`' % j, ok, loc(x),
                           'count >= %d wherever a non-null result is being built' % K)
    return n


def check_first(run, F):
    n = 0
    for name, rel, guarded in (('AggValidBasic::vargmax', 'Greater', True),
                               ('AggValidBasic::vargmin', 'Less', True),
                               ('AggBasic::argmax', 'Greater', False),
                               ('AggBasic::argmin', 'Less', False)):
        fn = F.one(name)
        cl = [x for x in walk(fn.hir) if x.get('k') in ('Closure', 'For')]
        n += 1
        if len(cl) != 1:
            run.ob('AGG.first', fn, fn.name, False, fn.loc(), 'expected one element loop')
            continue
        t = dtree.body_table(fn.hir, cl[0], N.self_env(fn))
        upd = ('ext = Some(a0)', 'ext_idx = Some(pos)')
        adv = ('pos AddAssign 1',)
        # `partial_cmp == Some(Greater)`, `v > max`, `matches!(..)`: one relation
        cmpc, ncmp = ('(ext < a0)', '(a0 <= ext)') if rel == 'Greater' else ('(a0 < ext)', '(ext <= a0)')
        g = ['VALID(a0)'] if guarded else []
        want = N.T((g + ['VALID(ext)', cmpc], '()', upd + adv),
                   (g + ['VALID(ext)', ncmp], '()', adv),
                   (g + ['!VALID(ext)'], '()', upd + adv))
        if guarded:
            want |= N.T((['!VALID(a0)'], '()', adv))
        # the two cache assignments are independent: compare the effects as a multiset (the
        # counter is advanced after them on every row, which the row-wise presence shows)
        adv_last = all(not ef or 'AddAssign 1' in ef[-1] for cs, l, ef in t)
        # the position may also come from `.enumerate()` (a0 the position, a1 the element): the same
        # table without the hand-advanced counter
        it_ = None
        if cl[0].get('k') == 'For':
            it_ = peel(cl[0]['ch'][0])
        else:
            for y in walk(fn.hir):
                if y.get('k') == 'MethodCall' and len(y.get('ch', [])) == 2 and peel(y['ch'][1]) is cl[0]:
                    it_ = peel(y['ch'][0])
        is_enum = it_ is not None and it_.get('k') == 'MethodCall' and callee_is(it_, 'Iterator::enumerate')
        ok_tbl = dtree.equiv(t, want, unordered=True) and adv_last
        if not ok_tbl and is_enum:
            def ren(x):
                return x.replace('a0', 'a1').replace('pos', 'a0')
            want_e = N.T(*[([ren(c) for c in cs_], l_, [ren(e_) for e_ in ef_ if 'AddAssign' not in e_])
                           for cs_, l_, ef_ in want])
            ok_tbl = dtree.equiv(t, want_e, unordered=True)
        run.ob('AGG.first', fn, '%s: strict %s, first wins' % (fn.name, rel), ok_tbl,
               fn.loc(), 'table %s' % dtree.show(t))
        # the function returns the cached index: the variable assigned Some(<position counter>)
        ft = N.tbl(fn)
        tail = N.one_leaf({(cs, l, ()) for cs, l, ef in ft})
        idxvars = {m.group(1) for cs, l, ef in t for e in ef
                   for m in [re.match(r'(\w+) = Some\((\w+)\)$', e)] if m and
                   (any(e2 == '%s AddAssign 1' % m.group(2) for e2 in ef) or (is_enum and m.group(2) == 'a0'))}
        run.ob('AGG.first', fn, '%s returns the cached index' % fn.name, len(idxvars) == 1 and dtree.unprime(tail or '') in idxvars,
               fn.loc(), 'returns %s (index cache %s)' % (tail, sorted(idxvars)))
    return n


def check_find(run, F):
    for name, want in (('AggValidBasic::vfirst', 'self.into_iter().find(IsNone::not_none)'),
                       ('AggValidBasic::vlast', 'self.into_iter().rev().find(IsNone::not_none)'),
                       ('AggValidBasic::vfirst', None)):
        if want is None:
            continue
        fn = F.one(name)
        leaf = N.one_leaf(N.tbl(fn))
        run.ob('AGG.find', fn, fn.name, leaf == want, fn.loc(), 'body = %s' % leaf)


def check_folds(run, F):
    # the callback runs exactly on the rows where every element is valid; every other row returns
    # the accumulator unchanged (whether the test is written positively, negated or as a guard)
    want = {'vfold': ('self.into_iter()', ['a1']), 'vfold2': ('self.into_iter().zip(other)', ['a1', 'a2'])}
    for name, (recv_w, els) in want.items():
        fn = F.one('IterBasic::' + name)
        env0 = N.self_env(fn)
        folds = [x for x in walk(fn.hir) if x.get('k') == 'MethodCall' and x.get('method') == 'fold' and
                 len(x['ch']) == 3 and peel(x['ch'][2]).get('k') == 'Closure']
        leaf = N.one_leaf(N.tbl(fn)) or ''
        ok = len(folds) == 1 and leaf.startswith(recv_w + '.fold(init, ')
        det = 'body = %s' % leaf
        if ok:
            en = dtree.env_at(fn.hir, folds[0], env0)
            ok = dtree.canon(folds[0]['ch'][0], dict(en)) == recv_w and dtree.canon(folds[0]['ch'][1], dict(en)) == 'init'
            t = dtree.closure_table(fn.hir, peel(folds[0]['ch'][2]), env0)
            rows = [(frozenset(cs), l[7:] if l.startswith('return ') else l, tuple(ef)) for cs, l, ef in t]
            call = 'f(a0, %s)' % ', '.join(els)
            hit = [r for r in rows if r[1] == call]
            rest = [r for r in rows if r[1] != call]
            ok = ok and len(hit) == 1 and hit[0][0] == frozenset('VALID(%s)' % e for e in els) and not hit[0][2] and \
                bool(rest) and all(l == 'a0' and not ef for cs, l, ef in rest)
            det = 'closure table %s' % dtree.show(t)
        run.ob('NULL.fold', fn, name, ok, fn.loc(), det)
    for name in ('vfold_n', 'vapply', 'vapply_n'):
        fn = F.one('IterBasic::' + name)
        cl = [x for x in walk(fn.hir) if x.get('k') in ('Closure', 'For')]
        ok = len(cl) == 1
        det = ''
        if ok:
            t = dtree.body_table(fn.hir, cl[0], N.self_env(fn))
            cnt = ('n AddAssign 1',) if name.endswith('_n') else ()
            if name == 'vfold_n':
                w = N.T((['VALID(a1)'], 'f(a0, a1)', cnt), (['!VALID(a1)'], 'a0', ()))
            else:
                # a unit-valued body: the callback call is an effect whether it is the tail
                # expression of a closure or a statement of a loop
                def unit(tb):
                    return dtree.Table((cs, '()', tuple(ef) + ((l,) if l != '()' else ())) for cs, l, ef in tb)
                t = unit(t)
                w = unit(N.T((['VALID(a0)'], 'f(a0)', cnt), (['!VALID(a0)'], '()', ())))
            ok = t == w
            det = 'closure table %s' % dtree.show(t)
            if name.endswith('_n'):
                # the counter starts at 0 and is what the function returns (first component)
                ft = N.tbl(fn)
                ok2 = len(ft) == 1
                if ok2:
                    cs, leaf, ef = list(ft)[0]
                    cvar = [m.group(1) for cs_, l_, ef_ in t for e in ef_
                            for m in [re.match(r'(\w+) AddAssign 1$', e)] if m]
                    ok2 = len(set(cvar)) == 1 and ('%s := 0' % cvar[0]) in ef and \
                        (leaf == cvar[0] + "'" or leaf.startswith("(%s', " % cvar[0]))
                    det += '; function table %s' % dtree.show(ft)
                ok = ok and ok2
        run.ob('NULL.fold', fn, name, ok, fn.loc(), det)
    return 5


def check_tables(run, F):
    specs = {
        'AggValidBasic::count_valid': 'self.vfold_n((), || ).0',
        'AggValidBasic::vany': 'self.vfold(false, |a0, a1| !(!a0 && !a1.bool_()))',
        'AggValidBasic::vall': 'self.vfold(true, |a0, a1| (a0 && a1.bool_()))',
        'AggValidBasic::vmax': 'self.vfold(NULL, |a0, a1| if VALID(a0) { Some(a0.max_with(a1)) } else { Some(a1) })',
        'AggValidBasic::vmin': 'self.vfold(NULL, |a0, a1| if VALID(a0) { Some(a0.min_with(a1)) } else { Some(a1) })',
    }
    for name, w in specs.items():
        fn = F.one(name)
        leaf = N.one_leaf({(cs, l, ()) for cs, l, ef in N.tbl(fn)})
        run.ob('AGG.table', fn, fn.name, leaf == w, fn.loc(), 'body = %s' % leaf)
    fn = F.one('AggValidBasic::count_none')
    t = N.tbl(fn)
    w = N.T(([], "n'", ['n := 0', 'for a0 in self { if !VALID(a0) { n AddAssign 1 } }']))
    run.ob('AGG.table', fn, 'count_none', t == w, fn.loc(), dtree.show(t))
    fn = F.one('AggValidBasic::vcount_value')
    t = N.tbl(fn)
    w = N.T((['!VALID(value)'], 'self.into_iter().fold(0, |a0, a1| if VALID(a1) { a0 } else { (1 + a0) })', []),
            (['VALID(value)'], 'self.vfold(0, |a0, a1| if (a1 == value) { (1 + a0) } else { a0 })', []))
    run.ob('AGG.table', fn, 'vcount_value', t == w, fn.loc(), dtree.show(t))
    # masked sum
    fn = F.one('AggValidExt::n_vsum_filter')
    cl = [x for x in walk(fn.hir) if x.get('k') == 'Closure']
    ok = len(cl) == 2
    det = ''
    if ok:
        t = dtree.closure_table(fn.hir, cl[0], N.self_env(fn))
        w = N.T((['VALID(a1)', 'a1'], 'Some(a0)', []), (['VALID(a1)', '!a1'], 'NULL', []),
                (['!VALID(a1)'], 'NULL', []))
        leaf = N.one_leaf(N.tbl(fn)) or ''
        shape = re.fullmatch(r'self\.into_iter\(\)\.zip\(mask\)\.filter_map\(\|a0, a1\| .*\)'
                             r'\.vfold_n\(Zero::zero\(\), \|a0, a1\| \(a0 \+ a1\)\)', leaf)
        ok = t == w and bool(shape)
        det = 'mask table %s; chain %s' % (dtree.show(t), leaf[:60])
    run.ob('AGG.table', fn, 'masked sum filters before the null-skipping fold', ok, fn.loc(), det)
    # percentile_of counting closure
    fn = F.one('AggValidExt::vpercentile_of')
    cl = [x for x in walk(fn.hir) if x.get('k') in ('Closure', 'For')]
    if cl:
        env = N.self_env(fn)
        env['__names__'] = roles(fn)
        t = dtree.body_table(fn.hir, cl[0], env)
        w = N.T((['VALID(a0)', '(a0 < score)'], '()', ['n AddAssign 1', 'C[(a0 < score)] AddAssign 1']),
                (['VALID(a0)', '(a0 == score)'], '()', ['n AddAssign 1', 'C[(a0 == score)] AddAssign 1']),
                (['VALID(a0)', '(score < a0)'], '()', ['n AddAssign 1']),
                (['!VALID(a0)'], '()', []))
        t2 = dtree.Table((cs, l, tuple(sorted(ef))) for cs, l, ef in t)
        w2 = dtree.Table((cs, l, tuple(sorted(ef))) for cs, l, ef in w)
        run.ob('AGG.table', fn, 'percentile_of counting', t2 == w2, fn.loc(), dtree.show(t))


def _poly_of(fn, result_pred, env=None):
    """Normal form of the expression selected by result_pred among the function's nodes, with
    all straight-line lets and compound assignments before it applied."""
    env = env or Env()
    hit = {}

    def rec(e):
        if e.get('k') == 'Block':
            saved = dict(env.vals)
            for s in e.get('stmts', []):
                x = s.get('init') or s.get('e')
                if x is not None:
                    for y in walk(x):
                        if result_pred(y) and 'p' not in hit:
                            # bind what we have, then normalise
                            hit['p'] = norm(y, env)
                            return True
                    if x.get('k') in ('If', 'Block', 'Match') and rec(x):
                        return True
                read_block({'stmts': [s]}, env)
            if 'expr' in e:
                if result_pred(e['expr']) and 'p' not in hit:
                    hit['p'] = norm(e['expr'], env)
                    return True
                if rec(e['expr']):
                    return True
            return False
        for c in children(e):
            if result_pred(c) and 'p' not in hit:
                hit['p'] = norm(c, env)
                return True
            if rec(c):
                return True
        return False
    rec(fn.hir)
    return hit.get('p')


def S(name):
    return Poly.atom(('sym', name))


def _role_env(fn):
    env = Env()
    for lid, r in roles(fn).items():
        env.name(lid, r)
    return env


def check_formulas(run, F):
    one = Poly.const(1)
    n = S('n')
    # vmean: sum / n
    fn = F.one('AggValidBasic::vmean')
    p = _poly_of(fn, lambda y: y.get('k') == 'Binary' and y['op'] == 'Div', _role_env(fn))
    run.ob('AGG.formula', fn, 'mean = sum / n', p == S('sum') * n.inv(), fn.loc(),
           'got %s' % (p.show() if p else None))
    # vmean_var: (m2 - m1^2/n)/(n-1) over raw sums
    fn = F.one('AggValidBasic::vmean_var')
    cnt = {l for l, r in roles(fn).items() if r == 'n'}

    def over_n_minus_1(y):
        if y.get('k') != 'Binary' or y['op'] != 'Div':
            return False
        return any(z.get('k') == 'Binary' and z['op'] == 'Sub' and peel(z['ch'][0]).get('local') in cnt
                   and src(peel(z['ch'][1])) == '1' for z in walk(y['ch'][1]))
    p = _poly_of(fn, over_n_minus_1, _role_env(fn))
    m1, m2 = S('S[a0]'), S('S[(a0 * a0)]')
    want = (m2 - m1 * m1 * n.inv()) * (n - one).inv()
    run.ob('AGG.formula', fn, 'sample variance = (Σx² - (Σx)²/n)/(n-1)', p == want, fn.loc(),
           'got %s ; expected %s' % (p.show() if p else None, want.show()))
    # vcov
    fn = F.one('AggValidBasic::vcov')
    cnt = {l for l, r in roles(fn).items() if r == 'n'}
    p = _poly_of(fn, over_n_minus_1, _role_env(fn))
    sa, sb, sab = S('S[a0]'), S('S[a1]'), S('S[(a0 * a1)]')
    want = (n * sab - sa * sb) * n.inv() * (n - one).inv()
    run.ob('AGG.formula', fn, 'sample covariance = (nΣab - ΣaΣb)/(n(n-1))', p == want, fn.loc(),
           'got %s ; expected %s' % (p.show() if p else None, want.show()))
    # vcorr_pearson numerator: Σab/n - ΣaΣb/n²
    fn = F.one('AggValidBasic::vcorr_pearson')
    p = _poly_of(fn, lambda y: y.get('k') == 'Binary' and y['op'] == 'Div' and
                 any(z.get('k') == 'MethodCall' and z['method'] == 'sqrt' for z in walk(y['ch'][1])),
                 _role_env(fn))
    ok = False
    det = None
    if p is not None:
        s2a, s2b = S('S[(a0 * a0)]'), S('S[(a1 * a1)]')
        va = s2a * n.inv() - sa * sa * n.inv() * n.inv()
        vb = s2b * n.inv() - sb * sb * n.inv() * n.inv()
        num = sab * n.inv() - sa * sb * n.inv() * n.inv()
        den = Poly.atom(('fn', 'sqrt', ((va * vb).freeze(),)))
        want = num * den.inv()
        ok = p == want
        det = 'got %s' % p.show()[:300]
    run.ob('AGG.formula', fn, 'Pearson r = cov_pop / sqrt(var_a var_b)', ok, fn.loc(), det)
    # vmean_filter, percentile formulas are covered by AGG.table
