"""SIB - sibling agreement: functions that implement the same thing must have the same
normal form after a stated renaming."""
import re

from facts import alpha, src, peel, walk, callee_is


def canon_src(e, subst=()):
    s = src(alpha(e))
    for a, b in subst:
        s = s.replace(a, b)
    return s


def first_diff(a, b, ctx=60):
    n = min(len(a), len(b))
    i = 0
    while i < n and a[i] == b[i]:
        i += 1
    if i == n and len(a) == len(b):
        return None
    lo = max(0, i - ctx // 2)
    return '…%s…  vs  …%s…' % (a[lo:i + ctx], b[lo:i + ctx])


def check_pair(run, rule, fa, fb, ea, eb, subst_a=(), subst_b=(), what=''):
    sa, sb = canon_src(ea, subst_a), canon_src(eb, subst_b)
    d = first_diff(sa, sb)
    run.ob(rule, fa, '%s ~ %s%s' % (fa.name, fb.name, (' ' + what) if what else ''), d is None,
           fa.loc(), 'normal forms agree (%d chars)' % len(sa) if d is None else
           'first difference: ' + d)
    return d is None
