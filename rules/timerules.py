"""tea-time rules: NaT absorption (NAT.guard), unit table (TBL.unit), constants (TBL.const),
Time constructors (TBL.time), operator mirrors (SIB.ops), month arithmetic (TIME.months)."""
import re

import dtree
import nullrules as N
import sib
from facts import (walk, peel, src, loc, callee_is, callee, strip_generics, _pat_binds, children)

RULES = {
    'PARSE.order': 'DateTime::parse tries the date-time reading of a format before the date-only reading '
                   '(chrono\'s NaiveDate::parse_from_str accepts a format with time fields and drops them, '
                   'so the other order parses every date-time text to midnight): a result taken from the '
                   'date-only parser is conditioned on the failure of the date-time parser with the same '
                   'arguments, never the reverse',
    'NAT.guard': 'an operator / conversion on NaT-capable operands produces a non-NaT result '
                 'only on paths where every such operand was tested not-NaT (or goes through a '
                 'fallible calendar constructor whose domain excludes i64::MIN)',
    'TBL.unit': 'into_unit covers all 12 ordered pairs of {ns, us, ms, s}; finer -> coarser '
                'divides (rounding toward the past: div_euclid) and coarser -> finer multiplies '
                'by the ratio of the two units',
    'TBL.const': 'the unit constants have their defining values and compose',
    'TBL.time': 'Time constructors use the named constants for each component and from_cr / '
                'as_cr agree on the modulus',
    'TBL.polars-unit': 'each TIter<DateTime<unit::X>> for a polars datetime column matches '
                       'TimeUnit::X',
    'SIB.ops': 'subtraction of a duration is addition with every sign flipped',
    'TIME.months': 'month components are applied only through chrono::Months and negation / '
                   'scaling / addition act on both components',
    'TBL.cr': 'each DateTime<U> <-> chrono conversion is chrono\'s own constructor / accessor for U '
              'on the unchanged tick count, or an integer expression that denotes the same instant '
              'on a grid containing pre-epoch instants that are not whole seconds and both range '
              'limits (i64 semantics: truncating / and %, Euclidean div_euclid / rem_euclid, '
              'checked operations)',
    'TIME.trunc': 'truncation to a whole number of months counts months from zero (a period starts '
                  'at a multiple of the month count: January for counts dividing 12) and resets the day '
                  'of the month and the time of day, so the result is the first instant of the period; '
                  'subtracting whole months alone keeps both',
    'NAT.ctor': 'From<Option<_>> / Default / from_opt constructors map None to NaT',
}

UNIT_SCALE = {'Nanosecond': 1, 'Microsecond': 10 ** 3, 'Millisecond': 10 ** 6, 'Second': 10 ** 9}
CONSTS = {'NANOS_PER_MICRO': 10 ** 3, 'NANOS_PER_MILLI': 10 ** 6, 'NANOS_PER_SEC': 10 ** 9,
          'MICROS_PER_MILLI': 10 ** 3, 'MICROS_PER_SEC': 10 ** 6, 'MILLIS_PER_SEC': 10 ** 3,
          'SECS_PER_MINUTE': 60, 'SECS_PER_HOUR': 3600, 'SECS_PER_DAY': 86400,
          'SECS_PER_WEEK': 604800}


def check_consts(run, F):
    n = 0
    for name, want in CONSTS.items():
        v = F.const_value('convert::' + name)
        n += 1
        run.ob('TBL.const', 'tea_time::convert::' + name, name, v == want, 'tea-time/src/convert.rs',
               'value %s, expected %s' % (v, want))
    return n


def check_unit_table(run, F):
    """into_unit as a decision table: NaT first, same unit unchanged, and for each ordered pair
    (from = U of self, to = T) multiplication by / floor division by the ratio constant."""
    fn = [f for f in F.fns if f.crate == 'tea_time' and f.name == 'into_unit'][0]
    t = N.tbl(fn)
    pair = re.compile(r'\(TimeUnitTrait::unit::<(\w+)>\(\), TimeUnitTrait::unit::<(\w+)>\(\)\) is '
                      r'\((?:\w+::)*(\w+), (?:\w+::)*(\w+)\)')
    seen = set()
    order_ok = True
    for cs, leaf, ef in t:
        hits = [pair.fullmatch(c) for c in cs]
        hits = [h for h in hits if h]
        if not hits:
            continue
        a_, b_, frm, to = hits[0].groups()
        if frm not in UNIT_SCALE or to not in UNIT_SCALE:
            continue
        # the scrutinee is (unit of self's type parameter, unit of the target parameter)
        order_ok = order_ok and (a_, b_) == ('U', 'T')
        seen.add((frm, to))
        coarser = UNIT_SCALE[to] > UNIT_SCALE[frm]
        ratio = UNIT_SCALE[to] // UNIT_SCALE[frm] if coarser else UNIT_SCALE[frm] // UNIT_SCALE[to]
        md = re.fullmatch(r'DateTime::new\(self\.0\.div_euclid\(convert::(\w+)\)\)', leaf)
        mm = re.fullmatch(r'DateTime::new\(\((?:convert::(\w+) \* self\.0|self\.0 \* convert::(\w+))\)\)', leaf)
        op = 'div_euclid' if md else 'Mul' if mm else None
        const = md.group(1) if md else (mm.group(1) or mm.group(2)) if mm else None
        cval = F.const_value('convert::' + (const or '?'))
        want_op = 'div_euclid' if coarser else 'Mul'
        ok = op == want_op and cval == ratio and 'VALID(self)' in cs and not ef
        run.ob('TBL.unit', fn, '%s -> %s' % (frm, to), ok, fn.loc(),
               '`%s`: operator %s (expected %s), constant %s = %s (expected ratio %d)'
               % (leaf[:60], op, want_op, const, cval, ratio))
    run.ob('TBL.unit', fn, 'dispatch on (U::unit(), T::unit())', bool(seen) and order_ok, fn.loc(),
           'scrutinee order (self unit, target unit): %s' % order_ok)
    want_pairs = {(a, b) for a in UNIT_SCALE for b in UNIT_SCALE if a != b}
    run.ob('TBL.unit', fn, 'all 12 ordered pairs present', seen == want_pairs, fn.loc(),
           'missing %s' % sorted(want_pairs - seen))
    # NaT first
    nat_rows = [(cs, l) for cs, l, ef in t if '!VALID(self)' in cs]
    ok = bool(nat_rows) and all(l.endswith('nat()') for cs, l in nat_rows) and \
        all(('VALID(self)' in cs) or ('!VALID(self)' in cs) for cs, l, ef in t)
    run.ob('NAT.guard', fn, 'into_unit: NaT stays NaT', ok, fn.loc(),
           'rows testing NaT: %s' % [(sorted(c), l) for c, l in nat_rows][:2])
    return len(seen)


OPS = [  # (impl self head, trait, rhs head) -> operands that are NaT-capable
    ('DateTime', 'Add', 'TimeDelta', ('self', 'rhs')), ('DateTime', 'Sub', 'TimeDelta', ('self', 'rhs')),
    ('DateTime', 'Sub', 'DateTime', ('self', 'rhs')), ('TimeDelta', 'Neg', None, ('self',)),
    ('TimeDelta', 'Add', 'TimeDelta', ('self', 'rhs')), ('TimeDelta', 'Sub', 'TimeDelta', ('self', 'rhs')),
    ('TimeDelta', 'Mul', 'i32', ('self',)), ('Time', 'Add', 'TimeDelta', ('self', 'rhs')),
    ('Time', 'Sub', 'TimeDelta', ('self', 'rhs')),
]


def op_fns(F):
    out = {}
    for fn in F.fns:
        if fn.kind == 'AssocFn' and fn.crate == 'tea_time' and fn.impl_trait and \
                fn.file.endswith('impl_ops.rs'):
            tr = strip_generics(fn.impl_trait).split('::')[-1]
            ref = fn.d.get('impl_trait_ref', '')
            m = re.search(r' as .*?::%s<(.+)>>$' % tr, ref)
            rhs = strip_generics(m.group(1).split('<')[0]).split('::')[-1] if m else None
            sh = strip_generics((fn.impl_self or '').split('<')[0]).split('::')[-1]
            if rhs is None and tr in ('Add', 'Sub', 'Mul', 'Div'):
                rhs = sh          # `impl Add for X` : Rhs defaults to Self
            out[(sh, tr, rhs)] = fn
    return out


def op_tbl(fn):
    """decision table of an operator impl with the operands named by position (`self`, `rhs`),
    whatever the impl calls them"""
    env = {}
    i = 0
    for p_ in fn.params:
        for b in _pat_binds(p_):
            env[b['local']] = 'self' if i == 0 else 'rhs' if i == 1 else 'p%d' % i
            i += 1
    return dtree.table(fn.hir, env)


def is_nat_leaf(leaf):
    return leaf.endswith('nat()') or leaf == 'self' or leaf == 'NULL' or leaf == 'PANIC'


def check_ops(run, F):
    fns = op_fns(F)
    n = 0
    for sh, tr, rhs, operands in OPS:
        fn = fns.get((sh, tr, rhs if rhs not in ('i32',) else 'i32')) or fns.get((sh, tr, rhs))
        if fn is None:
            # Neg has no rhs generic
            fn = fns.get((sh, tr, None))
        key = '%s %s %s' % (sh, tr, rhs or '')
        if fn is None:
            run.ob('NAT.guard', 'tea_time::impl_ops', key, False, '', 'operator impl not found')
            continue
        n += 1
        t = op_tbl(fn)
        bad = []
        for cs, leaf, ef in t:
            if is_nat_leaf(leaf) and not leaf.startswith('Time('):
                # `self` as a leaf is only NaT on the path where self was found NaT
                if leaf == 'self' and '!VALID(self)' not in cs:
                    bad.append((sorted(cs), leaf))
                continue
            missing = [o for o in operands if 'VALID(%s)' % o not in cs]
            if missing:
                bad.append((sorted(cs), leaf[:40], 'untested: %s' % missing))
        run.ob('NAT.guard', fn, key.strip(), not bad, fn.loc(),
               'every non-NaT result path tests %s' % list(operands) if not bad else
               'paths producing a value without testing an operand: %s' % bad[:2])
    return n


def check_conversions(run, F):
    n = 0
    def one(qsuffix):
        r = [f for f in F.fns if f.crate == 'tea_time' and f.qpath.endswith(qsuffix)]
        return r[0] if r else None
    # as_cr / into_opt_i64 / strftime / Debug
    for q, null_leaf in (('DateTime::<U>::as_cr', 'NULL'), ('DateTime::<U>::into_opt_i64', 'NULL'),
                         ('DateTime::<U>::strftime', 'str:NaT.to_string()'),
                         ('DateTime::<U>::duration_trunc', 'self')):
        fn = one(q)
        if fn is None:
            run.ob('NAT.guard', 'tea_time', q, False, '', 'function not found')
            continue
        n += 1
        t = N.tbl(fn)
        rows = [(cs, l) for cs, l, ef in t if '!VALID(self)' in cs]
        others = [(cs, l) for cs, l, ef in t if '!VALID(self)' not in cs]
        ok = bool(rows) and all(l == null_leaf for cs, l in rows) and \
            all('VALID(self)' in cs for cs, l in others)
        run.ob('NAT.guard', fn, q.split('::')[-1], ok, fn.loc(),
               'NaT rows %s' % [(sorted(c), l) for c, l in rows][:2])
    # TryFrom<DateTime<U>> for chrono::DateTime<Utc>
    total_ctor = ('from_timestamp_nanos',)
    partial_ctor = ('from_timestamp', 'from_timestamp_millis', 'from_timestamp_micros')
    for fn in F.fns:
        if fn.kind == 'AssocFn' and fn.crate == 'tea_time' and fn.name == 'try_from' and \
                fn.file.endswith('impl_datetime.rs'):
            n += 1
            calls = [strip_generics(callee(x) or '').split('::')[-1] for x in walk(fn.hir)
                     if x.get('k') in ('Call', 'MethodCall')]
            t = N.tbl(fn)
            tested = any('!VALID(dt)' in cs for cs, l, ef in t)
            uses_total = any(c in total_ctor for c in calls)
            uses_partial = any(c in partial_ctor for c in calls)
            # a fallible constructor rejects NaT only if the NaT tick count lies outside chrono's
            # range: true for s / ms / us, false for ns (i64::MIN ns is 1677-09-21, a valid instant)
            unit_ = _unit_of(fn.d.get('impl_trait_ref', '').split('TryFrom<', 1)[-1])
            out_of_range = unit_ != 'Nanosecond'
            ok = tested or (uses_partial and not uses_total and out_of_range)
            run.ob('NAT.guard', fn, 'TryFrom<%s>' % N._short(fn.d.get('impl_trait_ref', '').split('TryFrom<')[-1].rstrip('>')),
                   ok, fn.loc(),
                   'NaT test: %s; constructor(s) %s (%s)' % (
                       tested, [c for c in calls if c.startswith('from_timestamp')],
                       'range excludes i64::MIN ticks' if uses_partial and not uses_total and out_of_range else
                       'i64::MIN ticks denote a valid instant at this unit: the NaT test is needed'))
    return n


def check_ctors(run, F):
    n = 0
    for fn in F.fns:
        if fn.kind != 'AssocFn' or fn.crate != 'tea_time' or fn.name != 'from':
            continue
        ref = fn.d.get('impl_trait_ref', '')
        if 'From<std::option::Option<' not in ref:
            continue
        n += 1
        t = N.tblx(fn)
        p = [b['name'] for q in fn.params for b in _pat_binds(q)][0]
        rows = [(cs, l) for cs, l, ef in t if '!VALID(%s)' % p in cs]
        ok = bool(rows) and all(l.endswith('nat()') for cs, l in rows)
        run.ob('NAT.ctor', fn, 'From<Option<..>> for %s' % N._short(fn.impl_self), ok, fn.loc(),
               'None rows: %s' % rows)
    for fn in F.fns:
        if fn.kind == 'AssocFn' and fn.crate == 'tea_time' and fn.name == 'default' and \
                fn.impl_self and any(x in fn.impl_self for x in ('DateTime', 'TimeDelta')):
            n += 1
            leaf = N.one_leaf(N.tbl(fn))
            run.ob('NAT.ctor', fn, 'Default for %s' % N._short(fn.impl_self), bool(leaf) and leaf.endswith('nat()'),
                   fn.loc(), 'default = %s' % leaf)
    return n


def check_polars_units(run, F):
    n = 0
    for fn in F.fns:
        if fn.kind == 'AssocFn' and fn.name == 'titer' and fn.file.endswith('backends_impl/polars.rs') \
                and 'DatetimeChunked' in (fn.impl_self or '') or \
                (fn.kind == 'AssocFn' and fn.name == 'titer' and fn.file.endswith('backends_impl/polars.rs')
                 and 'Logical<tea_deps::polars::prelude::DatetimeType' in (fn.impl_self or '')):
            ref = fn.d.get('impl_trait_ref', '')
            m = re.search(r'DateTime<tea_time::(?:timeunit|unit)::(\w+)>', ref) or \
                re.search(r'DateTime<[\w:]*?(\w+second)>', ref)
            unit = m.group(1) if m else ('Nanosecond' if 'DateTime>' in ref or 'DateTime,' in ref else None)
            arms = [dtree.pat_src(a['pat']) for x in walk(fn.hir) if x.get('k') == 'Match'
                    for a in x['arms']]
            s = src(fn.hir)
            mm = re.search(r'TimeUnit::(\w+)', s)
            got = mm.group(1) if mm else None
            n += 1
            ok = unit is not None and got is not None and got.rstrip('s') == unit
            run.ob('TBL.polars-unit', fn, 'TIter<DateTime<%s>>' % unit, ok, fn.loc(),
                   'matches TimeUnit::%s' % got)
    return n


def check_time_ctors(run, F):
    from algebra import Poly, parse_poly, defs_of

    def one(q):
        return [f for f in F.fns if f.crate == 'tea_time' and f.qpath.endswith(q)][0]

    def final_nanos(fn):
        """polynomial of the nanosecond field of the Time a constructor returns"""
        t = N.tbl(fn)
        if len(t) != 1:
            return None, dtree.show(t)
        cs, leaf, ef = list(t)[0]
        u = dtree.unprime
        m_ = re.fullmatch(r'(?:Self|time::Time|Time)\((.*)\)', leaf)
        if m_:
            return parse_poly(m_.group(1), defs_of(ef)), leaf
        # `let mut t = base; t.0 += x; t`
        base = [re.match(r'(\w+) := (.*)$', e) for e in ef]
        base = [b for b in base if b and b.group(1) == u(leaf)]
        adds = [re.match(r"%s\.0 AddAssign (.*)$" % re.escape(u(leaf)), u(e)) for e in ef]
        adds = [a for a in adds if a]
        if len(base) == 1 and len(adds) == 1:
            return parse_poly('(%s.0 + %s)' % (base[0].group(2), adds[0].group(1))), leaf
        return None, dtree.show(t)
    S = lambda x: parse_poly(x)
    NPS = S('convert::NANOS_PER_SEC')
    fn = one('Time::from_hms')
    got, shown = final_nanos(fn)
    want = (S('hour') * S('convert::SECS_PER_HOUR') + S('min') * S('convert::SECS_PER_MINUTE') + S('sec')) * NPS
    run.ob('TBL.time', fn, 'from_hms = (h*3600 + m*60 + s) * 1e9', got == want, fn.loc(),
           'got %s' % (got.show() if got else shown))
    base = S('Time::from_hms(hour, min, sec).0')
    for nm, const, arg in (('from_hms_milli', 'convert::NANOS_PER_MILLI', 'milli'),
                           ('from_hms_micro', 'convert::NANOS_PER_MICRO', 'micro'), ('from_hms_nano', None, 'nano')):
        fn = one('Time::' + nm)
        got, shown = final_nanos(fn)
        want = base + (S(arg) * S(const) if const else S(arg))
        run.ob('TBL.time', fn, nm, got == want, fn.loc(), 'got %s' % (got.show() if got else shown))
    fn = one('Time::from_num_seconds_from_midnight')
    got, shown = final_nanos(fn)
    run.ob('TBL.time', fn, 'from_num_seconds_from_midnight', got == S('secs') * NPS + S('nano'), fn.loc(),
           'got %s' % (got.show() if got else shown))
    fa, fb = one('Time::from_cr'), one('Time::as_cr')
    got, shown = final_nanos(fa)
    la = N.one_leaf(N.tbl(fb)) or ''
    ok = got == S('cr.num_seconds_from_midnight()') * NPS + S('cr.nanosecond()') and \
        bool(re.fullmatch(r'NaiveTime::from_num_seconds_from_midnight_opt\(\(self\.0 / convert::NANOS_PER_SEC\), '
                          r'\(self\.0 % convert::NANOS_PER_SEC\)\)', la))
    run.ob('TBL.time', fa, 'from_cr / as_cr agree on the modulus', ok, fa.loc(), la[:150])
    fp = one('Time::parse')
    tp = N.tbl(fp)
    okp = bool(tp)
    for cs, leaf, ef in tp:
        m_ = re.fullmatch(r'(?:v1::)?Ok\((?:Self|time::Time|Time)\((.*)\)\)', leaf)
        if not m_:
            okp = False
            continue
        inner = m_.group(1)
        dd = defs_of(ef)
        for _ in range(4):
            for k_, v_ in dd.items():
                inner = re.sub(r"\b%s\b(?!')" % re.escape(k_), lambda _m: v_, inner)
        mm = re.fullmatch(r'\(\(convert::NANOS_PER_SEC \* (.+)\.num_seconds_from_midnight\(\)\) \+ (.+)\.nanosecond\(\)\)', inner)
        okp = okp and bool(mm) and mm.group(1) == mm.group(2)
    run.ob('TBL.time', fp, 'parse builds nanos like from_cr', okp, fp.loc(),
           'leaves %s' % [l[-90:] for cs, l, ef in tp])


def check_parse_order(run, F):
    fns = [f for f in F.fns if f.crate == 'tea_time' and f.qpath.endswith('DateTime::<U>::parse')]
    if len(fns) != 1:
        run.ob('PARSE.order', 'tea_time', 'DateTime::parse present', False, '', '%d functions' % len(fns))
        return 0
    fn = fns[0]
    import pinned
    root = pinned.expand_options(fn.hir)
    env = {}
    for i_, p_ in enumerate(b for q in fn.params for b in _pat_binds(q)):
        env[p_['local']] = 'p%d' % i_
    # every place a parser result is consumed: the function's own paths, loop bodies and closure
    # bodies (`for rule in RULES { .. }`, `RULES.iter().find_map(|rule| ..)`, a counter loop)
    tables = [('function paths', dtree.table(root, env))]
    for x in walk(root):
        if x.get('k') in ('For', 'While'):
            tables.append(('loop body', dtree.body_table(root, x, env)))
        elif x.get('k') == 'Closure':
            tables.append(('closure body', dtree.closure_table(root, x, env)))
    P = re.compile(r'(!?)(NaiveDateTime|NaiveDate)::parse_from_str\((.*)\) is (?:\w+::)*(Ok|Err)\(_\)')
    bad = []
    rows = 0
    sites = set()
    for name, t in tables:
        for cs, leaf, ef in t:
            st = {}
            for c in cs:
                m = P.fullmatch(c)
                if m:
                    st[(m.group(2), m.group(3))] = (m.group(1) == '') == (m.group(4) == 'Ok')
            for (who, args_), okp in st.items():
                if not okp:
                    continue
                rows += 1
                sites.add((who, args_))
                if who == 'NaiveDate' and st.get(('NaiveDateTime', args_)) is not False:
                    bad.append('%s: date-only result without a failed date-time parse of (%s)' % (name, args_))
                if who == 'NaiveDateTime' and st.get(('NaiveDate', args_)) is False:
                    bad.append('%s: date-time parse of (%s) attempted only after the date-only parse failed' % (name, args_))
    # both parsers are consulted for the explicit format and for the listed formats
    run.ob('PARSE.order', fn, 'date-time reading before date-only reading', len(sites) >= 4 and not bad, fn.loc(),
           '%d parser-success row(s) over %d (parser, arguments) site(s); %s'
           % (rows, len(sites), '; '.join(sorted(set(bad))) if bad else 'date-time reading first everywhere'))
    return 1


def check_mirrors(run, F):
    fns = op_fns(F)
    pairs = [(('DateTime', 'Add', 'TimeDelta'), ('DateTime', 'Sub', 'TimeDelta')),
             (('Time', 'Add', 'TimeDelta'), ('Time', 'Sub', 'TimeDelta')),
             (('TimeDelta', 'Add', 'TimeDelta'), ('TimeDelta', 'Sub', 'TimeDelta'))]
    for a, b in pairs:
        fa, fb = fns.get(a), fns.get(b)
        if not fa or not fb:
            run.ob('SIB.ops', 'tea_time::impl_ops', '%s ~ %s' % (a, b), False, '', 'impl missing')
            continue
        # x - d  ==  x + (-d): substitute -rhs.months / -rhs.inner into the addition's decision
        # table and compare it, row by row, with the subtraction's (values as polynomials)
        from algebra import parse_poly
        ta, tb = op_tbl(fa), op_tbl(fb)

        def neg_rhs(x):
            x = x.replace('rhs.inner.num_nanoseconds()', 'NEGN').replace('rhs.inner', 'NEGI')
            x = x.replace('rhs.months', 'NEGM')
            x = x.replace('Months::new(-NEGM)', 'Months::new(rhs.months)') \
                 .replace('Months::new(NEGM)', 'Months::new(-rhs.months)')
            x = x.replace('(0 < NEGM)', '(rhs.months < 0)').replace('(NEGM < 0)', '(0 < rhs.months)')
            x = x.replace('NEGM', 'rhs.months') if re.search(r'\(0 (==|!=) NEGM\)', x) else x
            x = x.replace('VALID(NEGN)', 'VALID(rhs.inner.num_nanoseconds())')
            return x
        defs = {'NEGN': '(0 - rhs.inner.num_nanoseconds())', 'NEGI': '(0 - rhs.inner)',
                'NEGM': '(0 - rhs.months)'}

        def value(leaf, d):
            ms = re.fullmatch(r'[\w:?]*\{(.*)\}', leaf)
            if ms:
                parts, depth, cur = [], 0, ''
                for ch in ms.group(1):
                    if ch in '([{':
                        depth += 1
                    elif ch in ')]}':
                        depth -= 1
                    if ch == ',' and depth == 0:
                        parts.append(cur)
                        cur = ''
                    else:
                        cur += ch
                parts.append(cur)
                return tuple(sorted((p_.split(':', 1)[0].strip(), parse_poly(p_.split(':', 1)[1], d))
                                    for p_ in parts if ':' in p_))
            m_ = re.fullmatch(r'[\w:]+\((.*)\)', leaf)
            inner = m_.group(1) if m_ and not leaf.endswith('nat()') else leaf
            return parse_poly(inner, d)
        rows_a = {}
        for cs, l, ef in ta:
            rows_a[frozenset(neg_rhs(c) for c in cs)] = ('PANIC' if l == 'PANIC' else value(neg_rhs(l), defs))
        rows_b = {frozenset(cs): ('PANIC' if l == 'PANIC' else value(l, {})) for cs, l, ef in tb}
        d = None
        if set(rows_a) != set(rows_b):
            d = 'path conditions differ: %s  vs  %s' % (sorted(map(sorted, set(rows_a) - set(rows_b)))[:1],
                                                       sorted(map(sorted, set(rows_b) - set(rows_a)))[:1])
        else:
            for k_ in rows_a:
                if rows_a[k_] != rows_b[k_]:
                    d = 'under %s: add(-d) = %s, sub(d) = %s' % (
                        sorted(k_), _show(rows_a[k_]), _show(rows_b[k_]))
                    break
        run.ob('SIB.ops', fa, '%s %s ~ %s (signs flipped)' % (a[0], a[1], b[1]), d is None, fa.loc(),
               'decision tables agree under d -> -d (%d rows)' % len(rows_a) if d is None else d)


def _show(v):
    if isinstance(v, str):
        return v
    if isinstance(v, tuple):
        return '{%s}' % ', '.join('%s: %s' % (f, p.show()) for f, p in v)
    return v.show()


def check_months(run, F):
    fns = op_fns(F)
    # Neg / Mul / Add / Sub on TimeDelta act on both components
    want = {
        ('TimeDelta', 'Neg', None): 'timedelta::TimeDelta{months: -self.months, inner: -self.inner}',
        ('TimeDelta', 'Add', 'TimeDelta'): 'timedelta::TimeDelta{months: (rhs.months + self.months), inner: (rhs.inner + self.inner)}',
        ('TimeDelta', 'Sub', 'TimeDelta'): 'timedelta::TimeDelta{months: (self.months - rhs.months), inner: (self.inner - rhs.inner)}',
        ('TimeDelta', 'Mul', 'i32'): 'timedelta::TimeDelta{months: (rhs * self.months), inner: (rhs * self.inner)}',
    }
    for k, w in want.items():
        fn = fns.get(k)
        if fn is None:
            run.ob('TIME.months', 'tea_time::impl_ops', str(k), False, '', 'impl missing')
            continue
        t = op_tbl(fn)
        vals = [l for cs, l, ef in t if not is_nat_leaf(l)]
        norm_ = [re.sub(r'^[\w:?]*\{', 'timedelta::TimeDelta{', v) for v in vals]
        run.ob('TIME.months', fn, 'TimeDelta %s acts on both components' % k[1],
               len(vals) == 1 and (norm_[0] == w or norm_[0].replace('TimeDelta{', 'timedelta::TimeDelta{') == w),
               fn.loc(), 'value = %s' % vals)
    # month arithmetic on date-times only through chrono::Months
    for k in (('DateTime', 'Add', 'TimeDelta'), ('DateTime', 'Sub', 'TimeDelta')):
        fn = fns.get(k)
        if fn is None:
            continue
        t = op_tbl(fn)
        bad = []
        uses = 0
        for cs, leaf, ef in t:
            for x in [leaf] + list(ef):
                uses += x.count('rhs.months')
                rest = x.replace('Months::new(rhs.months)', '').replace('Months::new(-rhs.months)', '')
                if 'rhs.months' in rest:
                    bad.append(x[:80])
            for c in cs:
                if 'rhs.months' in c and not re.fullmatch(
                        r'\((0 (<|<=|==|!=) rhs\.months|rhs\.months (<|<=) 0)\)', c):
                    bad.append(c)
        run.ob('TIME.months', fn, 'DateTime %s: months only via chrono::Months' % k[1], not bad,
               fn.loc(), '%d use(s) of rhs.months in values; outside Months::new / sign tests: %s' % (uses, bad))


def _unit_of(tref):
    for u in ('Second', 'Millisecond', 'Microsecond', 'Nanosecond'):
        if 'timeunit::' + u in tref:
            return u
    return 'Nanosecond'     # the default unit parameter is elided in the rendered type


def check_cr_table(run, F):
    """TBL.cr: TryFrom<DateTime<U>> for chrono::DateTime<Utc> and From<chrono::DateTime<Utc>>
    for DateTime<U>, the pair behind as_cr / arithmetic / strftime / parse / duration_trunc"""
    import timeeval as E
    n = 0
    for fn in F.fns:
        if fn.kind != 'AssocFn' or fn.crate != 'tea_time' or not fn.file.endswith('impl_datetime.rs'):
            continue
        tref = fn.d.get('impl_trait_ref', '')
        if fn.name == 'try_from' and 'TryFrom<datetime::DateTime' in tref:
            unit = _unit_of(tref.split('TryFrom<', 1)[1])
            n += 1
            key = 'DateTime<%s> -> chrono' % unit
            ctors = [x for x in walk(fn.hir) if x.get('k') == 'Call' and
                     strip_generics(x.get('callee') or '').split('::')[-1].startswith('from_timestamp')]
            if len(ctors) != 1:
                run.ob('TBL.cr', fn, key, False, fn.loc(), '%d chrono constructor calls, expected 1' % len(ctors))
                continue
            c = ctors[0]
            name = strip_generics(c['callee']).split('::')[-1]
            dt_local = fn.params[0].get('local') if fn.params and fn.params[0].get('k') == 'Binding' else None
            bad = None
            dense = getattr(run, 'tier', 'quick') == 'thorough'
            for t in E.tick_grid(unit, dense):
                try:
                    env = {dt_local: ('DT', t)}
                    for st in fn.hir.get('stmts', []):
                        if st['k'] == 'Let' and 'init' in st:
                            try:
                                E.bind_let(st, env, F)
                            except E.Unk:
                                pass
                    args = [E.ev(a, env, F) for a in c['ch'][1:]]
                    if name == 'from_timestamp' and len(args) == 2:
                        inst = args[0] * 10 ** 9 + args[1] if 0 <= args[1] < 2 * 10 ** 9 else None
                    elif name in ('from_timestamp_millis', 'from_timestamp_micros', 'from_timestamp_nanos') \
                            and len(args) == 1:
                        inst = args[0] * {'from_timestamp_millis': 10 ** 6, 'from_timestamp_micros': 10 ** 3,
                                          'from_timestamp_nanos': 1}[name]
                    else:
                        raise E.Unk('constructor %s/%d' % (name, len(args)))
                except E.Unk as ex:
                    bad = 'not evaluable: %s' % ex
                    break
                except E.Overflow:
                    bad = 'arithmetic overflow at %d ticks' % t
                    break
                if inst != t * E.SCALE[unit]:
                    bad = '%d ticks denote %d ns, the constructor receives %s' % (t, t * E.SCALE[unit], inst)
                    break
            run.ob('TBL.cr', fn, key, bad is None, loc(c),
                   bad or '%s%s denotes the same instant on %d grid points' % (
                       name, tuple(src(a) for a in c['ch'][1:]), len(E.tick_grid(unit, getattr(run, 'tier', 'quick') == 'thorough'))))
        elif fn.name == 'from' and 'From<chrono::DateTime<chrono::Utc>>' in tref and \
                'datetime::DateTime' in (fn.impl_self or ''):
            unit = _unit_of(fn.impl_self)
            n += 1
            key = 'chrono -> DateTime<%s>' % unit
            dt_local = fn.params[0].get('local') if fn.params and fn.params[0].get('k') == 'Binding' else None
            bad = None
            grid = list(E.CR_GRID)
            if getattr(run, 'tier', 'quick') == 'thorough':
                grid += [(s0 + d, ns0) for s0 in (-2, 0, 1, -777_600_000, 1_700_000_000, -9_223_372_036, 9_223_372_035)
                         for d in (-1, 0, 1) for ns0 in (0, 1, 999, 1_000, 999_999, 1_000_000, 500_000_000, 999_999_999)]
            for s_, ns in grid:
                want = E.expected_from_cr(unit, s_, ns)
                if unit != 'Nanosecond' and not (-8_000_000_000 < s_ < 8_000_000_000):
                    continue        # far outside what the other units are asked about
                try:
                    got = E.ticks(E.ev(fn.hir, {dt_local: ('CR', s_, ns)}, F))
                except E.Unk as ex:
                    bad = 'not evaluable: %s' % ex
                    break
                except E.Overflow:
                    bad = 'arithmetic overflow at %d s + %d ns' % (s_, ns)
                    break
                if got != want:
                    bad = 'instant %d s + %d ns gives %s, expected %s' % (
                        s_, ns, 'NaT' if got == E.NAT else got, 'NaT' if want == E.NAT else want)
                    break
            run.ob('TBL.cr', fn, key, bad is None, fn.loc(),
                   bad or 'agrees with floor(instant / unit) (NaT outside the range) on the grid: %s'
                   % src(fn.hir)[:70])
    run.floor('TBL.cr', 'DateTime <-> chrono conversions', n, 8)
    return n


def check_trunc(run, F):
    """TIME.trunc on DateTime::duration_trunc: every path with a positive month count"""
    fs = [f for f in F.fns if f.crate == 'tea_time' and f.qpath.endswith('DateTime::<U>::duration_trunc')]
    if len(fs) != 1:
        run.ob('TIME.trunc', 'tea_time', 'duration_trunc', False, '', 'function not found')
        return 0
    fn = fs[0]
    t = N.tbl(fn)
    rows = [(cs, l, ef) for cs, l, ef in t if '(0 < duration.months)' in cs and l != 'PANIC']
    bad0, badd, badt = [], [], []
    for cs, l, ef in rows:
        text = ' ; '.join(ef) + ' ; ' + l
        zero_based = ('.month0()' in text and '.month()' not in text) or \
            (re.search(r'\(\S+\.month\(\) - 1\)', text) and '.month0()' not in text and
             len(re.findall(r'\.month\(\)', text)) == len(re.findall(r'\(\S+\.month\(\) - 1\)', text)))
        day = re.search(r'with_day\(1\)|with_day0\(0\)|from_ymd_opt\([^,()]+, [^,()]+, 1\)', text)
        tim = re.search(r'with_time\(NaiveTime::MIN\)|and_time\(NaiveTime::MIN\)|and_hms_opt\(0, 0, 0\)', text)
        if not zero_based:
            bad0.append(sorted(cs))
        if not day:
            badd.append(sorted(cs))
        if not tim:
            badt.append(sorted(cs))
    run.ob('TIME.trunc', fn, 'month paths exist', len(rows) >= 2, fn.loc(), '%d path(s) with a positive month count' % len(rows))
    run.ob('TIME.trunc', fn, 'months counted from zero', not bad0 and bool(rows), fn.loc(),
           'the modulus is taken of 12*year + a zero-based month on every month path' if not bad0 else
           'a one-based month enters the modulus (periods would start in March / June / .. / December) under %s' % bad0[:1])
    run.ob('TIME.trunc', fn, 'day of month reset', not badd and bool(rows), fn.loc(),
           'every month path sets the day to 1' if not badd else 'no day reset under %s: subtracting months keeps the day' % badd[:1])
    run.ob('TIME.trunc', fn, 'time of day reset', not badt and bool(rows), fn.loc(),
           'every month path sets the time to midnight' if not badt else 'no time reset under %s: subtracting months keeps the time' % badt[:1])
    return 4
