"""The lag family (shift, vshift, vdiff, vpct_change): SEQ.len / ret-len / underflow / pos / causal."""
import lia
from lia import L
import seqrules
import seq as S
from facts import src, loc, walk, peel, callee_is

LAG = [('tea_map::MapBasic::shift', False), ('MapValidBasic::vshift', False),
       ('MapValidVec::vdiff', True), ('MapValidVec::vpct_change', True)]

RULES = dict(seqrules.RULES)
RULES['SEQ.fill-value'] = ('every position whose lagged operand does not exist carries the same '
                          'fill expression - the caller\'s fill value (defaulted to null) - on '
                          'every path, including the early return for a lag beyond the series')
RULES['SEQ.fill-through'] = ('where the lagged operand does not exist the output is the fill '
                             'value itself: a fill fed through the element function must be a '
                             'null that the function propagates')


def check_lag(run, F, rules=('SEQ.len', 'SEQ.ret-len', 'SEQ.underflow', 'SEQ.pos', 'SEQ.causal',
                             'SEQ.fill-through', 'SEQ.fill-value')):
    for r in rules:
        run.rule(r, RULES[r])
    n = 0
    for name, diff in LAG:
        fn = F.one(name)
        ev = seqrules.run_eval(fn)
        sub = _Filter(run, rules)
        seqrules.check_len_sites(sub, fn, ev)
        seqrules.check_underflow(sub, fn, ev)
        seqrules.check_ret_len(sub, fn, ev, lambda W: L('len(self)'), 'input length')
        nsym = seqrules.param_sym(fn, 'n')
        n += seqrules.check_lag_positions(sub, fn, ev, nsym, diff=diff)
        if diff and 'SEQ.fill-through' in rules:
            fill_through(run, fn, ev)
        if 'SEQ.fill-value' in rules:
            fill_value(run, fn, ev)
    run.floor('SEQ.pos', 'lag-family pieces', n, 18)
    return n


class _Filter:
    """Forward only the selected rules to the run."""

    def __init__(self, run, rules):
        self.run, self.rules = run, set(rules)

    def ob(self, rule, *a, **kw):
        if rule in self.rules:
            return self.run.ob(rule, *a, **kw)
        return True


def fill_through(run, fn, ev):
    seen = set()
    for W, q, node in ev.returns:
        if q is None or q.unknown:
            continue
        for guards, el in q.pieces:
            if el[0] == 'map' and isinstance(el[2], tuple) and el[2][0] == 'pair':
                a = el[2][1]
                inner = a
                while inner[0] == 'map':
                    inner = inner[2]
                if inner[0] == 'fill':
                    fdesc = el[1]
                    fill = inner[1]
                    null_fill = fill.endswith('NAN') or fill.endswith('none()') or fill.endswith('None')
                    key = 'fill(%s) through the element function' % ('null' if null_fill else fill)
                    if (key, fdesc) in seen:
                        continue
                    seen.add((key, fdesc))
                    # the function must return null whenever its first (lagged) operand is null
                    import dtree
                    cl = getattr(ev, 'map_closures', {}).get(fdesc)
                    guarded = False
                    tdesc = 'element function not a closure literal'
                    if cl is not None and cl.get('k') == 'Closure':
                        t = dtree.closure_table(fn.hir, cl, {})
                        # rows partition the inputs: a non-null result only on rows that
                        # require the lagged operand to be valid
                        nonnull = [(cs, l) for cs, l, ef in t if l != 'NULL']
                        guarded = bool(nonnull) and all('VALID(a0)' in cs for cs, l in nonnull)
                        tdesc = 'non-null rows: %s' % [(sorted(cs), l) for cs, l in nonnull]
                    run.ob('SEQ.fill-through', fn, key, null_fill and guarded, loc(node),
                           'the first |n| outputs are f(fill, x[p]): %s; %s'
                           % ('fill is a null literal and f returns null on it' if null_fill and guarded
                              else 'the fill value is combined with x[p] instead of being emitted '
                                   '(mirror arm emits the fill itself)', tdesc))


def fill_value(run, fn, ev):
    """All repeat_n fills of a lag function spell the same value once lets are inlined."""
    import dtree
    import nullrules as N
    vals = {}
    for desc, nodes in getattr(ev, 'fill_nodes', {}).items():
        for nd in nodes:
            en = dtree.env_at(fn.hir, nd, N.self_env(fn))
            vals.setdefault(dtree.canon(nd, en), []).append(nd)
    has_value = any(b['name'] == 'value' for p in fn.params for b in __import__('facts')._pat_binds(p))
    ok = len(vals) == 1
    if ok and has_value:
        v = list(vals)[0]
        ok = v in ('value', 'value.unwrap_or(NULL)')
    first = [x for v in vals.values() for x in v]
    run.ob('SEQ.fill-value', fn, 'one fill value on every path', ok, loc(first[0]) if first else fn.loc(),
           'fill expressions: %s' % sorted(vals))
