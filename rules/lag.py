"""The lag family (shift, vshift, vdiff, vpct_change): SEQ.len / ret-len / underflow / pos / causal."""
import lia
from lia import L
import seqrules
import seq as S
from facts import src, loc, walk, peel, callee_is

LAG = [('tea_map::MapBasic::shift', False), ('MapValidBasic::vshift', False),
       ('MapValidVec::vdiff', True), ('MapValidVec::vpct_change', True)]

RULES = dict(seqrules.RULES)
RULES['SEQ.fill-through'] = ('where the lagged operand does not exist the output is the fill '
                             'value itself: a fill fed through the element function must be a '
                             'null that the function propagates')


def check_lag(run, F, rules=('SEQ.len', 'SEQ.ret-len', 'SEQ.underflow', 'SEQ.pos', 'SEQ.causal',
                             'SEQ.fill-through')):
    for r in rules:
        run.rule(r, RULES[r])
    n = 0
    for name, diff in LAG:
        fn = F.one(name)
        ev = seqrules.run_eval(fn)
        sub = _Filter(run, rules)
        seqrules.check_len_sites(sub, fn, ev)
        seqrules.check_underflow(sub, fn, ev)
        seqrules.check_ret_len(sub, fn, ev, lambda W: L('len(self)'), 'input length')
        nsym = seqrules.param_sym(fn, 'n')
        n += seqrules.check_lag_positions(sub, fn, ev, nsym, diff=diff)
        if diff and 'SEQ.fill-through' in rules:
            fill_through(run, fn, ev)
    run.floor('SEQ.pos', 'lag-family pieces', n, 18)
    return n


class _Filter:
    """Forward only the selected rules to the run."""

    def __init__(self, run, rules):
        self.run, self.rules = run, set(rules)

    def ob(self, rule, *a, **kw):
        if rule in self.rules:
            return self.run.ob(rule, *a, **kw)
        return True


def fill_through(run, fn, ev):
    seen = set()
    for W, q, node in ev.returns:
        if q is None or q.unknown:
            continue
        for guards, el in q.pieces:
            if el[0] == 'map' and isinstance(el[2], tuple) and el[2][0] == 'pair':
                a = el[2][1]
                inner = a
                while inner[0] == 'map':
                    inner = inner[2]
                if inner[0] == 'fill':
                    fdesc = el[1]
                    fill = inner[1]
                    key = 'fill(%s) through %s' % (fill, fdesc[:50])
                    if key in seen:
                        continue
                    seen.add(key)
                    null_fill = fill.endswith('NAN') or fill.endswith('none()') or fill.endswith('None')
                    guarded = 'a.not_none()' in fdesc or 'a.is_none()' in fdesc
                    run.ob('SEQ.fill-through', fn, key, null_fill and guarded, loc(node),
                           'the first |n| outputs are f(fill, x[p]) with f = `%s`: %s'
                           % (fdesc[4:70], 'fill is a null literal and f tests it' if null_fill and guarded
                              else 'the fill value is combined with x[p] instead of being emitted '
                                   '(mirror arm emits the fill itself)'))
