"""PANIC - inventory of panic-capable constructs from MIR and reachability from total entry
points over the workspace-local call graph."""
import re

from facts import strip_generics

RULES = {
    'PANIC.entry': 'no panic-capable construct (arithmetic overflow / bounds / division assert, '
                   'unwrap / expect, panic!, str or slice indexing, a chrono function documented '
                   'to panic) is reachable from a total entry point, except sites individually '
                   'discharged by a recorded reason',
}

# std / chrono callees that can panic (suffix match on the generics-stripped path)
PANIC_CALLEES = {   # keyed by the last two path segments
    'Option::unwrap': 'Option::unwrap', 'Option::expect': 'Option::expect',
    'Result::unwrap': 'Result::unwrap', 'Result::expect': 'Result::expect',
    'Result::unwrap_err': 'Result::unwrap_err', 'Result::expect_err': 'Result::expect_err',
    'panicking::panic': 'panic!', 'panicking::panic_fmt': 'panic!',
    'panicking::panic_display': 'panic!', 'panicking::unreachable_display': 'unreachable!',
    'panicking::panic_explicit': 'panic!', 'rt::panic_fmt': 'panic!',
    'panicking::assert_failed': 'assert!', 'panicking::panic_nounwind': 'panic!',
    'panicking::panic_bounds_check': 'bounds check',
}
INDEX_CALLEES = ('core::ops::Index::index', 'core::ops::IndexMut::index_mut',
                 'std::ops::Index::index', 'std::ops::IndexMut::index_mut')
CHRONO_PANICS = {
    'chrono::TimeDelta::seconds': 'Duration::seconds panics out of bounds',
    'chrono::TimeDelta::minutes': 'Duration::minutes panics out of bounds',
    'chrono::TimeDelta::hours': 'Duration::hours panics out of bounds',
    'chrono::TimeDelta::days': 'Duration::days panics out of bounds',
    'chrono::TimeDelta::weeks': 'Duration::weeks panics out of bounds',
    'chrono::TimeDelta::milliseconds': 'Duration::milliseconds panics out of bounds',
    'chrono::Duration::seconds': 'Duration::seconds panics out of bounds',
}
CHRONO_OPS = ('std::ops::Add::add', 'std::ops::Sub::sub', 'core::ops::Add::add', 'core::ops::Sub::sub',
              'std::ops::Neg::neg', 'std::ops::Mul::mul', 'core::ops::Mul::mul', 'core::ops::Neg::neg')


def _suffix(c, s):
    return c == s or c.endswith('::' + s)


class PanicGraph:
    def __init__(self, F):
        self.F = F
        self.by_q = {}
        self.closures = {}
        for fn in F.fns:
            self.by_q.setdefault(fn.qpath, fn)
            if fn.kind == 'Closure':
                par = fn.d.get('parent')
                if par:
                    self.closures.setdefault(fn.crate + '::' + par, []).append(fn)
        self.local_traits = {strip_generics(fn.trait).split('::')[-1] for fn in F.fns
                             if fn.container == 'trait' and fn.trait}
        # trait method implementations: (trait last segment, method) -> [fns]
        self.impl_methods = {}
        for fn in F.fns:
            if fn.kind == 'AssocFn' and fn.impl_trait:
                t = strip_generics(fn.impl_trait).split('::')[-1]
                self.impl_methods.setdefault((t, fn.name), []).append(fn)

    # -- sites -----------------------------------------------------------
    def sites(self, fn):
        out = []
        mir = fn.mir
        if not mir:
            return out
        ltypes = {l['id']: l['ty'] for l in mir['locals']}
        for bi, b in enumerate(mir['blocks']):
            if b.get('cleanup'):
                continue
            t = b['term']
            k = t.get('k')
            sp = t.get('sp', '')
            where = ':'.join(sp.split(':')[:2])
            if k == 'Assert':
                kind = t['assert']
                ty = ''
                # operand type from the statements feeding it
                out.append({'kind': 'assert ' + kind, 'where': where, 'sp': sp, 'exp': t.get('exp', False),
                            'key': 'assert %s' % kind, 'ops': t.get('ops', []), 'ltypes': ltypes,
                            'auto': self._const_discharge(mir, kind, t.get('ops', [])) or
                            self._interval_discharge(mir, kind, t.get('ops', []), ltypes) or
                            self._guard_discharge(mir, bi, kind, t.get('ops', []))})
            elif k == 'Call':
                c = t.get('resolved') or t.get('callee')
                if not c:
                    continue
                cs = strip_generics(c)
                c0 = strip_generics(t.get('callee') or c)
                hit = None
                last2 = '::'.join(c0.split('::')[-2:])
                if last2 in PANIC_CALLEES:
                    hit = PANIC_CALLEES[last2]
                if 'chrono' in c0 and c0.split('::')[-1] in ('seconds', 'minutes', 'hours', 'days',
                                                             'weeks', 'milliseconds') and \
                        ('TimeDelta' in c0 or 'Duration' in c0):
                    hit = 'chrono: ' + c0.split('::')[-1] + ' (out of bounds)'
                cs = c0
                if any(_suffix(cs, x) for x in INDEX_CALLEES):
                    targs = t.get('targs', [])
                    hit = 'index %s' % (targs[0] if targs else '')
                if any(cs == x or _suffix(cs, x) for x in CHRONO_OPS):
                    targs = ' '.join(t.get('targs', []))
                    if 'chrono::' in targs and ('TimeDelta' in targs or 'DateTime' in targs or
                                                'Months' in targs or 'Duration' in targs):
                        hit = 'chrono operator %s on %s (overflow panics)' % (cs.split('::')[-1],
                                                                             t.get('targs', [''])[0])
                if hit:
                    out.append({'kind': hit, 'where': where, 'sp': sp, 'exp': t.get('exp', False),
                                'key': hit, 'csp': t.get('csp')})
        return out

    def _const(self, op):
        """integer value of a MIR constant operand (`const 1000_i64`, `const convert::X`)"""
        if not isinstance(op, str) or not op.startswith('const '):
            return None
        c = op[6:].strip()
        m = re.fullmatch(r'(-?\d+)_[iu](?:8|16|32|64|128|size)', c)
        if m:
            return int(m.group(1))
        if re.fullmatch(r'[\w:]+', c):
            return self.F.const_value(c)
        return None

    # documented range of chrono::DateTime<Utc> (DateTime::MIN_UTC / MAX_UTC) in seconds
    CHRONO_SECS = (-8_334_601_228_800, 8_210_266_876_799)
    CALL_RANGES = {'timestamp': CHRONO_SECS, 'timestamp_subsec_nanos': (0, 1_999_999_999),
                   'timestamp_subsec_micros': (0, 1_999_999), 'timestamp_subsec_millis': (0, 1_999)}
    TY_RANGE = {'i64': (-2 ** 63, 2 ** 63 - 1), 'i32': (-2 ** 31, 2 ** 31 - 1), 'u32': (0, 2 ** 32 - 1),
                'u64': (0, 2 ** 64 - 1), 'usize': (0, 2 ** 64 - 1), 'isize': (-2 ** 63, 2 ** 63 - 1)}

    def _interval(self, mir, op, depth=0):
        """(lo, hi) of an integer operand from its single definition, or None"""
        if depth > 8 or not isinstance(op, str):
            return None
        v = self._const(op)
        if v is not None:
            return (v, v)
        name = re.sub(r'^(move|copy) ', '', op)
        m = re.fullmatch(r'\((_\d+)\.(\d+): \w+\)', name)
        if m:
            # a component of a tuple built in place: the operand it was built from
            aggs = [st['rv'] for blk in mir['blocks'] for st in blk.get('stmts', [])
                    if st.get('lhs') == m.group(1) and 'rv' in st]
            if len(aggs) == 1 and aggs[0].get('k') == 'Aggregate' and aggs[0].get('ak') == 'Tuple' and \
                    int(m.group(2)) < len(aggs[0].get('ops', [])):
                return self._interval(mir, aggs[0]['ops'][int(m.group(2))], depth + 1)
            if m.group(2) != '0':
                return None
            name = m.group(1)       # value half of a checked-arithmetic pair
        defs = []
        for blk in mir['blocks']:
            for st in blk.get('stmts', []):
                if st.get('lhs') == name and 'rv' in st:
                    defs.append(('rv', st['rv']))
            t = blk['term']
            if t.get('k') == 'Call' and t.get('dest') == name:
                defs.append(('call', t))
        if len(defs) != 1:
            return None
        kind, d = defs[0]
        if kind == 'call':
            c = strip_generics(d.get('callee') or '')
            last = c.split('::')[-1]
            if 'chrono' in c and last in self.CALL_RANGES:
                return self.CALL_RANGES[last]
            if last in ('rem_euclid',) and len(d.get('args', [])) == 2:
                k_ = self._const(d['args'][1])
                return (0, abs(k_) - 1) if k_ else None
            return None
        k = d.get('k')
        if k == 'Use':
            return self._interval(mir, d.get('a'), depth + 1)
        if k == 'Cast' and d.get('ck') == 'IntToInt':
            iv = self._interval(mir, d.get('a'), depth + 1)
            r = self.TY_RANGE.get(d.get('ty'))
            return iv if iv and r and r[0] <= iv[0] and iv[1] <= r[1] else None
        if k == 'BinaryOp':
            a, b = self._interval(mir, d.get('a'), depth + 1), self._interval(mir, d.get('b'), depth + 1)
            op_ = d.get('op', '').replace('WithOverflow', '')
            if a is None or b is None:
                if op_ == 'Rem' and b is not None and b[0] == b[1] and b[0] != 0:
                    return (-abs(b[0]) + 1, abs(b[0]) - 1)
                return None
            if op_ == 'Add':
                return (a[0] + b[0], a[1] + b[1])
            if op_ == 'Sub':
                return (a[0] - b[1], a[1] - b[0])
            if op_ == 'Mul':
                ps = [x * y for x in a for y in b]
                return (min(ps), max(ps))
        return None

    def _interval_discharge(self, mir, kind, ops, ltypes):
        m = re.fullmatch(r'Overflow\((Add|Sub|Mul)\)', kind)
        if not m or len(ops) != 2:
            return None
        a, b = self._interval(mir, ops[0]), self._interval(mir, ops[1])
        if a is None or b is None:
            return None
        ty = None
        for o in ops:
            nm = re.sub(r'^(move|copy) ', '', o) if isinstance(o, str) else ''
            ty = ty or ltypes.get(nm) or ltypes.get(nm.lstrip('_')) or \
                (re.search(r'_(i64|i32|u32|u64|usize|isize)$', o or '') or [None, None])[1]
        r = self.TY_RANGE.get(ty or '')
        if r is None:
            return None
        if m.group(1) == 'Add':
            res = (a[0] + b[0], a[1] + b[1])
        elif m.group(1) == 'Sub':
            res = (a[0] - b[1], a[1] - b[0])
        else:
            ps = [x * y for x in a for y in b]
            res = (min(ps), max(ps))
        if r[0] <= res[0] and res[1] <= r[1]:
            return 'operands in [%d, %d] and [%d, %d]: the result fits %s' % (a[0], a[1], b[0], b[1], ty)
        return None

    # -- guards that dominate an assert ----------------------------------------------
    def _succ(self, blk):
        t = blk['term']
        out = list(t.get('targets') or [])
        return [x for x in out if isinstance(x, int)]

    def _dominators(self, mir):
        n = len(mir['blocks'])
        preds = {i: set() for i in range(n)}
        for i, b in enumerate(mir['blocks']):
            for j in self._succ(b):
                if 0 <= j < n:
                    preds[j].add(i)
        dom = {i: set(range(n)) for i in range(n)}
        dom[0] = {0}
        changed = True
        while changed:
            changed = False
            for i in range(1, n):
                ps = [dom[p] for p in preds[i]]
                new = ({i} | set.intersection(*ps)) if ps else {i}
                if new != dom[i]:
                    dom[i] = new
                    changed = True
        return dom, preds

    def _root(self, mir, op, blk_stmts=None, depth=0):
        """the local an operand is a plain copy of (within single-assignment temporaries)"""
        if not isinstance(op, str) or depth > 6:
            return None
        name = re.sub(r'^(move|copy) ', '', op)
        if not re.fullmatch(r'_\d+', name):
            return None
        defs = [st['rv'] for b in mir['blocks'] for st in b.get('stmts', []) if st.get('lhs') == name and 'rv' in st]
        calls = [b['term'] for b in mir['blocks'] if b['term'].get('k') == 'Call' and b['term'].get('dest') == name]
        if len(defs) == 1 and not calls and defs[0].get('k') == 'Use' and \
                re.match(r'^(move|copy) _\d+$', defs[0].get('a', '')):
            return self._root(mir, defs[0]['a'], None, depth + 1)
        return name

    def _assigned_in(self, mir, blocks, local):
        for i in blocks:
            b = mir['blocks'][i]
            for st in b.get('stmts', []):
                if st.get('lhs') == local:
                    return True
            if b['term'].get('k') == 'Call' and b['term'].get('dest') == local:
                return True
        return False

    def _upper_guard(self, mir, at_block, local):
        """the least constant B with a dominating test `local < B` whose true edge dominates
        `at_block` and after which `local` is not assigned before `at_block`"""
        dom, preds = self._dominators(mir)
        best = None
        for i in dom.get(at_block, ()):
            b = mir['blocks'][i]
            t = b['term']
            if t.get('k') != 'SwitchInt' or t.get('discr_ty') != 'bool' or len(t.get('targets', [])) != 2:
                continue
            d = re.sub(r'^(move|copy) ', '', t.get('discr', ''))
            rv = [st['rv'] for st in b.get('stmts', []) if st.get('lhs') == d and 'rv' in st]
            if len(rv) != 1 or rv[0].get('k') != 'BinaryOp' or rv[0].get('op') not in ('Lt', 'Le', 'Gt', 'Ge'):
                continue
            a_, b_, op = rv[0].get('a'), rv[0].get('b'), rv[0]['op']
            if op in ('Gt', 'Ge'):
                a_, b_, op = b_, a_, {'Gt': 'Lt', 'Ge': 'Le'}[op]
            bound = self._const(b_)
            if bound is None:
                # `k < X.len()` where the length is a constant known at the call
                bl = re.sub(r'^(move|copy) ', '', b_ or '')
                for bb in mir['blocks']:
                    tt = bb['term']
                    if tt.get('k') == 'Call' and tt.get('dest') == bl and (tt.get('callee') or '').endswith('::len') \
                            and len(tt.get('args', [])) == 1:
                        # the receiver is an array unsized to a slice: its length is in the type
                        cur = re.sub(r'^(move|copy) ', '', tt['args'][0])
                        for _ in range(4):
                            rvs = [st['rv'] for b2 in mir['blocks'] for st in b2.get('stmts', [])
                                   if st.get('lhs') == cur and 'rv' in st]
                            if len(rvs) != 1:
                                break
                            m_ = re.search(r'; (\d+)\]', rvs[0].get('from', '') or '')
                            if rvs[0].get('k') == 'Cast' and 'Unsize' in (rvs[0].get('ck') or '') and m_:
                                bound = int(m_.group(1))
                                break
                            if rvs[0].get('k') in ('Use', 'Cast') and re.match(r'^(move|copy) _\d+$', rvs[0].get('a', '')):
                                cur = re.sub(r'^(move|copy) ', '', rvs[0]['a'])
                                continue
                            break
            if bound is None or self._root(mir, a_) != local:
                continue
            if op == 'Le':
                bound += 1
            # values == ['0'] : targets[0] is the false edge, targets[1] the true edge
            true_t = t['targets'][1] if t.get('values') == ['0'] else None
            if true_t is None or true_t not in dom.get(at_block, ()):
                continue
            # blocks between the true edge and the assert: dominated by true_t and dominating-or-reaching at_block
            between = [j for j in range(len(mir['blocks'])) if true_t in dom.get(j, ()) and j in dom.get(at_block, ())]
            if self._assigned_in(mir, [j for j in between if j != at_block], local):
                continue
            best = bound if best is None else min(best, bound)
        return best

    def _guard_discharge(self, mir, bi, kind, ops):
        if kind == 'BoundsCheck' and len(ops) == 2:
            ln = self._const(ops[0])
            r = self._root(mir, ops[1])
            if ln is not None and r is not None:
                g = self._upper_guard(mir, bi, r)
                if g is not None and g <= ln:
                    return 'the index is below %d by a dominating test and the length is %d' % (g, ln)
        m = re.fullmatch(r'Overflow\(Add\)', kind)
        if m and len(ops) == 2:
            c = self._const(ops[1])
            r = self._root(mir, ops[0])
            if c is not None and r is not None and 0 <= c <= 2 ** 16:
                g = self._upper_guard(mir, bi, r)
                if g is not None and g + c < 2 ** 31:
                    return 'the operand is below %d by a dominating test' % g
        return None

    def _const_discharge(self, mir, kind, ops):
        """asserts that cannot fire because of the constants involved: division / remainder by
        a named or literal constant other than 0 (and other than -1 for the overflow case);
        a product of a Euclidean or truncating remainder by the constant K with a constant M
        where K * M fits the type"""
        if kind in ('DivisionByZero', 'RemainderByZero'):
            # the tested operand is `Eq(divisor, 0)`: look the divisor up in the block
            for b in mir['blocks']:
                t = b['term']
                if t.get('k') == 'Assert' and t.get('assert') == kind and t.get('ops') == ops:
                    for st in b.get('stmts', []):
                        rv = st.get('rv', {})
                        if rv.get('k') == 'BinaryOp' and rv.get('op') == 'Eq' and rv.get('b', '').startswith('const 0'):
                            v = self._const(rv.get('a'))
                            if v not in (None, 0):
                                return 'the divisor is the constant %s' % v
            return None
        if kind in ('Overflow(Div)', 'Overflow(Rem)') and len(ops) == 2:
            v = self._const(ops[1])
            if v not in (None, 0, -1):
                return 'the divisor is the constant %s (only MIN / -1 overflows)' % v
            return None
        if kind == 'Overflow(Mul)' and len(ops) == 2:
            for a, b in ((ops[0], ops[1]), (ops[1], ops[0])):
                m_ = self._const(b)
                loc_ = re.sub(r'^(move|copy) ', '', a) if isinstance(a, str) else None
                if m_ is None or loc_ is None:
                    continue
                for blk in mir['blocks']:
                    t = blk['term']
                    if t.get('k') == 'Call' and t.get('dest') == loc_ and \
                            (t.get('callee') or '').endswith('::rem_euclid') and len(t.get('args', [])) == 2:
                        k_ = self._const(t['args'][1])
                        if k_ and abs(k_ * m_) < 2 ** 31:
                            return 'a remainder below %d times the constant %d' % (abs(k_), m_)
                    for st in blk.get('stmts', []):
                        rv = st.get('rv', {})
                        if st.get('lhs') == loc_ and rv.get('k') == 'BinaryOp' and rv.get('op') == 'Rem':
                            k_ = self._const(rv.get('b'))
                            if k_ and abs(k_ * m_) < 2 ** 31:
                                return 'a remainder below %d times the constant %d' % (abs(k_), m_)
        return None

    # -- edges -----------------------------------------------------------
    def callees(self, fn):
        out = []
        mir = fn.mir
        if mir:
            for b in mir['blocks']:
                if b.get('cleanup'):
                    continue
                t = b['term']
                if t.get('k') != 'Call':
                    continue
                for c in (t.get('resolved'), t.get('callee')):
                    if not c:
                        continue
                    tgt = self.lookup(c, fn.crate)
                    if tgt is not None:
                        out.append(tgt)
                        break
                else:
                    # unresolved trait method: class hierarchy over local impls
                    c = t.get('callee')
                    if c:
                        cs = strip_generics(c)
                        segs = cs.split('::')
                        if len(segs) >= 2:
                            key = (segs[-2], segs[-1])
                            cands = self.impl_methods.get(key, []) if key[0] in self.local_traits else []
                            if key == ('FromStr', 'from_str') or (key[0] == 'str' and key[1] == 'parse'):
                                th = [strip_generics(a.split('<')[0]).split('::')[-1]
                                      for a in t.get('targs', [])]
                                cands = [f for f in self.impl_methods.get(('FromStr', 'from_str'), [])
                                         if strip_generics((f.impl_self or '').split('<')[0]).split('::')[-1] in th]
                            if key in (('Into', 'into'), ('From', 'from'), ('TryInto', 'try_into'),
                                       ('TryFrom', 'try_from')):
                                cands = self._conv_impls(t, key)
                            out.extend(cands)
        for cl in self.closures.get(fn.qpath, []):
            out.append(cl)
        return out

    def _conv_impls(self, t, key):
        targs = [strip_generics(a.split('<')[0]).split('::')[-1] for a in t.get('targs', [])]
        if len(targs) < 2:
            return []
        src_h, dst_h = targs[0], targs[1]
        if key[0] in ('From', 'TryFrom'):
            dst_h, src_h = targs[0], targs[1]
        res = []
        for name in (('From', 'from'), ('TryFrom', 'try_from')):
            for fn in self.impl_methods.get(name, []):
                self_h = strip_generics((fn.impl_self or '').split('<')[0]).split('::')[-1]
                ref = fn.d.get('impl_trait_ref', '')
                m = re.search(r' as .*?(From|TryFrom)<(.+)>>$', ref)
                from_h = strip_generics(m.group(2).split('<')[0]).split('::')[-1] if m else ''
                if self_h == dst_h and (from_h == src_h or src_h in ('T', 'U', 'Self')):
                    res.append(fn)
        return res

    def lookup(self, c, crate):
        cs = c
        for cand in (cs, crate + '::' + cs):
            if cand in self.by_q:
                return self.by_q[cand]
        # other workspace crates print with their crate name first
        if cs in self.by_q:
            return self.by_q[cs]
        # re-exported paths: match on the last two segments within workspace fns
        return None

    def reachable(self, entry):
        seen = {entry.qpath: entry}
        paths = {entry.qpath: [entry.name]}
        work = [entry]
        while work:
            f = work.pop()
            for g in self.callees(f):
                if g.qpath not in seen:
                    seen[g.qpath] = g
                    paths[g.qpath] = paths[f.qpath] + [g.name if g.kind != 'Closure' else '{closure}']
                    work.append(g)
        return seen, paths


def check_entry(run, G, entry, audited, prop_rule='PANIC.entry'):
    """audited: list of (fn name substr, site key substr, reason)."""
    seen, paths = G.reachable(entry)
    n = 0
    for q, fn in sorted(seen.items()):
        for s in G.sites(fn):
            n += 1
            reason = s.get('auto')
            for fsub, ksub, why in ([] if reason else audited):
                if fsub in q and ksub in s['key']:
                    reason = why
                    break
            key = '%s in %s' % (s['key'], fn.name if fn.kind != 'Closure' else q.split('::')[-2] + '::{closure}')
            run.ob(prop_rule, entry, key + ' @' + s['where'].split(':')[-1], reason is not None,
                   s['where'], ('discharged: ' + reason) if reason else
                   'reachable via %s' % ' -> '.join(paths[q]))
    return n, len(seen)
