"""PANIC - inventory of panic-capable constructs from MIR and reachability from total entry
points over the workspace-local call graph."""
import re

from facts import strip_generics

RULES = {
    'PANIC.entry': 'no panic-capable construct (arithmetic overflow / bounds / division assert, '
                   'unwrap / expect, panic!, str or slice indexing, a chrono function documented '
                   'to panic) is reachable from a total entry point, except sites individually '
                   'discharged by a recorded reason',
}

# std / chrono callees that can panic (suffix match on the generics-stripped path)
PANIC_CALLEES = {   # keyed by the last two path segments
    'Option::unwrap': 'Option::unwrap', 'Option::expect': 'Option::expect',
    'Result::unwrap': 'Result::unwrap', 'Result::expect': 'Result::expect',
    'Result::unwrap_err': 'Result::unwrap_err', 'Result::expect_err': 'Result::expect_err',
    'panicking::panic': 'panic!', 'panicking::panic_fmt': 'panic!',
    'panicking::panic_display': 'panic!', 'panicking::unreachable_display': 'unreachable!',
    'panicking::panic_explicit': 'panic!', 'rt::panic_fmt': 'panic!',
    'panicking::assert_failed': 'assert!', 'panicking::panic_nounwind': 'panic!',
    'panicking::panic_bounds_check': 'bounds check',
}
INDEX_CALLEES = ('core::ops::Index::index', 'core::ops::IndexMut::index_mut',
                 'std::ops::Index::index', 'std::ops::IndexMut::index_mut')
CHRONO_PANICS = {
    'chrono::TimeDelta::seconds': 'Duration::seconds panics out of bounds',
    'chrono::TimeDelta::minutes': 'Duration::minutes panics out of bounds',
    'chrono::TimeDelta::hours': 'Duration::hours panics out of bounds',
    'chrono::TimeDelta::days': 'Duration::days panics out of bounds',
    'chrono::TimeDelta::weeks': 'Duration::weeks panics out of bounds',
    'chrono::TimeDelta::milliseconds': 'Duration::milliseconds panics out of bounds',
    'chrono::Duration::seconds': 'Duration::seconds panics out of bounds',
}
CHRONO_OPS = ('std::ops::Add::add', 'std::ops::Sub::sub', 'core::ops::Add::add', 'core::ops::Sub::sub',
              'std::ops::Neg::neg', 'std::ops::Mul::mul', 'core::ops::Mul::mul', 'core::ops::Neg::neg')


def _suffix(c, s):
    return c == s or c.endswith('::' + s)


class PanicGraph:
    def __init__(self, F):
        self.F = F
        self.by_q = {}
        self.closures = {}
        for fn in F.fns:
            self.by_q.setdefault(fn.qpath, fn)
            if fn.kind == 'Closure':
                par = fn.d.get('parent')
                if par:
                    self.closures.setdefault(fn.crate + '::' + par, []).append(fn)
        self.local_traits = {strip_generics(fn.trait).split('::')[-1] for fn in F.fns
                             if fn.container == 'trait' and fn.trait}
        # trait method implementations: (trait last segment, method) -> [fns]
        self.impl_methods = {}
        for fn in F.fns:
            if fn.kind == 'AssocFn' and fn.impl_trait:
                t = strip_generics(fn.impl_trait).split('::')[-1]
                self.impl_methods.setdefault((t, fn.name), []).append(fn)

    # -- sites -----------------------------------------------------------
    def sites(self, fn):
        out = []
        mir = fn.mir
        if not mir:
            return out
        ltypes = {l['id']: l['ty'] for l in mir['locals']}
        for bi, b in enumerate(mir['blocks']):
            if b.get('cleanup'):
                continue
            t = b['term']
            k = t.get('k')
            sp = t.get('sp', '')
            where = ':'.join(sp.split(':')[:2])
            if k == 'Assert':
                kind = t['assert']
                ty = ''
                # operand type from the statements feeding it
                out.append({'kind': 'assert ' + kind, 'where': where, 'sp': sp, 'exp': t.get('exp', False),
                            'key': 'assert %s' % kind, 'ops': t.get('ops', []), 'ltypes': ltypes})
            elif k == 'Call':
                c = t.get('resolved') or t.get('callee')
                if not c:
                    continue
                cs = strip_generics(c)
                c0 = strip_generics(t.get('callee') or c)
                hit = None
                last2 = '::'.join(c0.split('::')[-2:])
                if last2 in PANIC_CALLEES:
                    hit = PANIC_CALLEES[last2]
                if 'chrono' in c0 and c0.split('::')[-1] in ('seconds', 'minutes', 'hours', 'days',
                                                             'weeks', 'milliseconds') and \
                        ('TimeDelta' in c0 or 'Duration' in c0):
                    hit = 'chrono: ' + c0.split('::')[-1] + ' (out of bounds)'
                cs = c0
                if any(_suffix(cs, x) for x in INDEX_CALLEES):
                    targs = t.get('targs', [])
                    hit = 'index %s' % (targs[0] if targs else '')
                if any(cs == x or _suffix(cs, x) for x in CHRONO_OPS):
                    targs = ' '.join(t.get('targs', []))
                    if 'chrono::' in targs and ('TimeDelta' in targs or 'DateTime' in targs or
                                                'Months' in targs or 'Duration' in targs):
                        hit = 'chrono operator %s on %s (overflow panics)' % (cs.split('::')[-1],
                                                                             t.get('targs', [''])[0])
                if hit:
                    out.append({'kind': hit, 'where': where, 'sp': sp, 'exp': t.get('exp', False),
                                'key': hit, 'csp': t.get('csp')})
        return out

    # -- edges -----------------------------------------------------------
    def callees(self, fn):
        out = []
        mir = fn.mir
        if mir:
            for b in mir['blocks']:
                if b.get('cleanup'):
                    continue
                t = b['term']
                if t.get('k') != 'Call':
                    continue
                for c in (t.get('resolved'), t.get('callee')):
                    if not c:
                        continue
                    tgt = self.lookup(c, fn.crate)
                    if tgt is not None:
                        out.append(tgt)
                        break
                else:
                    # unresolved trait method: class hierarchy over local impls
                    c = t.get('callee')
                    if c:
                        cs = strip_generics(c)
                        segs = cs.split('::')
                        if len(segs) >= 2:
                            key = (segs[-2], segs[-1])
                            cands = self.impl_methods.get(key, []) if key[0] in self.local_traits else []
                            if key == ('FromStr', 'from_str') or (key[0] == 'str' and key[1] == 'parse'):
                                th = [strip_generics(a.split('<')[0]).split('::')[-1]
                                      for a in t.get('targs', [])]
                                cands = [f for f in self.impl_methods.get(('FromStr', 'from_str'), [])
                                         if strip_generics((f.impl_self or '').split('<')[0]).split('::')[-1] in th]
                            if key in (('Into', 'into'), ('From', 'from'), ('TryInto', 'try_into'),
                                       ('TryFrom', 'try_from')):
                                cands = self._conv_impls(t, key)
                            out.extend(cands)
        for cl in self.closures.get(fn.qpath, []):
            out.append(cl)
        return out

    def _conv_impls(self, t, key):
        targs = [strip_generics(a.split('<')[0]).split('::')[-1] for a in t.get('targs', [])]
        if len(targs) < 2:
            return []
        src_h, dst_h = targs[0], targs[1]
        if key[0] in ('From', 'TryFrom'):
            dst_h, src_h = targs[0], targs[1]
        res = []
        for name in (('From', 'from'), ('TryFrom', 'try_from')):
            for fn in self.impl_methods.get(name, []):
                self_h = strip_generics((fn.impl_self or '').split('<')[0]).split('::')[-1]
                ref = fn.d.get('impl_trait_ref', '')
                m = re.search(r' as .*?(From|TryFrom)<(.+)>>$', ref)
                from_h = strip_generics(m.group(2).split('<')[0]).split('::')[-1] if m else ''
                if self_h == dst_h and (from_h == src_h or src_h in ('T', 'U', 'Self')):
                    res.append(fn)
        return res

    def lookup(self, c, crate):
        cs = c
        for cand in (cs, crate + '::' + cs):
            if cand in self.by_q:
                return self.by_q[cand]
        # other workspace crates print with their crate name first
        if cs in self.by_q:
            return self.by_q[cs]
        # re-exported paths: match on the last two segments within workspace fns
        return None

    def reachable(self, entry):
        seen = {entry.qpath: entry}
        paths = {entry.qpath: [entry.name]}
        work = [entry]
        while work:
            f = work.pop()
            for g in self.callees(f):
                if g.qpath not in seen:
                    seen[g.qpath] = g
                    paths[g.qpath] = paths[f.qpath] + [g.name if g.kind != 'Closure' else '{closure}']
                    work.append(g)
        return seen, paths


def check_entry(run, G, entry, audited, prop_rule='PANIC.entry'):
    """audited: list of (fn name substr, site key substr, reason)."""
    seen, paths = G.reachable(entry)
    n = 0
    for q, fn in sorted(seen.items()):
        for s in G.sites(fn):
            n += 1
            reason = None
            for fsub, ksub, why in audited:
                if fsub in q and ksub in s['key']:
                    reason = why
                    break
            key = '%s in %s' % (s['key'], fn.name if fn.kind != 'Closure' else q.split('::')[-2] + '::{closure}')
            run.ob(prop_rule, entry, key + ' @' + s['where'].split(':')[-1], reason is not None,
                   s['where'], ('discharged: ' + reason) if reason else
                   'reachable via %s' % ' -> '.join(paths[q]))
    return n, len(seen)
