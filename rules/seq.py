"""SEQ - symbolic sequence algebra for iterator pipelines.

An iterator expression is abstracted to a *position function*: a symbolic length (a
linear form over length symbols) and a list of pieces `(guard facts on p, element)` saying
which element is produced at output position `p`.  min / saturating-sub / comparisons are
resolved by splitting the *world* (a set of linear facts); in every world all lengths are
linear.  Nothing is executed: transfer functions are keyed by the resolved callee of each
adaptor, and the obligations (declared length == pipeline length, element at position p,
source index <= p) are discharged by Fourier-Motzkin (lia.py).
"""
from fractions import Fraction

import lia
from lia import L, add, sub, scale, feasible
from facts import (walk, children, callee_is, callee, is_local, peel, src, loc, strip_generics,
                   _pat_binds, try_operand)

P = 'p'


class _NoEl(Exception):
    pass


class Seq:
    def __init__(self, length, pieces, inf=False, unknown=None, trusted=True):
        self.len = length          # linear form (ignored when inf)
        self.pieces = pieces       # [(facts, elem)]
        self.inf = inf
        self.unknown = unknown     # reason string if the abstraction lost track
        self.filtered = False

    def copy(self):
        s = Seq(dict(self.len), list(self.pieces), self.inf, self.unknown)
        s.filtered = self.filtered
        return s


def subst_p(form, repl):
    """Replace p in a linear form by the linear form repl."""
    c = form.get(P, 0)
    if c == 0:
        return dict(form)
    r = {k: v for k, v in form.items() if k != P}
    return add(r, scale(repl, c))


def subst_elem(el, repl):
    k = el[0]
    if k == 'src':
        return ('src', el[1], subst_p(el[2], repl))
    if k == 'idx':
        return ('idx', subst_p(el[1], repl))
    if k == 'pair':
        return ('pair', subst_elem(el[1], repl), subst_elem(el[2], repl))
    if k in ('map', 'some', 'call', 'slice'):
        return (k,) + tuple(subst_elem(x, repl) if isinstance(x, tuple) else x for x in el[1:])
    return el


def subst_facts(fs, repl):
    return [subst_p(f, repl) for f in fs]


def show_elem(el):
    k = el[0]
    if k == 'fill':
        return 'fill(%s)' % el[1]
    if k == 'src':
        return '%s[%s]' % (el[1], lia.show(el[2]))
    if k == 'idx':
        return 'idx(%s)' % lia.show(el[1])
    if k == 'pair':
        return '(%s, %s)' % (show_elem(el[1]), show_elem(el[2]))
    if k == 'map':
        return '%s(%s)' % (el[1], show_elem(el[2]))
    if k == 'some':
        return 'Some(%s)' % show_elem(el[1])
    if k == 'call':
        return '%s(%s)' % (el[1], ', '.join(show_elem(x) for x in el[2:]))
    if k == 'slice':
        return '%s[%s..%s]' % (el[1], show_elem(el[2]), show_elem(el[3]))
    return str(el)


def elem_sources(el):
    """(base, index form) for every source read inside an element."""
    k = el[0]
    if k == 'src':
        return [(el[1], el[2])]
    out = []
    for x in el[1:]:
        if isinstance(x, tuple) and x and isinstance(x[0], str):
            out.extend(elem_sources(x))
    return out


class World:
    def __init__(self, facts=None, ints=None, seqs=None, notes=None):
        self.facts = list(facts or [])
        self.ints = dict(ints or {})     # local id -> linear form
        self.opts = {}                   # local id -> linear form of the payload of an Option<usize>
        self.seqs = dict(seqs or {})     # local id -> Seq
        self.notes = list(notes or [])
        self.bools = {}

    def fork(self, extra=()):
        w = World(self.facts + list(extra), self.ints, self.seqs, self.notes)
        w.bools = dict(self.bools)
        w.opts = dict(self.opts)
        return w

    def ok(self):
        return feasible(self.facts)


class Obligation:
    def __init__(self, kind, node, world, seq, declared, fnname):
        self.kind, self.node, self.world, self.seq, self.declared = kind, node, world, seq, declared


class Evaluator:
    """Evaluates integer and iterator expressions of one function body."""

    def __init__(self, fn, len_of_self='len'):
        self.fn = fn
        self.obligations = []     # (kind, node, world, seq, declared_form)
        self.fresh = 0
        self.len_syms = set()
        self.returns = []         # (world, value(Seq|None), node)
        self.zips = []            # (node, world, la, lb, a_inf, b_inf)
        self.underflows = []      # (node, world, a, b): worlds in which `a - b` underflows
        self.accesses = []        # (kind, node, world, [forms], recv_src, loop_ctx)
        self.loops = []           # (node, world_before, var_forms, lo, hi, kind)
        self.loop_stack = []
        self.ret_worlds = []      # worlds at `return;` (unit returns)

    def sym(self, base):
        self.fresh += 1
        s = '%s~%d' % (base, self.fresh)
        return s

    def nonneg(self, s):
        self.len_syms.add(s)
        return L({s: 1})

    # ------------------------------------------------------------ integers
    def ev_int(self, e, W):
        """yield (world, linear form) for a usize/i32 expression, or (world, None)."""
        e = peel(e)
        k = e.get('k')
        if k == 'Lit':
            try:
                yield W, L(int(e['v']))
            except ValueError:
                yield W, None
            return
        if k == 'Path' and e.get('res') == 'local':
            if e['local'] in W.ints:
                yield W, W.ints[e['local']]
            else:
                s = '%s#%d' % (e['name'], e['local'])
                if e.get('ty') == 'usize':
                    if not any(f == L({s: 1}) for f in W.facts):
                        W = W.fork([L({s: 1})])
                yield W, L(s)
            return
        if k == 'Cast':
            yield from self.ev_int(e['ch'][0], W)
            return
        if k == 'MethodCall':
            m = e['method']
            if callee_is(e, 'GetLen::len', 'Vec1View::len', 'ExactSizeIterator::len',
                         'TrustedLen::len', 'Vec::len', 'slice::len', '[T]::len', 'VecDeque::len') \
                    or (m == 'len' and len(e['ch']) == 1):
                recv = peel(e['ch'][0])
                if recv.get('res') == 'local' and recv['local'] in W.seqs:
                    s = W.seqs[recv['local']]
                    yield W, (dict(s.len) if not s.inf and not s.unknown else None)
                    return
                s = 'len(%s)' % src(recv)
                W2 = W.fork([L({s: 1})]) if not any(f == L({s: 1}) for f in W.facts) else W
                yield W2, L(s)
                return
            if callee_is(e, 'Ord::min') and len(e['ch']) == 2:
                for W1, a in self.ev_int(e['ch'][0], W):
                    for W2, b in self.ev_int(e['ch'][1], W1):
                        if a is None or b is None:
                            yield W2, None
                            continue
                        wa = W2.fork([sub(b, a)])
                        if wa.ok():
                            yield wa, a
                        wb = W2.fork([add(sub(a, b), L(-1))])
                        if wb.ok():
                            yield wb, b
                return
            if callee_is(e, 'Ord::max') and len(e['ch']) == 2:
                for W1, a in self.ev_int(e['ch'][0], W):
                    for W2, b in self.ev_int(e['ch'][1], W1):
                        if a is None or b is None:
                            yield W2, None
                            continue
                        wa = W2.fork([sub(a, b)])
                        if wa.ok():
                            yield wa, a
                        wb = W2.fork([add(sub(b, a), L(-1))])
                        if wb.ok():
                            yield wb, b
                return
            if m in ('unwrap', 'unwrap_or', 'expect') and peel(e['ch'][0]).get('res') == 'local' and \
                    peel(e['ch'][0])['local'] in W.opts:
                form = W.opts[peel(e['ch'][0])['local']]
                if m != 'unwrap_or':
                    yield W, form
                    return
                for W1, d in self.ev_int(e['ch'][1], W):
                    if d is None:
                        yield W1, None
                        continue
                    u = self.sym('unwrap_or')
                    # u is either the payload or the default
                    w1 = W1.fork([sub(L(u), form), sub(form, L(u))])
                    if w1.ok():
                        yield w1, L(u)
                    w2 = W1.fork([sub(L(u), d), sub(d, L(u))])
                    if w2.ok():
                        yield w2, L(u)
                return
            if m == 'unsigned_abs' and len(e['ch']) == 1:
                for W1, a in self.ev_int(e['ch'][0], W):
                    if a is None:
                        yield W1, None
                        continue
                    w1 = W1.fork([a])
                    if w1.ok():
                        yield w1, a
                    w2 = W1.fork([add(scale(a, -1), L(-1))])
                    if w2.ok():
                        yield w2, scale(a, -1)
                return
            if callee_is(e, 'TIterator::count_valid', 'AggValidBasic::count_valid') or m == 'count_valid':
                recv = peel(e['ch'][0])
                for W1, s in self.ev_seq(recv, W):
                    if s is None or s.inf or s.unknown:
                        yield W1, None
                        continue
                    c = 'valid(%s)' % self._seq_key(s)
                    w = W1.fork([L({c: 1}), sub(s.len, L(c))])
                    yield w, L(c)
                return
            yield W, None
            return
        if k == 'Call' and callee_is(e, 'cmp::min', 'cmp::max') and len(e['ch']) == 3:
            is_min = callee_is(e, 'cmp::min')
            for W1, a in self.ev_int(e['ch'][1], W):
                for W2, b in self.ev_int(e['ch'][2], W1):
                    if a is None or b is None:
                        yield W2, None
                        continue
                    lo, hi = (a, b)
                    wa = W2.fork([sub(b, a)])          # a <= b
                    if wa.ok():
                        yield wa, (a if is_min else b)
                    wb = W2.fork([add(sub(a, b), L(-1))])
                    if wb.ok():
                        yield wb, (b if is_min else a)
            return
        if k == 'If' and len(e['ch']) == 3:
            # `if a > b { b } else { a }`: one world per branch
            for wt, wf in self.cond_worlds(e['ch'][0], W):
                if wt is not None:
                    yield from self.ev_int(e['ch'][1], wt)
                if wf is not None:
                    yield from self.ev_int(e['ch'][2], wf)
            return
        if k == 'Block' and not e.get('stmts') and 'expr' in e:
            yield from self.ev_int(e['expr'], W)
            return
        if k == 'Binary' and e['op'] in ('Add', 'Sub'):
            for W1, a in self.ev_int(e['ch'][0], W):
                for W2, b in self.ev_int(e['ch'][1], W1):
                    if a is None or b is None:
                        yield W2, None
                    elif e['op'] == 'Add':
                        yield W2, add(a, b)
                    else:
                        # unsigned subtraction: value is a - b when a >= b; a < b panics in
                        # debug (GATE.sub's subject).  Here: the world where it does not panic,
                        # and the wrap-around world is reported as 'underflow'.
                        d = sub(a, b)
                        if e.get('ty') == 'usize':
                            wok = W2.fork([d])
                            if wok.ok():
                                yield wok, d
                            wbad = W2.fork([add(scale(d, -1), L(-1))])
                            if wbad.ok():
                                # debug profile: this world panics; it is recorded as its own
                                # obligation and produces no iterator
                                self.underflows.append((e, wbad, a, b))
                        else:
                            yield W2, d
            return
        if k == 'Binary' and e['op'] == 'Mul':
            for W1, a in self.ev_int(e['ch'][0], W):
                for W2, b in self.ev_int(e['ch'][1], W1):
                    if a is not None and b is not None and all(x == 1 for x in a):
                        yield W2, scale(b, a.get(1, 0))
                    elif a is not None and b is not None and all(x == 1 for x in b):
                        yield W2, scale(a, b.get(1, 0))
                    else:
                        yield W2, None
            return
        yield W, None

    def _seq_key(self, s):
        return ';'.join(show_elem(el) for _, el in s.pieces)[:80] or 'empty'

    # ------------------------------------------------------------ conditions
    def cond_worlds(self, c, W):
        """yield (world_true_or_None, world_false_or_None) splits for a boolean condition."""
        c = peel(c)
        k = c.get('k')
        if k == 'Binary' and c['op'] in ('Lt', 'Le', 'Gt', 'Ge', 'Eq', 'Ne'):
            for W1, a in self.ev_int(c['ch'][0], W):
                for W2, b in self.ev_int(c['ch'][1], W1):
                    if a is None or b is None:
                        yield W2.fork(), W2.fork()
                        continue
                    op = c['op']
                    d = sub(a, b)     # a - b
                    if op == 'Lt':
                        t, f = [add(scale(d, -1), L(-1))], [d]
                    elif op == 'Le':
                        t, f = [scale(d, -1)], [add(d, L(-1))]
                    elif op == 'Gt':
                        t, f = [add(d, L(-1))], [scale(d, -1)]
                    elif op == 'Ge':
                        t, f = [d], [add(scale(d, -1), L(-1))]
                    elif op == 'Eq':
                        wt = W2.fork([d, scale(d, -1)])
                        yield (wt if wt.ok() else None), None
                        for f in ([add(d, L(-1))], [add(scale(d, -1), L(-1))]):
                            wf = W2.fork(f)
                            if wf.ok():
                                yield None, wf
                        continue
                    else:  # Ne
                        wf = W2.fork([d, scale(d, -1)])
                        yield None, (wf if wf.ok() else None)
                        for t in ([add(d, L(-1))], [add(scale(d, -1), L(-1))]):
                            wt = W2.fork(t)
                            if wt.ok():
                                yield wt, None
                        continue
                    wt, wf = W2.fork(t), W2.fork(f)
                    yield (wt if wt.ok() else None), (wf if wf.ok() else None)
            return
        if k == 'Binary' and c['op'] in ('And', 'BitAnd'):
            for t1, f1 in self.cond_worlds(c['ch'][0], W):
                if f1 is not None:
                    yield None, f1
                if t1 is not None:
                    for t2, f2 in self.cond_worlds(c['ch'][1], t1):
                        yield t2, f2
            return
        if k == 'Unary' and c['op'] == 'Not':
            for t, f in self.cond_worlds(c['ch'][0], W):
                yield f, t
            return
        if k == 'LetExpr':
            init = peel(c['ch'][0])
            pat = c['pat']
            if init.get('res') == 'local' and init['local'] in W.opts and \
                    pat.get('k') == 'TupleStruct' and pat['ch'] and pat['ch'][0].get('k') == 'Binding':
                wt = W.fork()
                wt.ints[pat['ch'][0]['local']] = W.opts[init['local']]
                yield wt, W.fork()
                return
            yield W.fork(), W.fork()
            return
        if k == 'MethodCall' and c['method'] in ('is_some', 'is_none') and \
                peel(c['ch'][0]).get('res') == 'local' and peel(c['ch'][0])['local'] in W.opts:
            yield W.fork(), W.fork()
            return
        if k == 'Path' and c.get('res') == 'local':
            # boolean parameter: remember the choice for consistency
            key = c['local']
            if key in W.bools:
                if W.bools[key]:
                    yield W, None
                else:
                    yield None, W
                return
            wt, wf = W.fork(), W.fork()
            wt.bools[key] = True
            wf.bools[key] = False
            yield wt, wf
            return
        yield W.fork(), W.fork()

    # ------------------------------------------------------------ sequences
    def unknown(self, e, why):
        s = self.sym('unknown')
        q = Seq(L({s: 1}), [([], ('opaque', src(e)[:60]))], unknown='%s: %s' % (why, src(e)[:80]))
        return q

    def ev_seq(self, e, W):
        """yield (world, Seq) for an iterator-valued expression."""
        e = peel(e)
        k = e.get('k')
        if k == 'Path' and e.get('res') == 'local':
            if e['local'] in W.seqs:
                yield W, W.seqs[e['local']].copy()
                return
            # an opaque iterator / container parameter (e.g. `self` of an iterator trait)
            nm = e['name']
            s = 'len(%s)' % nm
            W2 = W.fork([L({s: 1})]) if not any(f == L({s: 1}) for f in W.facts) else W
            yield W2, Seq(L(s), [([], ('src', nm, L(P)))])
            return
        if k == 'Block' and 'expr' in e:
            # straight-line block: bind lets then the tail
            yield from self.ev_block_seq(e, W)
            return
        if k == 'Call':
            if callee_is(e, 'iter::repeat_n', 'sources::repeat_n::repeat_n'):
                v = src(e['ch'][1])
                if not hasattr(self, 'fill_nodes'):
                    self.fill_nodes = {}
                self.fill_nodes.setdefault(v, []).append(e['ch'][1])
                for W1, n in self.ev_int(e['ch'][2], W):
                    if n is None:
                        yield W1, self.unknown(e, 'repeat_n count not linear')
                    else:
                        yield W1, Seq(n, [([], ('fill', v))])
                return
            if callee_is(e, 'iter::repeat', 'sources::repeat::repeat'):
                yield W, Seq({}, [([], ('fill', src(e['ch'][1])))], inf=True)
                return
            if callee_is(e, 'iter::once', 'sources::once::once'):
                yield W, Seq(L(1), [([], ('fill', src(e['ch'][1])))])
                return
            if callee_is(e, 'iter::empty', 'sources::empty::empty'):
                yield W, Seq({}, [])
                return
            if e.get('callee_res', '').startswith('Ctor') and len(e['ch']) == 2 and \
                    strip_generics(e.get('callee', '')).endswith('Some'):
                yield from self.ev_seq(e['ch'][1], W)
                return
            if callee_is(e, 'Box::new', 'boxed::Box::new') and len(e['ch']) == 2:
                yield from self.ev_seq(e['ch'][1], W)
                return
            if callee_is(e, 'TrustIter::new') and len(e['ch']) == 3:
                yield from self._trust(e, e['ch'][1], e['ch'][2], W, 'TrustIter::new')
                return
            if callee_is(e, 'IntoIterator::into_iter') and len(e['ch']) == 2:
                yield from self.ev_seq(e['ch'][1], W)
                return
            if callee_is(e, 'Vec1Create::range') and len(e['ch']) == 4:
                # range(None, m, None) -> 0..m
                a, b, c = (peel(x) for x in e['ch'][1:])
                if src(a).endswith('None') and src(c).endswith('None'):
                    for W1, m in self.ev_int(b, W):
                        if m is not None:
                            w = W1.fork([m])
                            yield w, Seq(m, [([], ('idx', L(P)))])
                        else:
                            yield W1, self.unknown(e, 'range bound not linear')
                    return
            yield W, self.unknown(e, 'unknown source')
            return
        if k == 'Range':
            for W1, a in self.ev_int(e['ch'][0], W):
                for W2, b in self.ev_int(e['ch'][1], W1):
                    if a is None or b is None:
                        yield W2, self.unknown(e, 'range bounds not linear')
                        continue
                    if e['incl']:
                        b = add(b, L(1))
                    d = sub(b, a)
                    w1 = W2.fork([d])
                    if w1.ok():
                        yield w1, Seq(d, [([], ('idx', add(a, L(P))))])
                    w2 = W2.fork([add(scale(d, -1), L(-1))])
                    if w2.ok():
                        yield w2, Seq({}, [])
            return
        if k == 'MethodCall':
            yield from self.ev_method(e, W)
            return
        yield W, self.unknown(e, 'unknown iterator expression')

    def ev_block_seq(self, blk, W):
        worlds = [W]
        for s in blk.get('stmts', []):
            nxt = []
            for w in worlds:
                nxt.extend(self.exec_stmt(s, w))
            worlds = nxt
        for w in worlds:
            yield from self.ev_seq(blk['expr'], w)

    def _trust(self, node, inner, len_e, W, how):
        for W1, s in self.ev_seq(inner, W):
            for W2, d in self.ev_int(len_e, W1):
                self.obligations.append(('SEQ.len', node, W2, s, d, how))
                t = s.copy()
                if d is not None and not s.unknown:
                    # downstream consumers see the *declared* length
                    t.declared = d
                yield W2, t

    def ev_method(self, e, W):
        m = e['method']
        ch = e['ch']
        recv = ch[0]
        # sources
        if callee_is(e, 'TIter::titer', 'slice::iter', 'Vec::iter', '[T]::iter', 'VecDeque::iter',
                     'ArrayBase::iter') or (m in ('titer', 'iter') and len(ch) == 1):
            r = peel(recv)
            if r.get('res') == 'local' and r['local'] in W.seqs:
                yield W, W.seqs[r['local']].copy()
                return
            nm = src(r)
            s = 'len(%s)' % nm
            W2 = W.fork([L({s: 1})]) if not any(f == L({s: 1}) for f in W.facts) else W
            yield W2, Seq(L(s), [([], ('src', nm, L(P)))])
            return
        if m == 'into_iter' and len(ch) == 1:
            yield from self.ev_seq(recv, W)
            return
        if m in ('unwrap', 'expect') and peel(recv).get('k') == 'MethodCall' and \
                peel(recv)['method'] in ('try_as_slice_mut', 'try_as_slice'):
            yield from self.ev_seq(peel(recv)['ch'][0], W)
            return
        if m in ('as_slice', 'as_mut_slice', 'as_mut', 'as_ref') and len(ch) == 1 and \
                peel(recv).get('res') == 'local' and peel(recv)['local'] in W.seqs:
            yield from self.ev_seq(recv, W)
            return
        if callee_is(e, 'ToTrustIter::to_trust') and len(ch) == 2:
            yield from self._trust(e, recv, ch[1], W, 'to_trust')
            return
        if m == 'trust_my_length' and len(ch) == 2:
            yield from self._trust(e, recv, ch[1], W, 'trust_my_length')
            return
        # element-wise adaptors
        if m in ('map', 'cloned', 'copied') and callee_is(e, 'Iterator::map', 'TIterator::map',
                                                        'Iterator::cloned', 'Iterator::copied',
                                                        'TIter::map') or \
                callee_is(e, 'Vec1View::iter_cast', 'Vec1View::opt_iter_cast', 'Vec1View::to_opt_iter',
                          'MapBasic::abs', 'MapValidBasic::vabs', 'MapValidBasic::vclip',
                          'MapValidBasic::fill', 'MapValidBasic::fill_mask'):
            fdesc = m
            if m == 'map' and len(ch) == 2:
                c = peel(ch[1])
                fdesc = 'map:' + (src(c)[:60])
                if not hasattr(self, 'map_closures'):
                    self.map_closures = {}
                self.map_closures[fdesc] = c
                if c.get('k') == 'Path' and src(c).endswith('Some'):
                    fdesc = 'Some'
            if m in ('iter_cast', 'opt_iter_cast', 'to_opt_iter'):
                # on a view: titer().map(..)
                r = peel(recv)
                nm = src(r)
                s = 'len(%s)' % nm
                W2 = W.fork([L({s: 1})]) if not any(f == L({s: 1}) for f in W.facts) else W
                yield W2, Seq(L(s), [([], ('map', m, ('src', nm, L(P))))])
                return
            for W1, s in self.ev_seq(recv, W):
                t = s.copy()
                applied = self._apply_map(peel(ch[1]), s, W1) if m == 'map' and len(ch) == 2 else None
                if applied is not None:
                    t.pieces = applied
                    yield W1, t
                    continue
                if fdesc == 'Some':
                    t.pieces = [(f, ('some', el)) for f, el in s.pieces]
                elif m in ('cloned', 'copied'):
                    pass
                else:
                    t.pieces = [(f, ('map', fdesc, el)) for f, el in s.pieces]
                yield W1, t
            return
        if callee_is(e, 'Iterator::chain') and len(ch) == 2:
            for W1, a in self.ev_seq(recv, W):
                for W2, b in self.ev_seq(ch[1], W1):
                    if a.inf:
                        yield W2, a
                        continue
                    pieces = [(f + [add(sub(a.len, L(P)), L(-1))], el) for f, el in a.pieces]
                    shift = sub(L(P), a.len)
                    for f, el in b.pieces:
                        pieces.append((subst_facts(f, shift) + [sub(L(P), a.len)],
                                       subst_elem(el, shift)))
                    s = Seq(add(a.len, b.len), pieces, inf=b.inf,
                            unknown=a.unknown or b.unknown)
                    yield W2, s
            return
        if callee_is(e, 'Iterator::take') and len(ch) == 2:
            for W1, a in self.ev_seq(recv, W):
                for W2, kk in self.ev_int(ch[1], W1):
                    if kk is None:
                        yield W2, self.unknown(e, 'take count not linear')
                        continue
                    if a.inf:
                        yield W2, Seq(kk, [(f + [add(sub(kk, L(P)), L(-1))], el) for f, el in a.pieces],
                                      unknown=a.unknown)
                        continue
                    d = sub(a.len, kk)
                    w1 = W2.fork([d])                      # k <= len: length k
                    if w1.ok():
                        yield w1, Seq(kk, [(f + [add(sub(kk, L(P)), L(-1))], el)
                                           for f, el in a.pieces], unknown=a.unknown)
                    w2 = W2.fork([add(scale(d, -1), L(-1))])   # k > len
                    if w2.ok():
                        yield w2, a
            return
        if callee_is(e, 'Iterator::skip') and len(ch) == 2:
            for W1, a in self.ev_seq(recv, W):
                for W2, kk in self.ev_int(ch[1], W1):
                    if kk is None or a.inf:
                        yield W2, (a if a.inf else self.unknown(e, 'skip count not linear'))
                        continue
                    d = sub(a.len, kk)
                    shift = add(L(P), kk)
                    w1 = W2.fork([d])
                    if w1.ok():
                        yield w1, Seq(d, [(subst_facts(f, shift), subst_elem(el, shift))
                                          for f, el in a.pieces], unknown=a.unknown)
                    w2 = W2.fork([add(scale(d, -1), L(-1))])
                    if w2.ok():
                        yield w2, Seq({}, [])
            return
        if callee_is(e, 'Iterator::zip') and len(ch) == 2:
            for W1, a in self.ev_seq(recv, W):
                for W2, b in self.ev_seq(ch[1], W1):
                    self.zips.append((e, W2, a, b))
                    def pieces(w):
                        out = []
                        for f1, e1 in a.pieces:
                            for f2, e2 in b.pieces:
                                if feasible(w.facts + f1 + f2 + [L(P)]):
                                    out.append((f1 + f2, ('pair', e1, e2)))
                        return out
                    unk = a.unknown or b.unknown
                    if a.inf and b.inf:
                        yield W2, Seq({}, pieces(W2), inf=True, unknown=unk)
                    elif a.inf:
                        yield W2, Seq(b.len, pieces(W2), unknown=unk)
                    elif b.inf:
                        yield W2, Seq(a.len, pieces(W2), unknown=unk)
                    else:
                        d = sub(b.len, a.len)
                        w1 = W2.fork([d])
                        if w1.ok():
                            yield w1, Seq(a.len, pieces(w1), unknown=unk)
                        w2 = W2.fork([add(scale(d, -1), L(-1))])
                        if w2.ok():
                            yield w2, Seq(b.len, pieces(w2), unknown=unk)
            return
        if callee_is(e, 'Iterator::enumerate') and len(ch) == 1:
            for W1, a in self.ev_seq(recv, W):
                t = a.copy()
                t.pieces = [(f, ('pair', ('idx', L(P)), el)) for f, el in a.pieces]
                yield W1, t
            return
        if callee_is(e, 'Iterator::rev') and len(ch) == 1:
            for W1, a in self.ev_seq(recv, W):
                if a.inf:
                    yield W1, self.unknown(e, 'rev of unbounded')
                    continue
                r = sub(add(a.len, L(-1)), L(P))
                yield W1, Seq(a.len, [(subst_facts(f, r), subst_elem(el, r)) for f, el in a.pieces],
                              unknown=a.unknown)
            return
        if callee_is(e, 'Iterator::filter', 'Iterator::filter_map') and len(ch) == 2:
            for W1, a in self.ev_seq(recv, W):
                if a.inf or a.unknown:
                    yield W1, self.unknown(e, 'filter of unbounded/unknown')
                    continue
                pred = src(peel(ch[1]))
                valid = ('not_none' in pred)
                c = ('valid(%s)' if valid else 'count[%s](%%s)' % pred[:40]) % self._seq_key(
                    Seq(a.len, [(f, _strip_idx(el)) for f, el in a.pieces]))
                w = W1.fork([L({c: 1}), sub(a.len, L(c))])
                s = Seq(L(c), [([], ('opaque', 'filtered(%s)' % self._seq_key(a)))])
                s.filtered = True
                yield w, s
            return
        if m == 'collect_trusted_vec1' or m == 'collect_trusted_to_vec' or m == 'collect_vec1' or \
                (m == 'collect' and len(ch) == 1):
            yield from self.ev_seq(recv, W)
            return
        yield W, self.unknown(e, 'unknown adaptor `%s`' % (callee(e) or m))

    # ------------------------------------------------------------ statements
    def exec_stmt(self, s, W):
        """Execute a statement abstractly; returns list of continuing worlds."""
        k = s['k']
        if k == 'Let':
            if 'init' not in s:
                return [W]
            pat = s['pat']
            if pat.get('k') != 'Binding':
                self.scan_accesses(s['init'], W)
                return [W]
            init = s['init']
            ty = pat.get('ty', '')
            out = []
            if ty in ('usize', 'i32', 'i64', 'isize', 'u32', 'u64'):
                for W1, v in self.ev_int(init, W):
                    w = W1.fork()
                    if v is not None:
                        w.ints[pat['local']] = v
                    else:
                        w.ints.pop(pat['local'], None)
                    out.append(w)
                return out
            if _is_seq_ty(ty):
                # the closures of a lazily built stream run when it is consumed, in this same scope:
                # their reads are recorded at the binding
                self.scan_accesses(init, W)
                for W1, q in self.ev_seq(init, W):
                    w = W1.fork()
                    w.seqs[pat['local']] = q
                    out.append(w)
                return out
            self.scan_accesses(init, W)
            return [W]
        if k in ('Semi', 'Expr'):
            return self.exec_expr(s['e'], W)
        return [W]

    def exec_expr(self, e, W):
        e = peel(e)
        k = e.get('k')
        if k == 'If':
            out = []
            self.scan_accesses(e['ch'][0], W)
            diverges = (peel(e['ch'][1]).get('ty') == '!' or e['ch'][1].get('ty') == '!') and \
                not any(x.get('k') in ('Ret', 'Break', 'Continue') for x in walk(e['ch'][1]))
            for wt, wf in self.cond_worlds(e['ch'][0], W):
                if wt is not None and not diverges:
                    out.extend(self.exec_body(e['ch'][1], wt))
                if wf is not None:
                    if len(e['ch']) > 2:
                        out.extend(self.exec_body(e['ch'][2], wf))
                    else:
                        out.append(wf)
            return out
        if k == 'Ret':
            if e.get('ch'):
                for W1, q in self.ev_value(e['ch'][0], W):
                    self.returns.append((W1, q, e))
            else:
                self.ret_worlds.append((W, e))
            return []
        if k == 'For':
            return self.exec_for(e, W)
        if k == 'MethodCall':
            recv = peel(e['ch'][0])
            m = e['method']
            self.scan_accesses(e, W)
            # unwrap of a Result-returning in-place op
            if m in ('unwrap', 'expect') and recv.get('k') == 'MethodCall':
                return self.exec_expr(recv, W)
            if recv.get('res') == 'local' and recv['local'] in W.seqs:
                lid = recv['local']
                if m == 'truncate' and len(e['ch']) == 2:
                    out = []
                    for W1, kk in self.ev_int(e['ch'][1], W):
                        s = W1.seqs[lid]
                        if kk is None:
                            w = W1.fork()
                            w.seqs[lid] = self.unknown(e, 'truncate count not linear')
                            out.append(w)
                            continue
                        d = sub(s.len, kk)
                        w1 = W1.fork([d])
                        if w1.ok():
                            t = Seq(kk, [(f + [add(sub(kk, L(P)), L(-1))], el) for f, el in s.pieces],
                                    unknown=s.unknown)
                            w1.seqs[lid] = t
                            out.append(w1)
                        w2 = W1.fork([add(scale(d, -1), L(-1))])
                        if w2.ok():
                            out.append(w2)
                    return out
                if m in ('sort_unstable_by', 'select_nth_unstable_by', 'sort_by', 'sort_unstable',
                         'sort', 'reverse'):
                    w = W.fork()
                    s = W.seqs[lid]
                    if m == 'select_nth_unstable_by':
                        for W1, kk in self.ev_int(e['ch'][1], W):
                            self.accesses.append(('select_nth', e, W1, [kk, dict(s.len)],
                                                  src(recv), None))
                            break
                    t = Seq(s.len, [([], ('opaque', 'permuted(%s)' % self._seq_key(s)))],
                            unknown=s.unknown)
                    w.seqs[lid] = t
                    return [w]
            return [W]
        if k == 'Block':
            return self.exec_body(e, W)
        if k == 'Match':
            self.scan_accesses(e['ch'][0], W)
            out = []
            for a in e['arms']:
                out.extend(self.exec_body(a['body'], W.fork()))
            return out or [W]
        if k in ('Assign', 'AssignOp'):
            self.scan_accesses(e['ch'][1], W)
            t = peel(e['ch'][0])
            if t.get('res') == 'local' and t['local'] in W.ints:
                # `x += e`, `x -= e`, `x = e` with a linear e: the exact new value
                outs = []
                if k == 'Assign' or e.get('op') in ('AddAssign', 'SubAssign'):
                    for W1, v in self.ev_int(e['ch'][1], W):
                        if v is None or W1.ints.get(t['local']) is None:
                            outs = []
                            break
                        w = W1.fork()
                        old_v = W1.ints[t['local']]
                        w.ints[t['local']] = v if k == 'Assign' else \
                            (add(old_v, v) if e['op'] == 'AddAssign' else sub(old_v, v))
                        outs.append(w)
                if outs:
                    return outs
                w = W.fork()
                # a fresh opaque symbol stands for the new value
                w.ints[t['local']] = L(self.sym(t.get('name', 'v')))
                return [w]
            return [W]
        if k == 'While':
            r = self.exec_while(e, W)
            if r is not None:
                return r
        if k in ('While', 'Loop'):
            for c in children(e):
                self.exec_body(c, W.fork()) if c.get('k') == 'Block' else self.scan_accesses(c, W)
            return [W]
        self.scan_accesses(e, W)
        return [W]

    def exec_for(self, e, W):
        """`for v in a..b` / `for (k, v) in (a..b).enumerate()`: one abstract iteration with the
        loop variables constrained to the range; the world after the loop is the world before
        (loop bodies here only write through unchecked setters)."""
        it = peel(e['ch'][0])
        pat = e['pat']
        enum = False
        if it.get('k') == 'MethodCall' and callee_is(it, 'Iterator::enumerate'):
            enum = True
            it = peel(it['ch'][0])
        out = []
        if it.get('k') == 'Range':
            for W1, a in self.ev_int(it['ch'][0], W):
                for W2, b in self.ev_int(it['ch'][1], W1):
                    if a is None or b is None:
                        self.loops.append((e, W2, None, a, b, 'range?'))
                        continue
                    hi = add(b, L(1)) if it['incl'] else b
                    w = W2.fork()
                    binds = _pat_binds(pat)
                    if enum and pat.get('k') == 'Tuple' and len(binds) == 2:
                        ks = '%s#%d' % (binds[0]['name'], binds[0]['local'])
                        vs = '%s#%d' % (binds[1]['name'], binds[1]['local'])
                        w.facts += [L({ks: 1}), sub(L(vs), add(a, L(ks))), sub(add(a, L(ks)), L(vs)),
                                    add(sub(hi, L(vs)), L(-1))]
                        w.ints[binds[0]['local']] = L(ks)
                        w.ints[binds[1]['local']] = L(vs)
                        posv = L(vs)
                    elif not enum and len(binds) == 1:
                        vs = '%s#%d' % (binds[0]['name'], binds[0]['local'])
                        w.facts += [sub(L(vs), a), add(sub(hi, L(vs)), L(-1))]
                        w.ints[binds[0]['local']] = L(vs)
                        posv = L(vs)
                    else:
                        self.loops.append((e, W2, None, a, hi, 'pattern?'))
                        continue
                    rec = {'node': e, 'world': W2, 'lo': a, 'hi': hi, 'pos': posv, 'usets': []}
                    self.loops.append(rec)
                    # lock-step counters: a tracked integer advanced by exactly one top-level `x += 1`
                    # per iteration holds `x0 + (v - a)` at the top of the iteration with loop value v
                    # (what `.enumerate()` would have supplied)
                    W_after = W2
                    steps = self._lockstep_counters(e['ch'][1], W2)
                    if steps:
                        W_after = W2.fork()
                        for lid_ in steps:
                            w.ints[lid_] = add(W2.ints[lid_], sub(posv, a))
                            W_after.ints.pop(lid_, None)      # after the loop: not tracked
                    if w.ok():
                        self.loop_stack.append(rec)
                        self.exec_body(e['ch'][1], w)
                        self.loop_stack.pop()
                    out.append(W_after)
            return out or [W]
        self.loops.append({'node': e, 'world': W, 'lo': None, 'hi': None, 'pos': None,
                           'usets': [], 'unknown': src(it)[:60]})
        return [W]

    def _lockstep_counters(self, body, W):
        body = peel(body)
        if body.get('k') != 'Block':
            return []
        inc = {}
        for st in body.get('stmts', []):
            x = peel(st.get('e') or {}) if st.get('k') in ('Semi', 'Expr') else {}
            t = peel(x['ch'][0]) if x.get('k') in ('AssignOp', 'Assign') and x.get('ch') else {}
            if t.get('res') != 'local' or t.get('local') not in W.ints:
                continue
            one = False
            if x.get('k') == 'AssignOp' and x.get('op') == 'AddAssign':
                r = peel(x['ch'][1])
                one = r.get('k') == 'Lit' and r.get('v') == '1'
            elif x.get('k') == 'Assign':
                r = peel(x['ch'][1])
                if r.get('k') == 'Binary' and r.get('op') == 'Add':
                    p_, q_ = peel(r['ch'][0]), peel(r['ch'][1])
                    one = (p_.get('local') == t['local'] and q_.get('k') == 'Lit' and q_.get('v') == '1') or \
                        (q_.get('local') == t['local'] and p_.get('k') == 'Lit' and p_.get('v') == '1')
            inc.setdefault(t['local'], []).append(one)
        out = []
        for lid, ones in inc.items():
            # exactly one unconditional `+ 1` at the top level of the body and no other assignment
            n_assign = sum(1 for y in walk(body) if y.get('k') in ('Assign', 'AssignOp') and y.get('ch') and
                           peel(y['ch'][0]).get('local') == lid)
            if ones == [True] and n_assign == 1:
                out.append(lid)
        return out

    # ------------------------------------------------------------ closures as element maps
    def _apply_map(self, c, s, W):
        """pieces of `s.map(c)` when the closure only re-arranges its argument: binds (nested)
        tuple patterns and yields a call of a captured callback, an index computed from an
        enumeration index, `Some(..)`, a tuple, or a slice of a view.  None if the closure does
        anything else (it then stays an opaque element function)."""
        if c.get('k') != 'Closure' or len(c.get('params', [])) != 1:
            return None
        body = peel(c['ch'][0])
        while body.get('k') == 'Block' and not body.get('stmts') and 'expr' in body:
            body = peel(body['expr'])
        head = body
        if head.get('k') == 'MethodCall' and head.get('method') in ('unwrap', 'cast', 'into'):
            head = peel(head['ch'][0])
        ok_head = (head.get('k') == 'Call' and peel(head['ch'][0]).get('res') == 'local') or \
            (head.get('k') == 'Call' and str(head.get('callee_res', '')).startswith('Ctor') and
             strip_generics(head.get('callee', '')).endswith('Some')) or \
            (head.get('k') == 'MethodCall' and head.get('method') == 'checked_sub')
        if not ok_head:
            return None
        out = []
        for f, el in s.pieces:
            env = {}
            if not self._bind_el(c['params'][0], el, env):
                return None
            try:
                res = self._ev_el(body, env, W)
            except _NoEl:
                return None
            for g, r in res:
                out.append((f + g, r))
        return out

    def _bind_el(self, pat, el, env):
        k = pat.get('k')
        if k == 'Binding':
            env[pat['local']] = el
            return True
        if k == 'Wild':
            return True
        if k == 'Tuple' and len(pat.get('ch', [])) == 2 and el[0] == 'pair':
            return self._bind_el(pat['ch'][0], el[1], env) and self._bind_el(pat['ch'][1], el[2], env)
        return False

    def _ev_el(self, e, env, W):
        """[(guards, element)] of an expression over bound elements"""
        e = peel(e)
        k = e.get('k')
        if k == 'Block' and not e.get('stmts') and 'expr' in e:
            return self._ev_el(e['expr'], env, W)
        if k == 'Path' and e.get('res') == 'local':
            if e['local'] in env:
                return [([], env[e['local']])]
            for W1, v in self.ev_int(e, W):
                if v is not None and e.get('ty') in ('usize', 'i32', 'i64', 'isize'):
                    return [([], ('idx', v))]
            raise _NoEl()
        if k == 'Lit':
            for W1, v in self.ev_int(e, W):
                if v is not None:
                    return [([], ('idx', v))]
            raise _NoEl()
        if k == 'Tup' and len(e['ch']) == 2:
            return [(g1 + g2, ('pair', a, b)) for g1, a in self._ev_el(e['ch'][0], env, W)
                    for g2, b in self._ev_el(e['ch'][1], env, W)]
        if k == 'Call' and strip_generics(e.get('callee') or '').endswith('Some') and len(e['ch']) == 2:
            return [(g, ('some', a)) for g, a in self._ev_el(e['ch'][1], env, W)]
        if k == 'Path' and e.get('def') and strip_generics(e['def']).endswith('::None'):
            return [([], ('fill', 'None'))]
        if k == 'Call' and peel(e['ch'][0]).get('res') == 'local':
            name = peel(e['ch'][0]).get('name', 'f')
            combos = [([], [])]
            for a in e['ch'][1:]:
                combos = [(g + g2, xs + [x]) for g, xs in combos for g2, x in self._ev_el(a, env, W)]
            return [(g, ('call', name) + tuple(xs)) for g, xs in combos]
        if k == 'Binary' and e.get('op') in ('Add', 'Sub'):
            out = []
            for g1, a in self._ev_el(e['ch'][0], env, W):
                for g2, b in self._ev_el(e['ch'][1], env, W):
                    if a[0] != 'idx' or b[0] != 'idx':
                        raise _NoEl()
                    out.append((g1 + g2, ('idx', add(a[1], b[1]) if e['op'] == 'Add' else sub(a[1], b[1]))))
            return out
        if k == 'MethodCall' and e.get('method') == 'checked_sub' and len(e['ch']) == 2:
            out = []
            for g1, a in self._ev_el(e['ch'][0], env, W):
                for g2, b in self._ev_el(e['ch'][1], env, W):
                    if a[0] != 'idx' or b[0] != 'idx':
                        raise _NoEl()
                    d = sub(a[1], b[1])
                    out.append((g1 + g2 + [d], ('some', ('idx', d))))
                    out.append((g1 + g2 + [add(scale(d, -1), L(-1))], ('fill', 'None')))
            return out
        if k == 'MethodCall' and e.get('method') in ('unwrap', 'expect') and \
                peel(e['ch'][0]).get('k') == 'MethodCall' and \
                callee_is(peel(e['ch'][0]), 'Vec1View::uslice', 'Vec1View::slice'):
            r = peel(e['ch'][0])
            return [(g1 + g2, ('slice', src(peel(r['ch'][0])), a, b))
                    for g1, a in self._ev_el(r['ch'][1], env, W) for g2, b in self._ev_el(r['ch'][2], env, W)]
        if k == 'MethodCall' and e.get('method') in ('cast', 'into', 'clone') and len(e['ch']) == 1:
            return self._ev_el(e['ch'][0], env, W)
        raise _NoEl()

    def exec_while(self, e, W):
        """`while c < hi { ..; c += 1 }` with any number of counters advanced by one in lockstep
        at the top level of the body: one abstract iteration with the counters constrained to
        their ranges, then the world after the loop (counters at their exit values, or untouched
        when the loop does not run).  Returns None if the loop is not of this form."""
        cond, body = peel(e['ch'][0]), peel(e['ch'][1])
        if body.get('k') != 'Block':
            return None
        # counters: tracked integers advanced by exactly `+= 1` (or `x = x + 1`) once, top level
        steps = {}
        items = [st.get('e') for st in body.get('stmts', []) if st.get('k') in ('Semi', 'Expr')]
        if 'expr' in body:
            items.append(body['expr'])
        for x in items:
            x = peel(x)
            if x.get('k') == 'AssignOp' and x.get('op') == 'AddAssign' and is_local(peel(x['ch'][0])) and \
                    peel(x['ch'][1]).get('k') == 'Lit' and peel(x['ch'][1]).get('v') == '1':
                steps[peel(x['ch'][0])['local']] = steps.get(peel(x['ch'][0])['local'], 0) + 1
            elif x.get('k') == 'Assign' and is_local(peel(x['ch'][0])):
                t, r = peel(x['ch'][0]), peel(x['ch'][1])
                if r.get('k') == 'Binary' and r.get('op') == 'Add' and \
                        any(is_local(peel(a)) and peel(a)['local'] == t['local'] for a in r['ch']) and \
                        any(peel(a).get('k') == 'Lit' and peel(a).get('v') == '1' for a in r['ch']):
                    steps[t['local']] = steps.get(t['local'], 0) + 1
        assigned = {}
        for x in walk(body):
            if x.get('k') in ('Assign', 'AssignOp') and is_local(peel(x['ch'][0])):
                lid = peel(x['ch'][0])['local']
                assigned[lid] = assigned.get(lid, 0) + 1
        counters = [lid for lid, n in steps.items() if n == 1 and assigned.get(lid) == 1 and lid in W.ints]
        if not counters or any(x.get('k') in ('Break', 'Continue', 'Ret') for x in walk(body)):
            return None
        if any(lid not in counters for lid in assigned if lid in W.ints):
            return None
        # the condition with the counters at iteration K >= 0
        K = self.sym('iter')
        w = W.fork([L({K: 1})])
        for lid in counters:
            w.ints[lid] = add(W.ints[lid], L(K))
        held = [wt for wt, wf in self.cond_worlds(cond, w) if wt is not None]
        if len(held) != 1:
            return None
        w = held[0]
        # the range of the counter the condition bounds: exit when the condition fails first
        prim = [lid for lid in counters if any(is_local(x) and x['local'] == lid for x in walk(cond))]
        if len(prim) != 1:
            return None
        prim = prim[0]
        lo = W.ints[prim]
        # hi: the least K at which the condition fails, as a linear form: cond is linear in K with
        # coefficient -1 (`c + K < H`  <=>  H - c - K - 1 >= 0), so the trip count is the slack at K = 0
        new_facts = [f for f in w.facts if f not in W.facts and f.get(K, 0) != 0]
        if len(new_facts) != 2:
            return None
        slack = [f for f in new_facts if f.get(K, 0) == -1]
        if len(slack) != 1:
            return None
        trips = add({k_: v for k_, v in slack[0].items() if k_ != K}, L(1))      # number of iterations
        hi = add(lo, trips)
        pos = add(lo, L(K))
        rec = {'node': e, 'world': W, 'lo': lo, 'hi': hi, 'pos': pos, 'usets': []}
        self.loops.append(rec)
        if w.ok():
            self.loop_stack.append(rec)
            self.exec_body(body, w)
            self.loop_stack.pop()
        out = []
        ran = W.fork([add(trips, L(-1))])              # at least one iteration: counters advanced by trips
        if ran.ok():
            for lid in counters:
                ran.ints[lid] = add(W.ints[lid], trips)
            out.append(ran)
        skipped = W.fork([scale(trips, -1)])           # the condition fails at once
        if skipped.ok():
            out.append(skipped)
        return out or [W]

    def scan_accesses(self, e, W, cond_depth=0):
        """Record unchecked accessor calls inside an expression (not descending into
        closures or loops)."""
        e = peel(e)
        k = e.get('k')
        if k == 'For':
            self.exec_for(e, W)
            return
        if k in ('Closure', 'While', 'Loop'):
            return
        if k == 'Match':
            self.scan_accesses(e['ch'][0], W)
            for a in e['arms']:
                self.scan_block(a['body'], W.fork())
            return
        if k == 'If' and len(e['ch']) >= 2:
            self.scan_accesses(e['ch'][0], W)
            for wt, wf in self.cond_worlds(e['ch'][0], W):
                if wt is not None:
                    self.scan_block(e['ch'][1], wt)
                if wf is not None and len(e['ch']) > 2:
                    self.scan_block(e['ch'][2], wf)
            return
        if k == 'Block':
            self.scan_block(e, W)
            return
        if k == 'MethodCall' and e['method'] in ('map', 'for_each', 'filter', 'filter_map') and \
                len(e['ch']) == 2 and peel(e['ch'][0]).get('k') == 'Range' and \
                peel(e['ch'][1]).get('k') == 'Closure':
            rng = peel(e['ch'][0])
            cl = peel(e['ch'][1])
            binds = _pat_binds(cl['params'][0]) if cl.get('params') else []
            for W1, a in self.ev_int(rng['ch'][0], W):
                for W2, b in self.ev_int(rng['ch'][1], W1):
                    if a is None or b is None or len(binds) != 1:
                        self.loops.append({'node': e, 'world': W2, 'lo': a, 'hi': b, 'pos': None,
                                           'usets': [], 'unknown': 'range map'})
                        continue
                    hi = add(b, L(1)) if rng['incl'] else b
                    vs = '%s#%d' % (binds[0]['name'], binds[0]['local'])
                    w = W2.fork([sub(L(vs), a), add(sub(hi, L(vs)), L(-1))])
                    w.ints[binds[0]['local']] = L(vs)
                    if w.ok():
                        self.scan_block(cl['ch'][0], w)
            return
        if k == 'MethodCall':
            m = e['method']
            if callee_is(e, 'Vec1View::uget', 'Vec1View::uvget', 'Vec1Mut::uget_mut') and len(e['ch']) == 2:
                for W1, i in self.ev_int(e['ch'][1], W):
                    self.accesses.append(('uget', e, W1, [i], src(peel(e['ch'][0])),
                                          self.loop_stack[-1] if self.loop_stack else None))
                    break
            elif callee_is(e, 'Vec1View::uslice') and len(e['ch']) == 3:
                for W1, a in self.ev_int(e['ch'][1], W):
                    for W2, b in self.ev_int(e['ch'][2], W1):
                        self.accesses.append(('uslice', e, W2, [a, b], src(peel(e['ch'][0])),
                                              self.loop_stack[-1] if self.loop_stack else None))
                        break
                    break
            elif m == 'uset' and len(e['ch']) == 3:
                for W1, i in self.ev_int(e['ch'][1], W):
                    rec = ('uset', e, W1, [i], src(peel(e['ch'][0])),
                           self.loop_stack[-1] if self.loop_stack else None)
                    self.accesses.append(rec)
                    if self.loop_stack:
                        self.loop_stack[-1]['usets'].append(rec)
                    break
        for c in children(e):
            self.scan_accesses(c, W)

    def scan_block(self, blk, W):
        blk = peel(blk)
        if blk.get('k') != 'Block':
            self.scan_accesses(blk, W)
            return
        worlds = [W]
        for s in blk.get('stmts', []):
            nxt = []
            for w in worlds:
                nxt.extend(self.exec_stmt(s, w))
            worlds = nxt
        if 'expr' in blk:
            for w in worlds:
                self.scan_accesses(blk['expr'], w)

    def exec_body(self, blk, W):
        blk = blk if blk.get('k') == 'Block' else {'k': 'Block', 'stmts': [], 'expr': blk}
        worlds = [W]
        for s in blk.get('stmts', []):
            nxt = []
            for w in worlds:
                nxt.extend(self.exec_stmt(s, w))
            worlds = nxt
        if 'expr' in blk:
            nxt = []
            for w in worlds:
                nxt.extend(self.exec_expr(blk['expr'], w))
            worlds = nxt
        return worlds

    def ev_value(self, e, W):
        """Value of a returned / tail expression when it is an iterator; else (W, None)."""
        ty = e.get('ty', '')
        if _is_seq_ty(ty) or peel(e).get('k') in ('MethodCall', 'Call'):
            yield from self.ev_seq(e, W)
        else:
            yield W, None

    # ------------------------------------------------------------ function driver
    def run_fn(self, init_world=None):
        """Abstractly run the function body; collects obligations and return values."""
        W = init_world or World()
        body = self.fn.hir
        if body.get('k') != 'Block':
            body = {'k': 'Block', 'stmts': [], 'expr': body}
        worlds = [W]
        for s in body.get('stmts', []):
            nxt = []
            for w in worlds:
                nxt.extend(self.exec_stmt(s, w))
            worlds = nxt
        if 'expr' in body:
            for w in worlds:
                self._tail(body['expr'], w)
        return self

    def _tail(self, e, W):
        e = peel(e)
        k = e.get('k')
        if k == 'Match':
            # sequential arm semantics with guards on an integer scrutinee
            rem = [W]
            for a in e['arms']:
                nxt_rem = []
                for w in rem:
                    # bind pattern variable to scrutinee value
                    pat = a['pat']
                    scr = e['ch'][0]
                    w0 = w
                    if pat.get('k') == 'Binding':
                        for W1, v in self.ev_int(scr, w):
                            w0 = W1.fork()
                            if v is not None:
                                w0.ints[pat['local']] = v
                            break
                    if 'guard' in a:
                        for wt, wf in self.cond_worlds(a['guard'], w0):
                            if wt is not None:
                                self._tail(a['body'], wt)
                            if wf is not None:
                                nxt_rem.append(wf)
                    elif pat.get('k') in ('Binding', 'Wild'):
                        self._tail(a['body'], w0)
                    else:
                        # literal / constructor patterns: both outcomes possible
                        self._tail(a['body'], w0.fork())
                        nxt_rem.append(w0.fork())
                rem = nxt_rem
            return
        if k == 'If' and len(e['ch']) > 2:
            for wt, wf in self.cond_worlds(e['ch'][0], W):
                if wt is not None:
                    self._tail_block(e['ch'][1], wt)
                if wf is not None:
                    self._tail_block(e['ch'][2], wf)
            return
        if k == 'Block':
            self._tail_block(e, W)
            return
        if k in ('For', 'While', 'Loop') or e.get('ty') == '()':
            self.exec_expr(e, W)
            return
        if k == 'If':
            self.exec_expr(e, W)
            return
        self.scan_accesses(e, W)
        for W1, q in self.ev_value(e, W):
            self.returns.append((W1, q, e))

    def _tail_block(self, blk, W):
        blk = peel(blk)
        if blk.get('k') != 'Block':
            self._tail(blk, W)
            return
        worlds = [W]
        for s in blk.get('stmts', []):
            nxt = []
            for w in worlds:
                nxt.extend(self.exec_stmt(s, w))
            worlds = nxt
        if 'expr' in blk:
            for w in worlds:
                self._tail(blk['expr'], w)


def _strip_idx(el):
    return el


def _is_seq_ty(ty):
    return any(x in ty for x in ('Iter', 'iter::', 'TrustedLen', 'Vec<', 'Box<dyn', 'impl ',
                                 'Chain', 'Zip', 'Map<', 'Take<', 'Skip<', 'Repeat', 'Range',
                                 '&mut [', '&['))


# ------------------------------------------------------------------ obligations

def axioms(ev, W):
    """Every length symbol is >= 0; abs symbols handled by world splits."""
    fs = []
    seen = set()
    for f in W.facts:
        for k in f:
            if k != 1 and isinstance(k, str) and k.startswith(('len(', 'valid(', 'count[')) and k not in seen:
                seen.add(k)
                fs.append(L({k: 1}))
    return fs


def check_len(ev, world, seq, declared):
    """Returns (ok, detail)."""
    if seq.unknown:
        return False, 'pipeline not understood: %s' % seq.unknown
    if declared is None:
        note = world.notes[-1] if world.notes else 'declared length is not a linear term'
        return False, note
    if seq.inf:
        return False, 'pipeline is unbounded but a finite length is declared'
    facts = world.facts + axioms(ev, world)
    ok = lia.entails_eq(facts, seq.len, declared)
    if ok:
        return True, 'pipeline length %s = declared %s' % (lia.show(seq.len), lia.show(declared))
    return False, 'pipeline length %s vs declared %s not equal under facts [%s]' % (
        lia.show(seq.len), lia.show(declared),
        '; '.join(_clean(lia.show(f)) + ' >= 0' for f in world.facts[-8:]))


def _clean(s):
    import re
    return re.sub(r'#\d+', '', s)
