"""Check runner: obligations, floors, known findings, evidence, VIOLATION lines."""
import hashlib
import json
import os
import sys
import time

VERIF = os.path.dirname(os.path.dirname(os.path.abspath(__file__)))
sys.path.insert(0, os.path.dirname(os.path.abspath(__file__)))

from facts import Facts  # noqa: E402


class Ob:
    __slots__ = ('rule', 'fn', 'key', 'ok', 'where', 'detail', 'trivial', 'config')

    def __init__(self, rule, fn, key, ok, where, detail, trivial, config):
        self.rule, self.fn, self.key, self.ok = rule, fn, key, ok
        self.where, self.detail, self.trivial, self.config = where, detail, trivial, config

    @property
    def vkey(self):
        return '%s | %s | %s' % (self.rule, self.fn, self.key)

    def as_dict(self):
        return {'rule': self.rule, 'fn': self.fn, 'key': self.key, 'ok': self.ok,
                'where': self.where, 'detail': self.detail, 'config': self.config}


class Run:
    def __init__(self, prop, tier, repo=None):
        self.prop = prop
        self.tier = tier
        self.repo = repo
        self.t0 = time.time()
        self.obs = []
        self.notes = []
        self.unproven = []
        self._facts = {}
        self.config = None
        self.seed = int(os.environ.get('VERIF_SEED', '0') or 0)
        self.rules_applied = {}
        self.analysed_fns = set()

    # -- facts -----------------------------------------------------------
    def facts(self, config):
        if config not in self._facts:
            self._facts[config] = Facts(config, self.repo)
        self.config = config
        return self._facts[config]

    # -- obligations -----------------------------------------------------
    def ob(self, rule, fn, key, ok, where='', detail='', trivial=False):
        fnq = fn if isinstance(fn, str) else fn.qpath
        if not isinstance(fn, str):
            self.analysed_fns.add(fn.qpath)
        o = Ob(rule, fnq, key, bool(ok), where, detail, trivial, self.config)
        self.obs.append(o)
        return bool(ok)

    def rule(self, name, text):
        self.rules_applied[name] = text

    def note(self, s):
        self.notes.append(s)

    def floor(self, rule, what, found, floor):
        """Vacuity guard: the number of instances a rule matched must not fall
        below what was counted by hand on the pinned tree."""
        self.ob('FLOOR', 'floor', '%s: %s' % (rule, what), found >= floor, '',
                'matched %d instance(s) of %s, expected at least %d (rule would pass '
                'vacuously; an anchor was renamed/removed or the extractor lost it)'
                % (found, what, floor), trivial=True)

    # -- finish ----------------------------------------------------------
    def finish(self, level, explanation, assumptions, trusted_base, rule_text):
        known = load_known()
        # merge per vkey over configs: violation if any config violates
        merged = {}
        for o in self.obs:
            m = merged.get(o.vkey)
            if m is None:
                merged[o.vkey] = o
            elif m.ok and not o.ok:
                merged[o.vkey] = o
        viol = [o for o in merged.values() if not o.ok]
        unlisted = []
        listed = []
        for o in viol:
            k = known.get((self.prop, o.vkey))
            if k is not None and k.get('status') == 'known':
                listed.append((o, k))
            else:
                unlisted.append(o)
        rep_dir = os.path.join(VERIF, '.work', 'reports')
        os.makedirs(rep_dir, exist_ok=True)
        for o, k in sorted(listed, key=lambda x: x[0].vkey):
            print('KNOWN-FINDING: property=%s %s  [%s]' % (self.prop, k.get('what', ''), o.vkey))
        for o in sorted(unlisted, key=lambda x: x.vkey):
            h = hashlib.sha1(o.vkey.encode()).hexdigest()[:10]
            path = os.path.join(rep_dir, '%s-%s-%s.json' % (self.prop, o.rule.replace('/', '_'), h))
            with open(path, 'w') as fh:
                json.dump({'property': self.prop, 'violation_key': o.vkey, **o.as_dict(),
                           'rule_text': self.rules_applied.get(o.rule, '')}, fh, indent=1)
            print('VIOLATION property=%s replay=%s' % (self.prop, path))
            print('  rule    %s  %s' % (o.rule, self.rules_applied.get(o.rule, '')))
            print('  site    %s  %s' % (o.where, o.fn))
            print('  key     %s' % o.key)
            if o.detail:
                for ln in str(o.detail).split('\n'):
                    print('  detail  %s' % ln)
        n_ob = len(merged)
        nontrivial = [o for o in merged.values() if not o.trivial]
        discharged = sum(1 for o in merged.values() if o.ok)
        samples = []
        seen_rules = set()
        for o in sorted(nontrivial, key=lambda o: o.vkey):
            if o.rule not in seen_rules and len(samples) < 12:
                seen_rules.add(o.rule)
                samples.append(o.as_dict())
        per_rule = {}
        for o in merged.values():
            r = per_rule.setdefault(o.rule, [0, 0])
            r[0] += 1
            r[1] += 1 if o.ok else 0
        cov = {
            'evaluations': len(self.obs),
            'distinct_nontrivial': len(nontrivial),
            'rule': rule_text,
            'samples': samples or [o.as_dict() for o in list(merged.values())[:3]],
            'obligations': n_ob,
            'discharged': discharged,
            'checker_cmd': 'bin/check %s --tier %s' % (self.prop, self.tier),
            'trusted_base': trusted_base,
            'explanation': explanation,
            'exhaustive': False,
            'per_rule': {k: {'instances': v[0], 'ok': v[1]} for k, v in sorted(per_rule.items())},
            'rules': self.rules_applied,
            'functions_analysed': len(self.analysed_fns),
            'configs': sorted(self._facts.keys()),
            'known_findings_reported': sorted(o.vkey for o, _ in listed),
            'unproven_not_alarmed': self.unproven[:50],
            'notes': self.notes[:50],
        }
        ev = {
            'property_id': self.prop,
            'tier': self.tier,
            'seed': self.seed,
            'level': level if not viol else ('other' if level == 'proof' else level),
            'coverage': cov,
            'assumptions': assumptions,
            'wall_s': round(time.time() - self.t0, 3),
            'violations': len(unlisted),
        }
        # development tools that run the checks on a patched scratch tree (seedcheck, benigncheck,
        # selftest, seedsall with VERIF_REPO set) point this elsewhere so that the committed
        # evidence is only ever written by a run against /repo itself
        evdir = os.environ.get('VERIF_EVIDENCE_DIR') or os.path.join(VERIF, 'evidence')
        os.makedirs(evdir, exist_ok=True)
        with open(os.path.join(evdir, self.prop + '.json'), 'w') as fh:
            json.dump(ev, fh, indent=1)
        print('%s %s: %d obligations over %d functions (%s), %d discharged, %d known finding(s), '
              '%d violation(s), %.1fs'
              % (self.prop, self.tier, n_ob, len(self.analysed_fns),
                 ','.join(sorted(self._facts.keys())), discharged, len(listed), len(unlisted),
                 time.time() - self.t0))
        for r, v in sorted(per_rule.items()):
            print('   %-22s %3d instance(s), %3d ok' % (r, v[0], v[1]))
        return 1 if unlisted else 0


def load_known():
    p = os.path.join(VERIF, 'known_findings.json')
    out = {}
    if os.path.exists(p):
        with open(p) as fh:
            for k in json.load(fh).get('findings', []):
                out[(k['property'], k['key'])] = k
    return out
