"""TL: audit of `unsafe impl TrustedLen`, hand-written exact-size iterators, trusted consumers."""
import re

import dtree
from facts import (walk, peel, src, loc, callee_is, callee, strip_generics, children,
                   _pat_binds, walk_with_parents)

RULES = {
    'TL.impl': 'TrustedLen is implemented only for types whose upper size_hint is exact whenever '
               'their inputs\' is (audited table), or unbounded sources',
    'TL.struct': 'a hand-written trusted iterator reports (k, Some(k)); every `next`/`next_back` '
                 'path that yields an item decreases k by exactly one and a path that yields '
                 'None leaves k unchanged (and, for a self-contained iterator, is taken only '
                 'when k = 0)',
    'TL.consumer': 'a trusted consumer reads the upper size hint before consuming, allocates '
                   'exactly that, writes one slot per item in order through a bumped pointer '
                   'and only then sets the length; nothing else in the workspace calls '
                   'set_len / ptr::write',
    'TL.write': 'write_trust_iter writes all `len` slots (element-wise when the lengths agree, '
                'broadcast when the iterator has one item) or reports a mismatch; indices range '
                'over 0..len',
}

# self types (generic arguments stripped) whose upper size_hint is exact when their inputs' is
AUDITED = {
    'std::slice::Iter': 'slice iterator: exact',
    'std::iter::Copied': 'forwards inner hint',
    'std::iter::Cloned': 'forwards inner hint',
    'std::iter::Enumerate': 'forwards inner hint',
    'std::iter::Empty': 'always (0, Some(0))',
    'std::iter::Zip': 'min of both exact hints',
    'std::slice::ChunksExact': 'len / chunk',
    'std::slice::Windows': 'len - size + 1 (saturating)',
    'std::iter::Rev': 'forwards inner hint',
    'std::ops::Range': 'exact for integer ranges (usize::MAX overflow gives None upper: clean panic)',
    'std::ops::RangeInclusive': 'exact for integer ranges',
    'std::iter::StepBy': 'exact from inner exact hint',
    'std::iter::Chain': 'sum of both hints (None on overflow)',
    'std::iter::Once': 'exact',
    'std::vec::IntoIter': 'exact',
    'std::iter::RepeatN': 'exact',
    'std::iter::Take': 'min(n, inner)',
    'std::iter::Map': 'forwards inner hint',
    'std::iter::Repeat': 'unbounded: upper bound None, len() panics cleanly',
    'std::iter::RepeatWith': 'unbounded: upper bound None',
    'std::boxed::Box': 'forwards to the boxed TrustedLen',
    'std::collections::vec_deque::IntoIter': 'exact',
    'std::collections::vec_deque::Iter': 'exact',
    'std::collections::vec_deque::IterMut': 'exact',
    'std::iter::Skip': 'inner - n (saturating): exact when inner is',
    'std::iter::Flatten': None,
    '&mut': 'forwards',
    'dyn': 'forwards',
}
AUDITED_SUFFIX = {
    'ndarray::iter::Iter': 'ndarray element iterator: exact',
    'ndarray::iter::IterMut': 'ndarray element iterator: exact',
    'linspace::Linspace': 'checked by TL.struct',
    'trusted::TrustIter': 'checked by TL.struct; its declared length is SEQ.len\'s obligation',
    'iter::OptIter': 'forwards',
}
NOT_EXACT = {
    'std::iter::Scan': 'scan stops as soon as its closure returns None; its own size_hint lower '
                       'bound is 0',
    'std::iter::Filter': 'filter drops items',
    'std::iter::FilterMap': 'filter_map drops items',
    'std::iter::TakeWhile': 'stops early',
    'std::iter::SkipWhile': 'drops a data-dependent prefix',
    'std::iter::MapWhile': 'stops early',
    'std::iter::Flatten': 'data-dependent length',
    'std::iter::FlatMap': 'data-dependent length',
    'std::iter::Peekable': 'hint exact, but not tabled',
}


def head_type(ty):
    t = ty.strip()
    if t.startswith('&mut '):
        return '&mut'
    if t.startswith('dyn ') or t.startswith('(dyn'):
        return 'dyn'
    t = re.sub(r"^&('[a-z_]+ )?", '', t)
    return strip_generics(t.split('<')[0])


def check_impls(run, F):
    n = 0
    for im in F.impls:
        tr = im.get('trait') or ''
        if not (strip_generics(tr).endswith('TrustedLen')):
            continue
        n += 1
        ty = im['self_ty']
        h = head_type(ty)
        which = 'PlTrustedLen' if 'polars' in tr else 'TrustedLen'
        ok = False
        why = ''
        if h in AUDITED and AUDITED[h]:
            ok, why = True, AUDITED[h]
        else:
            for suf, reason in AUDITED_SUFFIX.items():
                if h.endswith(suf):
                    ok, why = True, reason
            if not ok:
                why = NOT_EXACT.get(h, 'type is not in the audited table of exact-size iterators')
        if not im.get('unsafe', False):
            ok, why = False, 'impl is not marked unsafe'
        fnq = '%s::<impl %s for %s>' % (im['crate'], which, h)
        run.ob('TL.impl', fnq, 'impl %s for %s' % (which, h), ok, im['span'].rsplit(':', 3)[0] + ':' +
               im['span'].split(':')[1], why)
    return n


# ---------------------------------------------------------------- TL.struct

def _fields_form(s):
    """'self.len' / '(self.len - self.index)' -> {field: coef} or None"""
    s = s.strip()
    m = re.fullmatch(r'self\.(\w+)', s)
    if m:
        return {m.group(1): 1}
    m = re.fullmatch(r'\(self\.(\w+) - self\.(\w+)\)', s)
    if m:
        return {m.group(1): 1, m.group(2): -1}
    return None


def _effect_delta(ef, defs=None):
    """canonical effect string -> (field, delta) or None.  The new value is read as a polynomial
    with the path's kept lets substituted, so `self.k += 1`, `self.k = self.k + 1` and
    `let i = self.k; self.k = i + 1` are the same update; `saturating_sub(1)` counts as -1."""
    from algebra import parse_poly
    defs = defs or {}
    m = re.fullmatch(r'self\.(\w+) (AddAssign|SubAssign) (.+)', ef)
    if m:
        try:
            d = parse_poly(m.group(3), defs)
        except Exception:
            return None
        if d.is_const():
            v = d.const_value()
            return (m.group(1), int(v) if m.group(2) == 'AddAssign' else -int(v)) if v == int(v) else None
        return None
    m = re.fullmatch(r'self\.(\w+) = (.+)', ef)
    if m:
        rhs = re.sub(r"([\w.']+)\.saturating_sub\(1\)", r'(\1 - 1)', m.group(2))
        try:
            d = parse_poly(rhs, defs) - parse_poly('self.%s' % m.group(1), {})
        except Exception:
            return None
        if d.is_const():
            v = d.const_value()
            return (m.group(1), int(v)) if v == int(v) else None
    return None


def check_structs(run, F):
    """Hand-written iterators of the workspace that are declared TrustedLen."""
    n = 0
    targets = []
    for im in F.impls:
        if strip_generics(im.get('trait') or '').endswith('trusted::TrustedLen') or \
                (im.get('trait') or '').endswith('TrustedLen'):
            h = head_type(im['self_ty'])
            if im['crate'] == 'tea_core' and not h.startswith(('std::', '&', 'dyn')) and \
                    'ndarray' not in h and 'polars' not in h:
                if h not in targets:
                    targets.append(h)
    for h in targets:
        short = h.split('::')[-1]
        fns = {}
        for fn in F.fns:
            if fn.kind == 'AssocFn' and fn.impl_self and head_type(fn.impl_self) == h and \
                    fn.name in ('next', 'next_back', 'size_hint') and fn.crate == 'tea_core':
                fns[fn.name] = fn
            elif fn.kind == 'AssocFn' and fn.impl_self and head_type(fn.impl_self) == h and \
                    fn.crate == 'tea_core' and fn.impl_trait and \
                    strip_generics(fn.impl_trait).split('::')[-1] in ('Iterator', 'DoubleEndedIterator',
                                                                      'ExactSizeIterator'):
                fns.setdefault('#other', []).append(fn)
        if 'size_hint' not in fns or 'next' not in fns:
            if short == 'OptIter':
                continue
            run.ob('TL.struct', 'tea_core::' + h, 'size_hint/next present', False, '',
                   'TrustedLen type without its own size_hint / next: %s' % sorted(fns))
            continue
        n += 1
        sh = fns['size_hint']
        rows = dtree.table(sh.hir, {b['local']: 'self' for p in sh.params for b in _pat_binds(p)})
        K = None
        ok = len(rows) == 1
        if ok:
            leaf = list(rows)[0][1]
            m = re.fullmatch(r'\((.+), Some\((.+)\)\)', leaf)
            if m and m.group(1) == m.group(2):
                K = _fields_form(m.group(1))
            ok = K is not None
        run.ob('TL.struct', sh, '%s::size_hint = (k, Some(k))' % short, ok, sh.loc(),
               'returns %s' % [r[1] for r in rows])
        if K is None:
            continue
        for nm in ('next', 'next_back'):
            if nm not in fns:
                continue
            fn = fns[nm]
            env = {b['local']: 'self' for p in fn.params for b in _pat_binds(p)}
            paths = list(dtree.table(fn.hir, env))
            some_ok, none_ok = True, True
            det = []
            nsome = 0
            for cs, leaf, effs in paths:
                dk = 0
                bad_eff = []
                from algebra import defs_of
                defs_ = defs_of([dtree.unprime(x) for x in effs])
                for ef in effs:
                    if re.match(r"v\d+'* := ", ef):
                        continue
                    d = _effect_delta(dtree.unprime(ef), defs_)
                    if d is None:
                        if ef.startswith('self.'):
                            bad_eff.append(ef)
                        continue
                    dk += K.get(d[0], 0) * d[1]
                yields_some = leaf.startswith('Some(') or any(c.startswith('VALID(') for c in cs)
                yields_none = leaf == 'NULL' or any(c.startswith('!VALID(') for c in cs)
                if leaf.startswith('Some('):
                    yields_none = False
                if leaf == 'NULL':
                    yields_some = False
                if not yields_some and not yields_none:
                    # delegated result with no test: the state is never updated
                    yields_some = True
                if yields_some and not yields_none:
                    nsome += 1
                    if dk != -1 or bad_eff:
                        some_ok = False
                        det.append('a path yielding an item changes k by %+d (%s)' % (dk, list(effs)))
                elif yields_none:
                    if dk != 0:
                        none_ok = False
                        det.append('a path yielding None changes k by %+d' % dk)
            run.ob('TL.struct', fn, '%s::%s decrements k' % (short, nm), some_ok and nsome > 0,
                   fn.loc(), '; '.join(det) or '%d path(s); each item path decrements k = %s by one'
                   % (len(paths), K))
            run.ob('TL.struct', fn, '%s::%s None path' % (short, nm), none_ok, fn.loc(),
                   '; '.join(det) or 'None paths leave k unchanged')
        # other overridden iterator methods that advance the wrapped iterator
        for fn in fns.get('#other', []):
            _check_skip_method(run, fn, short, K)
    return n


SKIP_METHODS = {'nth': 'nth', 'nth_back': 'nth_back'}
BY_VALUE = ('count', 'last', 'fold', 'for_each', 'collect', 'sum', 'product', 'max', 'min', 'rfold', 'len',
            'is_empty')


def _check_skip_method(run, fn, short, K):
    """`nth(n)` / `nth_back(n)` take min(k, n+1) items: the declared length must drop by n+1
    when an item comes back and to 0 when the iterator ran out.  Methods that consume the
    iterator by value need no bookkeeping; any other `&mut self` override is not modelled."""
    if fn.name in BY_VALUE:
        return
    key = '%s::%s keeps the declared length' % (short, fn.name)
    if fn.name not in SKIP_METHODS or len(K) != 1:
        if any(x.get('k') == 'MethodCall' and 'iter' in src(peel(x['ch'][0])) for x in walk(fn.hir)):
            run.ob('TL.struct', fn, key, False, fn.loc(),
                   'override advances the wrapped iterator but is not one of next / next_back / nth / '
                   'nth_back: the length bookkeeping of this method is not modelled')
        return
    fld = list(K)[0]
    params = [b['name'] for p in fn.params for b in _pat_binds(p)]
    nparam = params[1] if len(params) > 1 else 'n'
    env = {b['local']: ('self' if i == 0 else b['name']) for i, p in enumerate(fn.params) for b in _pat_binds(p)}
    t = dtree.table(fn.hir, env)
    step = r'\((1 \+ %s|%s \+ 1)\)' % (nparam, nparam)
    dec = re.compile(r'self\.%s (SubAssign %s|= self\.%s\.saturating_sub\(%s\))$' % (fld, step, fld, step))
    sat = re.compile(r'self\.%s = self\.%s\.saturating_sub\(%s\)$' % (fld, fld, step))
    zero = re.compile(r'self\.%s = 0$' % fld)
    det = []
    ok = True
    for cs, leaf, ef in t:
        upd = [e for e in ef if e.startswith('self.%s ' % fld)]
        some = any(c.startswith('VALID(') for c in cs) or leaf.startswith('Some(')
        none = any(c.startswith('!VALID(') for c in cs) or leaf == 'NULL'
        if some and not none:
            good = len(upd) == 1 and dec.match(upd[0])
        elif none and not some:
            # exhausted: every remaining item was consumed
            good = len(upd) == 1 and (zero.match(upd[0]) or sat.match(upd[0]))
        else:
            # no test on the result: one saturating update covers both outcomes
            good = len(upd) == 1 and sat.match(upd[0])
        if not good:
            ok = False
            det.append('path %s -> %s updates %s' % (sorted(cs), leaf[:20], upd or 'nothing'))
    run.ob('TL.struct', fn, key, ok, fn.loc(),
           '; '.join(det) or 'k drops by n+1 with an item, to 0 without')



# ---------------------------------------------------------------- TL.consumer

CONSUMERS = ('collect_from_trusted', 'try_collect_from_trusted')
RAW_OK = {  # fn name suffix -> reason the raw write is accepted there
    'collect_from_trusted': 'trusted consumer (checked by TL.consumer)',
    'try_collect_from_trusted': 'trusted consumer (checked by TL.consumer)',
    'uninit': 'Vec::<MaybeUninit<T>>::uninit: with_capacity(len) + set_len(len) of MaybeUninit',
    'uset': 'MaybeUninit::write at a caller-checked index',
    'assume_init': 'transmute of a fully written MaybeUninit buffer (INIT rules)',
}


def _is_upper_of(fn, e, hint, depth=0):
    """e denotes the payload of the second component of the `size_hint()` call `hint`: through
    `unwrap` / `expect`, immutable lets, `.1` or a tuple pattern"""
    e = peel(e)
    if depth > 8:
        return False
    if e.get('k') == 'MethodCall' and e.get('method') in ('unwrap', 'expect') and \
            callee_is(e, 'Option::unwrap', 'Option::expect'):
        return _is_upper_of(fn, e['ch'][0], hint, depth + 1)
    if e.get('k') == 'Field':
        return e.get('field') == '1' and peel(e['ch'][0]) is hint or \
            (e.get('field') == '1' and _is_let_of(fn, peel(e['ch'][0]), hint))
    if e.get('k') == 'Path' and e.get('res') == 'local':
        for b in walk(fn.hir):
            if b.get('k') != 'Block':
                continue
            for s_ in b.get('stmts', []):
                if s_['k'] != 'Let' or 'init' not in s_:
                    continue
                p_ = s_['pat']
                if p_.get('k') == 'Binding' and p_['local'] == e['local'] and not p_.get('mut'):
                    return _is_upper_of(fn, s_['init'], hint, depth + 1)
                if p_.get('k') == 'Tuple' and len(p_['ch']) == 2 and p_['ch'][1].get('k') == 'Binding' and \
                        p_['ch'][1]['local'] == e['local'] and not p_['ch'][1].get('mut'):
                    return peel(s_['init']) is hint or _is_let_of(fn, peel(s_['init']), hint)
    return False


def _is_let_of(fn, e, hint):
    if e.get('k') != 'Path' or e.get('res') != 'local':
        return False
    for b in walk(fn.hir):
        if b.get('k') == 'Block':
            for s_ in b.get('stmts', []):
                if s_['k'] == 'Let' and 'init' in s_ and s_['pat'].get('k') == 'Binding' and \
                        s_['pat']['local'] == e['local'] and not s_['pat'].get('mut'):
                    return peel(s_['init']) is hint
    return False


def check_consumers(run, F):
    n = 0
    for fn in F.fns:
        if fn.kind != 'AssocFn' or fn.name not in CONSUMERS or not fn.file.endswith('trusted.rs') \
                or fn.impl_self is None:
            continue
        n += 1
        seqno = {}
        i = 0
        for x in walk(fn.hir):
            i += 1
            seqno[id(x)] = i
        hint = [x for x in walk(fn.hir) if x.get('k') == 'MethodCall' and
                callee_is(x, 'Iterator::size_hint')]
        cap = [x for x in walk(fn.hir) if x.get('k') == 'Call' and callee_is(x, 'Vec::with_capacity')]
        loops = [x for x in walk(fn.hir) if x.get('k') == 'For']
        setl = [x for x in walk(fn.hir) if x.get('k') == 'MethodCall' and x['method'] == 'set_len']
        writes = [x for x in walk(fn.hir) if x.get('k') == 'Call' and callee_is(x, 'ptr::write')]
        # `p = p.add(1)` on the pointer the write goes through (whatever it is called)
        wptr = {peel(w['ch'][1]).get('local') for w in writes if peel(w['ch'][1]).get('res') == 'local'}
        bumps = [x for x in walk(fn.hir) if x.get('k') == 'Assign' and
                 peel(x['ch'][0]).get('res') == 'local' and peel(x['ch'][0]).get('local') in wptr and
                 peel(x['ch'][1]).get('k') == 'MethodCall' and peel(x['ch'][1]).get('method') == 'add' and
                 peel(peel(x['ch'][1])['ch'][0]).get('local') == peel(x['ch'][0]).get('local') and
                 peel(peel(x['ch'][1])['ch'][1]).get('k') == 'Lit' and peel(peel(x['ch'][1])['ch'][1]).get('v') == '1']
        ok = len(hint) == 1 and len(cap) == 1 and len(loops) == 1 and len(setl) == 1 and \
            len(writes) == 1 and len(bumps) == 1
        why = 'hint/capacity/loop/write/bump/set_len = %d/%d/%d/%d/%d/%d' % (
            len(hint), len(cap), len(loops), len(writes), len(bumps), len(setl))
        if ok:
            len_local = None
            # `let len = iter.size_hint().1.expect(..)` ; with_capacity(len) ; set_len(len)
            a = peel(cap[0]['ch'][1])
            b = peel(setl[0]['ch'][1])
            same = a.get('res') == 'local' and b.get('res') == 'local' and a['local'] == b['local']
            # the allocation size is the second component of the hint, however the pair is taken apart
            upper = _is_upper_of(fn, cap[0]['ch'][1], hint[0])
            order = seqno[id(hint[0])] < seqno[id(cap[0])] < seqno[id(loops[0])] < seqno[id(setl[0])]
            inloop = any(y is writes[0] for y in walk(loops[0])) and \
                any(y is bumps[0] for y in walk(loops[0]))
            w_before_bump = seqno[id(writes[0])] < seqno[id(bumps[0])]
            itsrc = src(loops[0]['ch'][0])
            ok = same and upper and order and inloop and w_before_bump
            why = ('capacity and set_len use the same hint local: %s; upper bound (.1): %s; '
                   'hint < alloc < loop < set_len: %s; write+bump inside the loop in order: %s; '
                   'loop over `%s`' % (same, upper, order, inloop and w_before_bump, itsrc))
            if fn.name.startswith('try_'):
                # nothing is written for an Err item and the Err leaves the function: either the
                # item goes through `?` before the write, or the write sits in the Ok arm and the
                # Err arm returns it
                lt = dtree.body_table(fn.hir, loops[0], {})
                w_rows = [(cs, l, ef) for cs, l, ef in lt if any('write(' in e for e in ef)]
                e_rows = [(cs, l, ef) for cs, l, ef in lt if l.startswith(('Err(', 'v1::Err('))]
                via_try = bool(w_rows) and all(any('write(' in e and '?' in e for e in ef) for cs, l, ef in w_rows)
                via_match = bool(w_rows) and all(any(re.fullmatch(r'\w+ is (\w+::)*Ok\(_\)', c) for c in cs)
                                                 for cs, l, ef in w_rows) and \
                    len(e_rows) == 1 and not any('write(' in e for e in e_rows[0][2])
                t_ok = via_try or via_match
                ok = ok and t_ok
                why += '; first Err returns before any further write: %s' % t_ok
        run.ob('TL.consumer', fn, '%s for %s' % (fn.name, head_type(fn.impl_self)), ok, fn.loc(), why)
    # who may call set_len / ptr::write / MaybeUninit::write
    raw = 0
    for fn in F.fns:
        if fn.kind == 'Closure' or fn.hir is None:
            continue
        for x in walk(fn.hir):
            hit = None
            if x.get('k') == 'MethodCall' and x['method'] == 'set_len':
                hit = 'set_len'
            elif x.get('k') == 'Call' and callee_is(x, 'ptr::write', 'ptr::write_unaligned',
                                                    'ptr::copy', 'ptr::copy_nonoverlapping'):
                hit = 'ptr::write'
            elif x.get('k') == 'MethodCall' and callee_is(x, 'MaybeUninit::write'):
                hit = 'MaybeUninit::write'
            if hit:
                raw += 1
                allowed = fn.name in RAW_OK and '/tea-core/' in '/' + fn.file
                run.ob('TL.consumer', fn, 'raw write `%s` in %s' % (hit, fn.name), allowed, loc(x),
                       RAW_OK.get(fn.name, 'raw memory write outside the audited trusted '
                                           'consumers / uninit buffers'))
    return n, raw


def check_trait_len(run, F):
    """`TrustedLen::len` / `is_empty` provided methods: consumers must inspect the UPPER bound."""
    fn = [f for f in F.fns if f.crate == 'tea_core' and f.qpath.endswith('trusted::TrustedLen::len')]
    if not fn:
        run.ob('TL.consumer', 'tea_core::vec_core::trusted::TrustedLen::len', 'TrustedLen::len present',
               False, '', 'provided method not found')
        return 0
    fn = fn[0]
    import dtree
    import nullrules as N
    t = N.tbl(fn)
    leaf = N.one_leaf(t)
    # `self.size_hint().1.unwrap()`, however the pair is taken apart (unwrap is a coercion here)
    run.ob('TL.consumer', fn, 'TrustedLen::len reads the upper size hint',
           leaf == 'self.size_hint().1', fn.loc(), 'table %s' % dtree.show(t))
    fe = [f for f in F.fns if f.crate == 'tea_core' and f.qpath.endswith('trusted::TrustedLen::is_empty')]
    if fe:
        t2 = N.tbl(fe[0])
        run.ob('TL.consumer', fe[0], 'TrustedLen::is_empty', N.one_leaf(t2) in ('(0 == self.len())', 'self.len() is 0'),
               fe[0].loc(), 'table %s' % dtree.show(t2))
    return 1


def _eval_cond(c, L, I):
    """truth of a canonical condition over the two lengths (None if it is not a comparison of
    self.len(), iter.len() and literals)"""
    neg = False
    while c.startswith('!'):
        neg = not neg
        c = c[1:]
    x = c.replace('self.len()', 'L').replace('iter.len()', 'I')
    if not re.fullmatch(r'[\sLI0-9()<>=!]+', x):
        return None
    try:
        v = bool(eval(x, {'__builtins__': {}}, {'L': L, 'I': I}))
    except Exception:
        return None
    return (not v) if neg else v


def check_write_trust_iter(run, F):
    """write_trust_iter, decided on the order types of (0, 1, self.len(), iter.len()): which
    write loop is reached and what is returned, for every pair of lengths in 0..4."""
    check_trait_len(run, F)
    fn = F.one('UninitRefMut::write_trust_iter')
    env = {b['local']: b['name'] for p in fn.params for b in _pat_binds(p)}
    rows = dtree.table(fn.hir, env)
    # write sites: uset calls, their loop, and where the written item comes from
    sites = []
    for x in walk(fn.hir):
        if x.get('k') == 'MethodCall' and callee_is(x, 'UninitRefMut::uset', 'UninitVec::uset'):
            loop = None
            for y in walk(fn.hir):
                if y.get('k') == 'For' and any(z is x for z in walk(y['ch'][1])):
                    loop = (y, peel(y['ch'][0]), y['ch'][1], [b['local'] for b in _pat_binds(y['pat'])])
                if y.get('k') == 'MethodCall' and y['method'] == 'for_each' and \
                        peel(y['ch'][1]).get('k') == 'Closure' and any(z is x for z in walk(y['ch'][1])):
                    cl = peel(y['ch'][1])
                    loop = (y, peel(y['ch'][0]), cl['ch'][0], [b['local'] for p in cl['params'] for b in _pat_binds(p)])
            g = dtree.guards_at(fn.hir, loop[0] if loop else x, env)
            kind = '?'
            rng = None
            if loop and g:
                conds, en = g
                rng = dtree.canon(loop[1], en)
                idx = peel(x['ch'][1])
                idx_ok = idx.get('k') == 'Path' and idx.get('local') in loop[3]
                nxt_in = [z for z in walk(loop[2]) if z.get('k') == 'MethodCall' and callee_is(z, 'Iterator::next')]
                nxt_all = [z for z in walk(fn.hir) if z.get('k') == 'MethodCall' and callee_is(z, 'Iterator::next')]
                if idx_ok and len(nxt_in) == 1:
                    kind = 'elementwise'
                elif idx_ok and not nxt_in and len(nxt_all) - sum(
                        1 for s2 in sites for _ in s2['nxt_in']) >= 1:
                    kind = 'broadcast'
                sites.append({'node': x, 'conds': dtree.simplify(frozenset(conds)) or frozenset({'false'}),
                              'kind': kind, 'range': rng, 'nxt_in': nxt_in})
            else:
                sites.append({'node': x, 'conds': frozenset({'?'}), 'kind': '?', 'range': None, 'nxt_in': []})
    why = []
    r_ok = len(sites) == 2 and all(st['range'] == '0..self.len()' for st in sites)
    if not r_ok:
        why.append('write loops %s' % [(st['kind'], st['range']) for st in sites])
    ok = r_ok
    G = 9 if getattr(run, 'tier', 'quick') == 'thorough' else 5
    for L in range(G):
        for I in range(G):
            want_site = None if L == 0 else 'elementwise' if I == L else 'broadcast' if I == 1 else None
            want_leaf = 'Ok' if (L == 0 or I == L or I == 1) else 'Err'
            reached = []
            for st in sites:
                vals = [_eval_cond(c, L, I) for c in st['conds']]
                if None in vals:
                    ok = False
                    why.append('unrecognised guard %s' % sorted(st['conds']))
                    continue
                if all(vals):
                    reached.append(st['kind'])
            got_rows = []
            for cs, leaf, ef in rows:
                vals = [_eval_cond(c, L, I) for c in cs]
                if None in vals:
                    ok = False
                    why.append('unrecognised condition %s' % sorted(cs))
                    continue
                if all(vals):
                    got_rows.append('Ok' if leaf.endswith('Ok(())') else 'Err' if 'Err(' in leaf else leaf[:20])
            if reached != ([want_site] if want_site else []) or got_rows != [want_leaf]:
                ok = False
                why.append('len=%d iter=%d: writes %s (expected %s), returns %s (expected %s)'
                           % (L, I, reached, want_site, got_rows, want_leaf))
    run.ob('TL.write', fn, 'decision tree', ok, fn.loc(),
           '25 length pairs: empty -> Ok without writing; equal -> element-wise over 0..len; one item '
           '-> broadcast over 0..len; otherwise Err without writing' + ('' if ok else ' ; ' + '; '.join(why[:4])))
    return 1
