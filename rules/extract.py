"""Fact extraction: run the rustc_private driver over /repo for a feature
configuration and cache the JSON facts under /verif/.work/facts/<hash>/<config>/.

The hash covers the content of every file of /repo's working tree that can
influence compilation (all files outside target/ and .git/) plus the driver
binary, so any edit to /repo re-extracts.  Extraction is serialised by a lock
file.  Fails closed if a fact file is missing for an expected crate.
"""
import fcntl
import hashlib
import json
import os
import shutil
import subprocess
import sys
import time

VERIF = os.path.dirname(os.path.dirname(os.path.abspath(__file__)))
REPO = os.environ.get("VERIF_REPO", "/repo")
WORK = os.path.join(VERIF, ".work")
DRIVER = os.path.join(VERIF, "driver", "target", "release", "tevec-facts-driver")

CONFIGS = {
    "base": [],
    "nd": ["--features", "ndarray,vecdeque"],
    "full": ["--features", "ndarray,vecdeque,polars,fdiff,dyn"],
}
EXPECTED = {
    "base": ["tevec", "tea_core", "tea_dtype", "tea_agg", "tea_map", "tea_rolling",
             "tea_time", "tea_error", "tea_macros"],
    "nd": ["tevec", "tea_core", "tea_dtype", "tea_agg", "tea_map", "tea_rolling",
           "tea_time", "tea_error", "tea_macros"],
    "full": ["tevec", "tea_core", "tea_dtype", "tea_agg", "tea_map", "tea_rolling",
             "tea_time", "tea_error", "tea_macros", "tea_dyn"],
}


def sysroot():
    return subprocess.check_output(["rustc", "+nightly", "--print", "sysroot"],
                                   text=True).strip()


def tree_hash(root, extra=()):
    h = hashlib.sha256()
    files = []
    for dp, dn, fn in os.walk(root):
        dn[:] = sorted(d for d in dn if d not in ("target", ".git"))
        for f in sorted(fn):
            files.append(os.path.join(dp, f))
    for p in files:
        if os.path.islink(p) or not os.path.isfile(p):
            continue
        h.update(os.path.relpath(p, root).encode())
        h.update(b"\0")
        with open(p, "rb") as fh:
            h.update(fh.read())
        h.update(b"\0")
    for p in extra:
        with open(p, "rb") as fh:
            h.update(fh.read())
    return h.hexdigest()[:20]


def ensure_driver():
    if not os.path.exists(DRIVER):
        subprocess.check_call(
            ["cargo", "build", "--release", "--offline"],
            cwd=os.path.join(VERIF, "driver"),
            env=dict(os.environ, CARGO_NET_OFFLINE="true"))
    return DRIVER


def _clear_fingerprints(tgt, prefixes=("tea-", "tevec-", "tea_", "tevec_")):
    fp = os.path.join(tgt, "debug", ".fingerprint")
    if os.path.isdir(fp):
        for d in os.listdir(fp):
            if d.startswith(prefixes):
                shutil.rmtree(os.path.join(fp, d), ignore_errors=True)


def run_driver(cwd, cargo_args, roots, out_dir, config, tgt, clear_prefixes):
    os.makedirs(out_dir, exist_ok=True)
    _clear_fingerprints(tgt, clear_prefixes)
    env = dict(os.environ)
    env.update({
        "LD_LIBRARY_PATH": sysroot() + "/lib",
        "RUSTFLAGS": "-Zmir-opt-level=0 -Awarnings",
        "RUSTC_WRAPPER": DRIVER,
        "VERIF_DUMP_ROOTS": roots,
        "VERIF_FACTS_DIR": out_dir,
        "VERIF_CONFIG": config,
        "CARGO_TARGET_DIR": tgt,
        "CARGO_NET_OFFLINE": "true",
        "CARGO_INCREMENTAL": "0",
    })
    env.pop("RUSTC_WORKSPACE_WRAPPER", None)
    cmd = ["cargo", "+nightly", "check", "--offline"] + cargo_args
    p = subprocess.run(cmd, cwd=cwd, env=env, text=True,
                       stdout=subprocess.PIPE, stderr=subprocess.STDOUT)
    return p.returncode, p.stdout


def facts_dir(config, repo=None):
    """Return the directory with facts for `config`, extracting if needed."""
    repo = repo or REPO
    ensure_driver()
    os.makedirs(WORK, exist_ok=True)
    with open(os.path.join(WORK, "extract.lock"), "w") as lk:
        fcntl.flock(lk, fcntl.LOCK_EX)
        h = tree_hash(repo, extra=(DRIVER,))
        out = os.path.join(WORK, "facts", h, config)
        marker = os.path.join(out, ".complete")
        if os.path.exists(marker):
            return out
        if os.path.isdir(out):
            shutil.rmtree(out)
        tmp = out + ".tmp"
        if os.path.isdir(tmp):
            shutil.rmtree(tmp)
        tgt = os.path.join(WORK, "tgt-" + config)
        t0 = time.time()
        rc, log = run_driver(repo, ["-p", "tevec"] + CONFIGS[config], os.path.realpath(repo),
                             tmp, config, tgt, ("tea-", "tevec-"))
        if rc != 0:
            sys.stdout.write(log[-6000:])
            raise SystemExit("EXTRACT-FAILED: cargo check failed for config %s "
                             "(the tree does not compile)" % config)
        missing = [c for c in EXPECTED[config]
                   if not os.path.exists(os.path.join(tmp, c + ".json"))]
        if missing:
            sys.stdout.write(log[-3000:])
            raise SystemExit("EXTRACT-FAILED: no fact file for crates %s in config %s"
                             % (missing, config))
        with open(os.path.join(tmp, ".complete"), "w") as fh:
            json.dump({"config": config, "hash": h, "wall_s": time.time() - t0}, fh)
        os.makedirs(os.path.dirname(out), exist_ok=True)
        os.rename(tmp, out)
        _gc(os.path.join(WORK, "facts"), keep=h)
        return out


def _gc(root, keep, max_keep=4):
    """Keep the facts cache small: newest `max_keep` hashes only."""
    try:
        ds = [d for d in os.listdir(root) if d != keep]
        ds.sort(key=lambda d: os.path.getmtime(os.path.join(root, d)))
        for d in ds[:-max_keep] if len(ds) > max_keep else []:
            shutil.rmtree(os.path.join(root, d), ignore_errors=True)
    except OSError:
        pass


if __name__ == "__main__":
    for c in sys.argv[1:] or ["base"]:
        t = time.time()
        d = facts_dir(c)
        print(c, d, "%.1fs" % (time.time() - t))
