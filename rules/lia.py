"""Linear integer arithmetic by Fourier-Motzkin elimination over the rationals.

A linear form is a dict {symbol: Fraction, 1: Fraction} (key 1 = constant).  A constraint
is a linear form L meaning L >= 0.  `entails(facts, goal)` adds the integer negation of the
goal (goal <= -1) to the facts and eliminates all symbols; if the system is infeasible over
Q the goal is proved.  Feasible means "not proved" (never "disproved").

Terms with min / saturating subtraction are handled by `Term` objects that expand into case
splits (each case = extra facts + a linear form).
"""
from fractions import Fraction
from itertools import product


def lin(**kw):
    d = {}
    for k, v in kw.items():
        if k == 'c':
            d[1] = Fraction(v)
        else:
            d[k] = Fraction(v)
    return d


def L(x):
    """Coerce int / str / dict to a linear form."""
    if isinstance(x, dict):
        return {k: Fraction(v) for k, v in x.items() if v != 0}
    if isinstance(x, (int, Fraction)):
        return {1: Fraction(x)} if x != 0 else {}
    if isinstance(x, str):
        return {x: Fraction(1)}
    raise TypeError(x)


def add(a, b):
    r = dict(a)
    for k, v in b.items():
        r[k] = r.get(k, 0) + v
        if r[k] == 0:
            del r[k]
    return r


def scale(a, c):
    return {k: v * c for k, v in a.items() if v * c != 0}


def sub(a, b):
    return add(a, scale(b, -1))


def show(a):
    if not a:
        return '0'
    parts = []
    for k, v in sorted(a.items(), key=lambda kv: str(kv[0])):
        if k == 1:
            parts.append(str(v))
        elif v == 1:
            parts.append(str(k))
        elif v == -1:
            parts.append('-' + str(k))
        else:
            parts.append('%s*%s' % (v, k))
    return ' + '.join(parts).replace('+ -', '- ')


def feasible(cons):
    """Is the conjunction of `c >= 0` constraints satisfiable over Q?"""
    cons = [dict(c) for c in cons]
    syms = set()
    for c in cons:
        syms |= {k for k in c if k != 1}
    for s in sorted(syms, key=str):
        pos, neg, rest = [], [], []
        for c in cons:
            v = c.get(s, 0)
            if v > 0:
                pos.append(c)
            elif v < 0:
                neg.append(c)
            else:
                rest.append(c)
        new = rest
        for p in pos:
            for n in neg:
                # p: a*s + P >= 0 (a>0) ; n: -b*s + N >= 0 (b>0)  =>  b*P + a*N >= 0
                a_, b_ = p[s], -n[s]
                c = add(scale({k: v for k, v in p.items() if k != s}, b_),
                        scale({k: v for k, v in n.items() if k != s}, a_))
                new.append(c)
        cons = new
        if len(cons) > 4000:
            return True     # give up: "not proved"
    for c in cons:
        if c.get(1, 0) < 0 and all(k == 1 for k in c):
            return False
    return True


def entails_ge0(facts, form):
    """facts |- form >= 0 (integers)."""
    neg = add(scale(form, -1), {1: Fraction(-1)})     # form <= -1
    return not feasible(list(facts) + [neg])


def entails_eq(facts, a, b):
    d = sub(a, b)
    return entails_ge0(facts, d) and entails_ge0(facts, scale(d, -1))


def entails_le(facts, a, b):
    return entails_ge0(facts, sub(b, a))


def entails_lt(facts, a, b):
    return entails_ge0(facts, add(sub(b, a), {1: Fraction(-1)}))


# -------------------------------------------------------------- terms with min / monus

class Term:
    """A piecewise-linear term: list of (case_facts, linear_form)."""

    def __init__(self, cases):
        self.cases = cases

    @staticmethod
    def of(x):
        if isinstance(x, Term):
            return x
        return Term([([], L(x))])

    def __add__(self, o):
        o = Term.of(o)
        return Term([(f1 + f2, add(a, b)) for (f1, a), (f2, b) in product(self.cases, o.cases)])

    def __sub__(self, o):
        """exact subtraction (no saturation)"""
        o = Term.of(o)
        return Term([(f1 + f2, sub(a, b)) for (f1, a), (f2, b) in product(self.cases, o.cases)])

    def monus(self, o):
        """saturating subtraction max(a - b, 0)"""
        o = Term.of(o)
        out = []
        for (f1, a), (f2, b) in product(self.cases, o.cases):
            d = sub(a, b)
            out.append((f1 + f2 + [d], d))                                   # a >= b
            out.append((f1 + f2 + [add(scale(d, -1), {1: Fraction(-1)})], {}))  # a < b -> 0
        return Term(out)

    def min(self, o):
        o = Term.of(o)
        out = []
        for (f1, a), (f2, b) in product(self.cases, o.cases):
            d = sub(b, a)
            out.append((f1 + f2 + [d], a))                                    # a <= b
            out.append((f1 + f2 + [add(scale(d, -1), {1: Fraction(-1)})], b))  # b < a
        return Term(out)

    def max(self, o):
        o = Term.of(o)
        out = []
        for (f1, a), (f2, b) in product(self.cases, o.cases):
            d = sub(a, b)
            out.append((f1 + f2 + [d], a))
            out.append((f1 + f2 + [add(scale(d, -1), {1: Fraction(-1)})], b))
        return Term(out)

    def live_cases(self, facts):
        return [(f, a) for f, a in self.cases if feasible(list(facts) + f)]

    def show(self, facts=()):
        cs = self.live_cases(facts)
        return ' | '.join(show(a) for _, a in cs) or '⊥'


def prove_eq(facts, t1, t2):
    """facts |- t1 = t2 for piecewise terms.  Returns (ok, counter_region or None)."""
    t1, t2 = Term.of(t1), Term.of(t2)
    for (f1, a), (f2, b) in product(t1.cases, t2.cases):
        fs = list(facts) + f1 + f2
        if not feasible(fs):
            continue
        if not entails_eq(fs, a, b):
            return False, {'case': [show(x) + ' >= 0' for x in f1 + f2],
                           'lhs': show(a), 'rhs': show(b)}
    return True, None


def prove_le(facts, t1, t2, strict=False):
    t1, t2 = Term.of(t1), Term.of(t2)
    for (f1, a), (f2, b) in product(t1.cases, t2.cases):
        fs = list(facts) + f1 + f2
        if not feasible(fs):
            continue
        ok = entails_lt(fs, a, b) if strict else entails_le(fs, a, b)
        if not ok:
            return False, {'case': [show(x) + ' >= 0' for x in f1 + f2],
                           'lhs': show(a), 'rhs': show(b)}
    return True, None


if __name__ == '__main__':
    # self-test
    f = [L({'len': 1}), L({'n': 1, 1: -1}), L({'len': 1, 'n': -1, 1: -1})]   # len>=0, n>=1, len>n
    t = Term.of('n') + Term.of('len').min(Term.of('len') - Term.of('n'))
    print(prove_eq(f, t, 'len'))
    f2 = [L({'len': 1}), L({'n': 1, 1: -1})]
    t2 = Term.of('len').monus('n') + Term.of('n')
    print(prove_eq(f2, t2, 'len'))
