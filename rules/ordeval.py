"""CMP.eval - the null-last comparators evaluated on every input class.

`IsNone::sort_cmp` / `sort_cmp_rev` touch their operands only through null tests, `as_opt` and
`partial_cmp`, so their whole behaviour is a function from finitely many input classes to an
`Ordering`:

    self null? x other null? ; when both are valid: partial_cmp in {Less, Equal, Greater, None}
    and, for the incomparable case, which of the two inner values is itself a null (NaN inside
    Some(..)).

The provided method bodies are evaluated on all classes from the typed HIR (match with tuple /
Some / None patterns and guards, if / else, Option combinators, Ordering::reverse, closures) and
compared with the specification: nulls last in both directions, two nulls equal, valid values by
partial_cmp (reversed for the descending comparator), an incomparable pair orders the one that
is itself null last.  Nothing is executed; an expression outside the evaluated fragment fails the
rule (fail closed)."""
from facts import peel, strip_generics, callee_is

REV = {'Less': 'Greater', 'Greater': 'Less', 'Equal': 'Equal'}


class Unk(Exception):
    pass


def _last(p):
    return strip_generics(p or '').split('::')[-1]


class Ctx:
    def __init__(self, s_null, o_null, pc, inn_a, inn_b, self_local, other_local):
        self.s_null, self.o_null, self.pc, self.inn = s_null, o_null, pc, {'a': inn_a, 'b': inn_b}
        self.self_local, self.other_local = self_local, other_local


def classes():
    out = []
    for s in (False, True):
        for o in (False, True):
            if s or o:
                out.append((s, o, None, False, False))
                continue
            for pc in ('Less', 'Equal', 'Greater'):
                out.append((s, o, pc, False, False))
            for ia, ib in ((True, False), (False, True), (True, True)):
                out.append((s, o, None, ia, ib))
    return out


def spec(s, o, pc, ia, ib, rev):
    if s and o:
        return 'Equal'
    if s:
        return 'Greater'
    if o:
        return 'Less'
    if pc is not None:
        return REV[pc] if rev else pc
    return 'Greater' if ia else 'Less'      # the incomparable one (a null inside) goes last


def ev(e, env, cx):
    """values: ('V', which) | ('I', 'a'|'b') | ('Some', v) | ('None',) | 'Less'/'Equal'/'Greater' | bool |
    ('Tup', [..]) | ('FN', closure, env) | ('FNPATH', name)"""
    e = peel(e)
    k = e.get('k')
    if k == 'Path':
        if e.get('res') == 'local':
            if e['local'] in env:
                return env[e['local']]
            raise Unk('local %s' % e.get('name'))
        d = strip_generics(e.get('def') or '')
        if d.endswith(('Ordering::Less', 'Ordering::Equal', 'Ordering::Greater')):
            return _last(d)
        if d.endswith('::None'):
            return ('None',)
        if e.get('res') in ('AssocFn', 'Fn', 'Ctor(Variant, Fn)'):
            return ('FNPATH', '::'.join(d.split('::')[-2:]))
        raise Unk('path %s' % d)
    if k == 'Lit' and e.get('v') in ('true', 'false'):
        return e['v'] == 'true'
    if k == 'Tup':
        return ('Tup', [ev(c, env, cx) for c in e['ch']])
    if k == 'Closure':
        return ('FN', e, env)
    if k == 'Block':
        en = dict(env)
        for st in e.get('stmts', []):
            if st['k'] == 'Let' and 'init' in st:
                r = _match(st['pat'], ev(st['init'], en, cx), en)
                if r is None:
                    raise Unk('refutable let')
                en = r
            else:
                raise Unk('statement')
        if 'expr' not in e:
            raise Unk('block without value')
        return ev(e['expr'], en, cx)
    if k == 'If':
        c = peel(e['ch'][0])
        if c.get('k') == 'LetExpr':
            en = _match(c['pat'], ev(c['ch'][0], env, cx), env)
            if en is not None:
                return ev(e['ch'][1], en, cx)
            return ev(e['ch'][2], env, cx)
        b = ev(c, env, cx)
        if not isinstance(b, bool):
            raise Unk('condition')
        return ev(e['ch'][1] if b else e['ch'][2], env, cx)
    if k == 'Match':
        v = ev(e['ch'][0], env, cx)
        for arm in e.get('arms', []):
            en = _match(arm['pat'], v, env)
            if en is None:
                continue
            if arm.get('guard') is not None:
                g = ev(arm['guard'], en, cx)
                if not isinstance(g, bool):
                    raise Unk('guard')
                if not g:
                    continue
            return ev(arm['body'], en, cx)
        raise Unk('no arm matches')
    if k == 'Unary' and e.get('op') == 'Not':
        b = ev(e['ch'][0], env, cx)
        if isinstance(b, bool):
            return not b
        raise Unk('not')
    if k == 'Binary' and e.get('op') in ('And', 'Or', 'BitAnd', 'BitOr'):
        a = ev(e['ch'][0], env, cx)
        if not isinstance(a, bool):
            raise Unk('bool op')
        conj = e['op'] in ('And', 'BitAnd')
        if conj != a and e['op'] in ('And', 'Or'):
            return a
        b = ev(e['ch'][1], env, cx)
        if not isinstance(b, bool):
            raise Unk('bool op')
        return (a and b) if conj else (a or b)
    if k == 'Binary' and e.get('op') in ('Eq', 'Ne'):
        a, b = ev(e['ch'][0], env, cx), ev(e['ch'][1], env, cx)
        return (a == b) == (e['op'] == 'Eq')
    if k == 'Call':
        name = _last(e.get('callee'))
        args = [ev(a, env, cx) for a in e['ch'][1:]]
        if name == 'Some' and len(args) == 1:
            return ('Some', args[0])
        if len(args) >= 1:
            # UFCS: Trait::method(recv, args..)
            return _method(name, args[0], args[1:], cx)
        raise Unk('call %s' % name)
    if k == 'MethodCall':
        recv = ev(e['ch'][0], env, cx)
        args = [ev(a, env, cx) for a in e['ch'][1:]]
        return _method(e['method'], recv, args, cx)
    raise Unk('expression kind %s' % k)


def _inner_of(v):
    return 'a' if v[1] == 'self' else 'b'


def _method(m, r, a, cx):
    if isinstance(r, tuple) and r[0] == 'V':
        null = cx.s_null if r[1] == 'self' else cx.o_null
        if m in ('is_none',):
            return null
        if m in ('not_none',):
            return not null
        if m in ('as_opt', 'to_opt'):
            return ('None',) if null else ('Some', ('I', _inner_of(r)))
        if m in ('clone', 'borrow'):
            return r
        if m == 'partial_cmp' and a and isinstance(a[0], tuple) and a[0][0] == 'V':
            o_null = cx.s_null if a[0][1] == 'self' else cx.o_null
            if null or o_null or cx.pc is None:
                return ('None',)
            return ('Some', cx.pc if (r[1], a[0][1]) == ('self', 'other') else
                    (REV[cx.pc] if (r[1], a[0][1]) == ('other', 'self') else 'Equal'))
        if m in ('sort_cmp', 'sort_cmp_rev') and a and isinstance(a[0], tuple) and a[0][0] == 'V':
            # a comparator defined through the other one
            x = spec(cx.s_null if r[1] == 'self' else cx.o_null, cx.s_null if a[0][1] == 'self' else cx.o_null,
                     cx.pc if (r[1], a[0][1]) == ('self', 'other') else (REV[cx.pc] if cx.pc else None),
                     cx.inn[_inner_of(r)], cx.inn[_inner_of(a[0])], m == 'sort_cmp_rev')
            return x
        raise Unk('method %s on an element' % m)
    if isinstance(r, tuple) and r[0] == 'I':
        if m == 'is_none':
            return cx.inn[r[1]]
        if m == 'not_none':
            return not cx.inn[r[1]]
        if m in ('clone',):
            return r
        if m == 'partial_cmp' and a and isinstance(a[0], tuple) and a[0][0] == 'I':
            if r[1] == a[0][1]:
                return ('None',) if cx.inn[r[1]] else ('Some', 'Equal')
            if cx.pc is None:
                return ('None',)
            return ('Some', cx.pc if (r[1], a[0][1]) == ('a', 'b') else REV[cx.pc])
        raise Unk('method %s on an inner value' % m)
    if r in ('Less', 'Equal', 'Greater'):
        if m == 'reverse':
            return REV[r]
        if m in ('is_lt', 'is_le', 'is_gt', 'is_ge', 'is_eq', 'is_ne'):
            return {'is_lt': r == 'Less', 'is_le': r != 'Greater', 'is_gt': r == 'Greater', 'is_ge': r != 'Less',
                    'is_eq': r == 'Equal', 'is_ne': r != 'Equal'}[m]
        if m == 'then' and a:
            return a[0] if r == 'Equal' else r
        if m in ('clone',):
            return r
        raise Unk('method %s on an Ordering' % m)
    if isinstance(r, tuple) and r[0] in ('Some', 'None'):
        some = r[0] == 'Some'
        if m == 'unwrap_or_else':
            return r[1] if some else _apply(a[0], None, cx)
        if m == 'unwrap_or':
            return r[1] if some else a[0]
        if m in ('unwrap', 'expect'):
            if some:
                return r[1]
            raise Unk('unwrap of None (a panic on this class)')
        if m == 'map':
            return ('Some', _apply(a[0], r[1], cx)) if some else r
        if m == 'map_or':
            return _apply(a[1], r[1], cx) if some else a[0]
        if m == 'map_or_else':
            return _apply(a[1], r[1], cx) if some else _apply(a[0], None, cx)
        if m == 'and_then':
            return _apply(a[0], r[1], cx) if some else r
        if m in ('is_some', 'is_none'):
            return some == (m == 'is_some')
        if m in ('clone', 'as_ref', 'copied', 'cloned'):
            return r
        raise Unk('option method %s' % m)
    raise Unk('method %s' % m)


def _apply(f, x, cx):
    if isinstance(f, tuple) and f[0] == 'FNPATH':
        name = f[1].split('::')[-1]
        if x is None:
            raise Unk('nullary path call')
        return _method(name, x, [], cx)
    if isinstance(f, tuple) and f[0] == 'FN':
        cl, env = f[1], dict(f[2])
        ps = cl.get('params', [])
        if x is None:
            if ps:
                raise Unk('closure arity')
        else:
            if len(ps) != 1:
                raise Unk('closure arity')
            env = _match(ps[0], x, env)
            if env is None:
                raise Unk('closure pattern')
        return ev(cl['ch'][0], env, cx)
    raise Unk('callable')


def _match(pat, v, env):
    k = pat.get('k')
    if k == 'Wild':
        return dict(env)
    if k == 'Binding':
        en = dict(env)
        en[pat['local']] = v
        if pat.get('ch'):
            return _match(pat['ch'][0], v, en)
        return en
    if k in ('Ref', 'Deref'):
        return _match(pat['ch'][0], v, env)
    if k == 'Tuple':
        if not (isinstance(v, tuple) and v[0] == 'Tup' and len(v[1]) == len(pat.get('ch', []))):
            raise Unk('tuple pattern')
        en = dict(env)
        for p, x in zip(pat['ch'], v[1]):
            en = _match(p, x, en)
            if en is None:
                return None
        return en
    if k == 'Or':
        for p in pat.get('ch', []):
            en = _match(p, v, env)
            if en is not None:
                return en
        return None
    if k == 'Expr':
        pat = pat.get('e', {})
        k = pat.get('k')
    if k == 'Lit':
        lit = pat.get('v')
        if lit in ('true', 'false') and isinstance(v, bool):
            return dict(env) if v == (lit == 'true') else None
        raise Unk('literal pattern %s' % lit)
    name = _last(pat.get('def') or '')
    if k == 'TupleStruct' and name == 'Some':
        if isinstance(v, tuple) and v[0] == 'Some':
            return _match(pat['ch'][0], v[1], env)
        if isinstance(v, tuple) and v[0] == 'None':
            return None
        raise Unk('Some pattern on %r' % (v,))
    if k in ('Path', 'Struct', 'TupleStruct'):
        if name == 'None':
            if isinstance(v, tuple) and v[0] in ('Some', 'None'):
                return dict(env) if v[0] == 'None' else None
            raise Unk('None pattern')
        if name in ('Less', 'Equal', 'Greater'):
            if v in ('Less', 'Equal', 'Greater'):
                return dict(env) if v == name else None
            raise Unk('Ordering pattern')
    raise Unk('pattern %s' % k)


def evaluate(fn, rev):
    """[(class, got, want)] mismatches, or raises Unk"""
    from facts import _pat_binds
    binds = [b for p in fn.params for b in _pat_binds(p)]
    if len(binds) != 2:
        raise Unk('parameters')
    bad = []
    for s, o, pc, ia, ib in classes():
        cx = Ctx(s, o, pc, ia, ib, binds[0]['local'], binds[1]['local'])
        env = {binds[0]['local']: ('V', 'self'), binds[1]['local']: ('V', 'other')}
        got = ev(fn.hir, env, cx)
        want = spec(s, o, pc, ia, ib, rev)
        if got != want:
            bad.append(((s, o, pc, ia, ib), got, want))
    return bad


def show_class(c):
    s, o, pc, ia, ib = c
    if s or o:
        return 'self %s, other %s' % ('null' if s else 'valid', 'null' if o else 'valid')
    if pc:
        return 'both valid, partial_cmp = %s' % pc
    return 'both valid, incomparable (%s null inside)' % ('both' if ia and ib else 'self' if ia else 'other')
