"""PIN.table - small primitives and delegations whose whole behaviour is their decision table.

Each set under rules/pinned/<set>.json lists functions (by qualified path) with the decision
table read from the pinned tree and confirmed by reading the source; `why` says what the table
is.  The rule compares the function's current table with the confirmed one up to the normal
forms of dtree (renaming, negated tests with swapped branches, early returns, match / if-let,
eta, ...), so only a change of what the function returns on some path is reported.  The sets
cover what the structural rules take for granted: the NaT primitives of the time types, the
calendar field getters, the Timelike accessors, the default adaptors of Vec1View, single-line
delegations."""
import json
import os

import dtree
import nullrules as N

HERE = os.path.dirname(os.path.abspath(__file__))
RULE = ('a primitive / delegation listed in rules/pinned has the decision table that was read from '
        'the pinned tree and confirmed against the source (compared up to the normal forms of the '
        'table engine)')


def load(name):
    return json.load(open(os.path.join(HERE, 'pinned', name + '.json')))


def find(F, q):
    r = [f for f in F.fns if f.qpath == q]
    if not r:
        r = [f for f in F.fns if f.qpath.endswith(q)]
    return r


_SOME_PATH = {'k': 'Path', 'res': 'Ctor(Variant, Fn)', 'def': 'std::option::Option::Some'}
_NONE = {'k': 'Path', 'res': 'Ctor(Variant, Const)', 'def': 'std::option::Option::None'}
_fresh_id = [10 ** 6]


def _some(x):
    return {'k': 'Call', 'callee': 'std::option::Option::Some', 'callee_res': 'Ctor(Variant, Fn)',
            'ch': [_SOME_PATH, x]}


def _blk(x):
    return {'k': 'Block', 'stmts': [], 'expr': x, 'ty': x.get('ty')}


def _value(b):
    """the value expression of a statement-free block"""
    from facts import peel
    b = peel(b)
    while b.get('k') == 'Block' and not b.get('stmts') and 'expr' in b:
        b = peel(b['expr'])
    return b


def _if_some(pat, recv, then, els, ty, sp, depth=0):
    """`if let Some(pat) = recv { then } else { els }`; when recv is itself a conditional Option
    (`if c { A } else { None }`, the expansion of an inner combinator) the test is pushed into its
    branches: a `None` branch goes to `els` directly, so a chain of combinators becomes nested ifs"""
    from facts import peel
    r = _value(recv)
    if depth < 6 and r.get('k') == 'If' and len(r.get('ch', [])) == 3:
        def branch(b):
            v = _value(b)
            if v.get('k') == 'Block':
                return None
            if v.get('k') == 'Path' and str(v.get('def', '')).endswith('None'):
                return _blk(els)
            return _blk(_if_some(pat, v, then, els, ty, sp, depth + 1))
        b1, b2 = branch(r['ch'][1]), branch(r['ch'][2])
        if b1 is not None and b2 is not None:
            return {'k': 'If', 'ch': [r['ch'][0], b1, b2], 'ty': ty, 'sp': sp}
    le = {'k': 'LetExpr', 'pat': {'k': 'TupleStruct', 'def': 'std::option::Option::Some', 'ch': [pat]},
          'ch': [recv], 'ty': 'bool'}
    return {'k': 'If', 'ch': [le, _blk(then), _blk(els)], 'ty': ty, 'sp': sp}


def _apply_fn(f, ty=None):
    """(pattern, body) such that `f(x)` is `body` with `x` bound by `pattern`"""
    from facts import peel
    f = peel(f)
    if f.get('k') == 'Closure' and len(f.get('params', [])) == 1:
        return f['params'][0], f['ch'][0]
    if f.get('k') == 'Path' and f.get('res') in ('AssocFn', 'Fn', 'Ctor(Struct, Fn)', 'Ctor(Variant, Fn)'):
        _fresh_id[0] += 1
        lid = _fresh_id[0]
        pat = {'k': 'Binding', 'local': lid, 'name': 'x', 'mut': False}
        arg = {'k': 'Path', 'res': 'local', 'local': lid, 'name': 'x'}
        if f.get('has_self') and f.get('res') == 'AssocFn':
            # a path that names a method, applied: `Trait::m(x)` is `x.m()`
            return pat, {'k': 'MethodCall', 'method': f.get('def', '').split('::')[-1].split('<')[0],
                         'callee': f.get('def'), 'ch': [arg], 'targs': f.get('targs'), 'ufcs': True,
                         'sp': f.get('sp')}
        return pat, {'k': 'Call', 'callee': f.get('def'), 'callee_res': f.get('res'), 'ch': [f, arg],
                     'targs': f.get('targs')}
    return None


def _thunk(d):
    from facts import peel
    d = peel(d)
    if d.get('k') == 'Closure' and not d.get('params'):
        return d['ch'][0]
    if d.get('k') == 'Path' and d.get('res') in ('AssocFn', 'Fn'):
        return {'k': 'Call', 'callee': d.get('def'), 'callee_res': d.get('res'), 'ch': [d], 'targs': d.get('targs')}
    return None


def expand_options(e, top=True):
    """Option combinators as control flow: `o.map(f)`, `o.and_then(f)`, `o.map_or(d, f)`,
    `o.map_or_else(d, f)` become `if let Some(x) = o { .. } else { .. }`, and a top-level
    `let p = o?;` in a function returning an Option becomes `if let Some(p) = o { rest } else
    { None }`, so that a combinator chain and the match it abbreviates have one table."""
    from facts import callee_is, try_operand
    if isinstance(e, list):
        return [expand_options(x, False) for x in e]
    if not isinstance(e, dict):
        return e
    out = {k: (expand_options(v, False) if isinstance(v, (dict, list)) and k not in ('targs', 'adj', 'pat', 'params', 'captures')
               else v) for k, v in e.items()}
    k = out.get('k')
    if k == 'MethodCall' and callee_is(out, 'Option::map', 'Option::and_then', 'Option::map_or',
                                      'Option::map_or_else') and len(out['ch']) in (2, 3):
        m = out['method']
        recv = out['ch'][0]
        fa = _apply_fn(out['ch'][-1])
        if fa is not None:
            pat, body = fa
            then = body if m in ('and_then', 'map_or', 'map_or_else') else _some(body)
            if m in ('map', 'and_then'):
                els = _NONE
            elif m == 'map_or':
                els = out['ch'][1]
            else:
                els = _thunk(out['ch'][1])
            if els is not None:
                return _if_some(pat, recv, then, els, out.get('ty'), out.get('sp'))
    if k == 'Block' and top and (out.get('ty') or '').startswith('std::option::Option'):
        stmts = out.get('stmts', [])
        for i, st in enumerate(stmts):
            if st.get('k') == 'Let' and 'init' in st:
                op = try_operand(st['init'])
                if op is not None and (op.get('ty') or '').startswith('std::option::Option') and 'expr' in out:
                    rest = expand_options({'k': 'Block', 'stmts': stmts[i + 1:], 'expr': out['expr'], 'ty': out.get('ty')}, True)
                    le = {'k': 'LetExpr', 'pat': {'k': 'TupleStruct', 'def': 'std::option::Option::Some',
                                                 'ch': [st['pat']]}, 'ch': [op], 'ty': 'bool'}
                    iff = {'k': 'If', 'ch': [le, rest, _blk(_NONE)], 'ty': out.get('ty'), 'sp': out.get('sp')}
                    return {'k': 'Block', 'stmts': stmts[:i], 'expr': iff, 'ty': out.get('ty'), 'sp': out.get('sp')}
                break
    return out


def tbl(fn):
    """decision table with parameters named by position (p0, p1 ..; the receiver stays `self`)"""
    from facts import _pat_binds
    env = {}
    i = 0
    for p in fn.params:
        for b in _pat_binds(p):
            if b['name'] == 'self':
                env[b['local']] = 'self'
            else:
                env[b['local']] = 'p%d' % i
                i += 1
    return dtree.table(expand_options(fn.hir), env)


def rows_of(t):
    return sorted([sorted(cs), leaf, list(ef)] for cs, leaf, ef in t)


def check(run, F, name):
    run.rule('PIN.table', RULE)
    spec = load(name)
    n = 0
    for ent in spec['functions']:
        fs = find(F, ent['fn'])
        key = ent['fn'].split('::', 1)[-1][-90:]
        if len(fs) != 1:
            run.ob('PIN.table', 'pinned::' + name, key, False, '',
                   '%d functions match (the anchor was renamed, removed or duplicated)' % len(fs))
            continue
        fn = fs[0]
        n += 1
        t = tbl(fn)
        want = N.T(*[(r[0], r[1], r[2]) for r in ent['table']])
        # `alts`: other confirmed spellings (e.g. a predicate written through its own negation)
        ok = t == want or any(t == N.T(*[(r[0], r[1], r[2]) for r in alt]) for alt in ent.get('alts', []))
        run.ob('PIN.table', fn, key, ok, fn.loc(),
               ('table as confirmed: %s' % ent.get('why', spec.get('why', ''))) if ok else
               'table %s ; confirmed %s' % (dtree.show(t)[:300], dtree.show(want)[:300]))
    run.floor('PIN.table', 'pinned functions of set %s' % name, n, len(spec['functions']))
    return n
