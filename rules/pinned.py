"""PIN.table - small primitives and delegations whose whole behaviour is their decision table.

Each set under rules/pinned/<set>.json lists functions (by qualified path) with the decision
table read from the pinned tree and confirmed by reading the source; `why` says what the table
is.  The rule compares the function's current table with the confirmed one up to the normal
forms of dtree (renaming, negated tests with swapped branches, early returns, match / if-let,
eta, ...), so only a change of what the function returns on some path is reported.  The sets
cover what the structural rules take for granted: the NaT primitives of the time types, the
calendar field getters, the Timelike accessors, the default adaptors of Vec1View, single-line
delegations."""
import json
import os

import dtree
import nullrules as N

HERE = os.path.dirname(os.path.abspath(__file__))
RULE = ('a primitive / delegation listed in rules/pinned has the decision table that was read from '
        'the pinned tree and confirmed against the source (compared up to the normal forms of the '
        'table engine)')


def load(name):
    return json.load(open(os.path.join(HERE, 'pinned', name + '.json')))


def find(F, q):
    r = [f for f in F.fns if f.qpath == q]
    if not r:
        r = [f for f in F.fns if f.qpath.endswith(q)]
    return r


def rows_of(t):
    return sorted([sorted(cs), leaf, list(ef)] for cs, leaf, ef in t)


def check(run, F, name):
    run.rule('PIN.table', RULE)
    spec = load(name)
    n = 0
    for ent in spec['functions']:
        fs = find(F, ent['fn'])
        key = ent['fn'].split('::', 1)[-1][-90:]
        if len(fs) != 1:
            run.ob('PIN.table', 'pinned::' + name, key, False, '',
                   '%d functions match (the anchor was renamed, removed or duplicated)' % len(fs))
            continue
        fn = fs[0]
        n += 1
        t = N.tbl(fn)
        want = N.T(*[(r[0], r[1], r[2]) for r in ent['table']])
        ok = t == want
        run.ob('PIN.table', fn, key, ok, fn.loc(),
               ('table as confirmed: %s' % ent.get('why', spec.get('why', ''))) if ok else
               'table %s ; confirmed %s' % (dtree.show(t)[:300], dtree.show(want)[:300]))
    run.floor('PIN.table', 'pinned functions of set %s' % name, n, len(spec['functions']))
    return n
