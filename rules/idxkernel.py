"""IDX.kernel: unchecked reads inside closures given to the window-index drivers."""
import lia
from lia import L, add, sub, scale, feasible
import seq as S
import seqrules
from facts import src, loc, _pat_binds, walk, callee_is, peel

RULES = {
    'IDX.kernel': 'inside a window-index kernel every unchecked read uses an index proved to lie '
                  'in [0, end] from the driver contract start <= end < len: in bounds and no '
                  'look-ahead',
    'IDX.kernel.custom': 'a window-slice kernel reads only the slice it is given (captures no '
                         'data view)',
}


class _ClosureFn:
    def __init__(self, fn, closure):
        self.hir = closure['ch'][0]
        self.qpath = fn.qpath
        self.params = closure['params']


def check_idx_kernel(run, m):
    """m: KernelModel of an *_idx kernel."""
    fn = m.k.fn
    cl = m.cl
    ev = S.Evaluator(_ClosureFn(fn, cl))
    W = S.World()
    ps = cl['params']
    from facts import walk, peel
    # reads of the series other than by index (`self.titer()`, `self.slice(..)`, ..): their extent is
    # not tied to the output position at all
    # the series are the enclosing function's view parameters (by local id, not by name)
    series = {b['local'] for p_ in fn.params for b in _pat_binds(p_)
              if b['name'] == 'self' or 'Vec1View' in (b.get('ty') or '') or b['name'] == 'other'}
    nonidx = [x for x in walk(cl['ch'][0]) if x.get('k') == 'MethodCall' and
              peel(x['ch'][0]).get('k') == 'Path' and peel(x['ch'][0]).get('local') in series and
              x['method'] not in ('uget', 'len', 'get', 'vget', 'uvget')]
    for x in nonidx:
        run.ob('IDX.kernel', fn, 'non-indexed read %s' % S._clean(src(x))[:60], False, loc(x),
               'a window-index kernel reads the series through `%s`, which is not bounded by the end index'
               % x['method'])
    if not _pat_binds(ps[0]) or not _pat_binds(ps[1]):
        run.ob('IDX.kernel', fn, 'start / end index parameters are used', False, loc(cl),
               'the kernel ignores its %s parameter: its reads cannot be bounded by the output position'
               % ('end index' if not _pat_binds(ps[1]) else 'start index'))
        return len(nonidx) + 1
    b_start = _pat_binds(ps[0])[0]
    b_end = _pat_binds(ps[1])[0]
    end = 'end#%d' % b_end['local']
    st = 'startv#%d' % b_start['local']
    W.facts += [L('len(self)'), L(end), add(sub(L('len(self)'), L(end)), L(-1)),
                L(st), sub(L(end), L(st))]
    W.ints[b_end['local']] = L(end)
    W.opts[b_start['local']] = L(st)
    ev.run_fn(W)
    per = {}
    for kind, node, W1, forms, recv, lp in ev.accesses:
        if kind != 'uget':
            continue
        fs = seqrules.facts_of(ev, W1)
        i = forms[0]
        ok = i is not None and lia.entails_ge0(fs, i) and lia.entails_le(fs, i, L(end))
        k = id(node)
        if k not in per or (per[k][1] and not ok):
            per[k] = (node, ok, i)
    # fail closed: an unchecked read the evaluator never reached is not proved
    for x in walk(cl['ch'][0]):
        if x.get('k') == 'MethodCall' and callee_is(x, 'Vec1View::uget', 'Vec1View::uvget') and id(x) not in per:
            per[id(x)] = (x, False, None)
    for node, ok, i in per.values():
        run.ob('IDX.kernel', fn, S._clean(src(node)), ok, loc(node),
               'index %s %s [0, end]' % (S._clean(lia.show(i)) if i is not None else 'non-linear',
                                        'proved in' if ok else 'NOT proved in'))
    return len(per)
