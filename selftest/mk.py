#!/usr/bin/env python3
"""mk.py <name> <props> <rule-substr> <file> <old> <new> [count]
Create selftest/patches/<name>.diff by replacing the `count`-th (default 1st, 1-based)
occurrence of <old> with <new> in /repo/<file> (the working tree is restored)."""
import json
import os
import subprocess
import sys

name, props, rule, file, old, new = sys.argv[1:7]
nth = int(sys.argv[7]) if len(sys.argv) > 7 else 1
REPO = '/repo'
here = os.path.dirname(os.path.abspath(__file__))
p = os.path.join(REPO, file)
s = open(p).read()
idx = -1
for _ in range(nth):
    idx = s.find(old, idx + 1)
    if idx < 0:
        sys.exit('pattern not found (occurrence %d): %r' % (nth, old))
t = s[:idx] + new + s[idx + len(old):]
open(p, 'w').write(t)
try:
    diff = subprocess.run(['git', '-C', REPO, 'diff', '--', file], capture_output=True, text=True).stdout
finally:
    open(p, 'w').write(s)
open(os.path.join(here, 'patches', name + '.diff'), 'w').write(diff)
meta_p = os.path.join(here, 'patches', 'meta.json')
meta = json.load(open(meta_p)) if os.path.exists(meta_p) else {}
meta[name] = {'props': props.split(','), 'rule': rule, 'file': file}
json.dump(meta, open(meta_p, 'w'), indent=1, sort_keys=True)
print('wrote', name, len(diff.splitlines()), 'lines')
