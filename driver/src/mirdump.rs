// MIR -> JSON (blocks, statements, terminators, asserts, resolved callees).
use crate::json::J;
use crate::{defstr, spanstr, tystr};
use rustc_middle::mir::{self, AssertKind, Operand, Rvalue, StatementKind, TerminatorKind};
use rustc_middle::ty::{self, TyCtxt};
use rustc_span::def_id::LocalDefId;

fn kv(k: &str, v: J) -> (String, J) {
    (k.to_string(), v)
}

fn dbg<T: std::fmt::Debug>(x: &T) -> String {
    ty::print::with_no_trimmed_paths!(format!("{:?}", x))
}

fn op<'tcx>(o: &Operand<'tcx>) -> J {
    J::s(dbg(o))
}

fn bb(b: mir::BasicBlock) -> J {
    J::Num(b.as_usize() as i64)
}

fn assert_kind<'tcx>(m: &AssertKind<Operand<'tcx>>) -> (String, Vec<J>) {
    match m {
        AssertKind::BoundsCheck { len, index } => ("BoundsCheck".into(), vec![op(len), op(index)]),
        AssertKind::Overflow(o, a, b) => (format!("Overflow({:?})", o), vec![op(a), op(b)]),
        AssertKind::OverflowNeg(a) => ("OverflowNeg".into(), vec![op(a)]),
        AssertKind::DivisionByZero(a) => ("DivisionByZero".into(), vec![op(a)]),
        AssertKind::RemainderByZero(a) => ("RemainderByZero".into(), vec![op(a)]),
        other => (format!("{:?}", other).split('(').next().unwrap_or("Other").to_string(), vec![]),
    }
}

pub fn dump_body<'tcx>(tcx: TyCtxt<'tcx>, ldid: LocalDefId) -> J {
    let did = ldid.to_def_id();
    if !tcx.is_mir_available(did) {
        return J::Null;
    }
    let body: &mir::Body<'tcx> = tcx.optimized_mir(did);
    let env = ty::TypingEnv::post_analysis(tcx, did);

    // locals
    let mut names: Vec<Option<String>> = vec![None; body.local_decls.len()];
    for vdi in &body.var_debug_info {
        if let mir::VarDebugInfoContents::Place(p) = &vdi.value {
            if p.projection.is_empty() {
                names[p.local.as_usize()] = Some(vdi.name.to_string());
            }
        }
    }
    let locals: Vec<J> = body
        .local_decls
        .iter_enumerated()
        .map(|(l, d)| {
            let mut o = vec![
                kv("id", J::s(format!("_{}", l.as_usize()))),
                kv("ty", J::s(tystr(d.ty))),
            ];
            if let Some(n) = &names[l.as_usize()] {
                o.push(kv("name", J::s(n.clone())));
            }
            J::Obj(o)
        })
        .collect();

    let mut blocks: Vec<J> = Vec::new();
    for (_b, data) in body.basic_blocks.iter_enumerated() {
        let mut stmts: Vec<J> = Vec::new();
        for st in &data.statements {
            match &st.kind {
                StatementKind::Assign(bx) => {
                    let (place, rv) = &**bx;
                    let mut o = vec![kv("k", J::s("Assign")), kv("lhs", J::s(dbg(place)))];
                    let mut want_span = false;
                    let rvj = match rv {
                        Rvalue::Use(a, _) => J::Obj(vec![kv("k", J::s("Use")), kv("a", op(a))]),
                        Rvalue::BinaryOp(bop, ab) => {
                            want_span = true;
                            let lty = ab.0.ty(&body.local_decls, tcx);
                            J::Obj(vec![
                                kv("k", J::s("BinaryOp")),
                                kv("op", J::s(format!("{:?}", bop))),
                                kv("a", op(&ab.0)),
                                kv("b", op(&ab.1)),
                                kv("ty", J::s(tystr(lty))),
                            ])
                        }
                        Rvalue::UnaryOp(uop, a) => {
                            want_span = true;
                            J::Obj(vec![
                                kv("k", J::s("UnaryOp")),
                                kv("op", J::s(format!("{:?}", uop))),
                                kv("a", op(a)),
                            ])
                        }
                        Rvalue::Cast(ck, a, t) => {
                            want_span = true;
                            let from = a.ty(&body.local_decls, tcx);
                            J::Obj(vec![
                                kv("k", J::s("Cast")),
                                kv("ck", J::s(format!("{:?}", ck))),
                                kv("a", op(a)),
                                kv("from", J::s(tystr(from))),
                                kv("ty", J::s(tystr(*t))),
                            ])
                        }
                        Rvalue::Ref(_, bk, p) => J::Obj(vec![
                            kv("k", J::s("Ref")),
                            kv("bk", J::s(format!("{:?}", bk))),
                            kv("p", J::s(dbg(p))),
                        ]),
                        Rvalue::RawPtr(_, p) => {
                            J::Obj(vec![kv("k", J::s("RawPtr")), kv("p", J::s(dbg(p)))])
                        }
                        Rvalue::Discriminant(p) => {
                            J::Obj(vec![kv("k", J::s("Discriminant")), kv("p", J::s(dbg(p)))])
                        }
                        Rvalue::Aggregate(ak, ops) => J::Obj(vec![
                            kv("k", J::s("Aggregate")),
                            kv("ak", J::s(dbg(ak))),
                            kv("ops", J::Arr(ops.iter().map(op).collect())),
                        ]),
                        Rvalue::CopyForDeref(p) => {
                            J::Obj(vec![kv("k", J::s("CopyForDeref")), kv("p", J::s(dbg(p)))])
                        }
                        other => J::Obj(vec![kv("k", J::s("Other")), kv("s", J::s(dbg(other)))]),
                    };
                    o.push(kv("rv", rvj));
                    if want_span {
                        o.push(kv("sp", J::s(spanstr(tcx, st.source_info.span))));
                        if st.source_info.span.from_expansion() {
                            o.push(kv("exp", J::Bool(true)));
                        }
                    }
                    stmts.push(J::Obj(o));
                }
                StatementKind::SetDiscriminant { place, variant_index } => {
                    stmts.push(J::Obj(vec![
                        kv("k", J::s("SetDiscriminant")),
                        kv("lhs", J::s(dbg(place))),
                        kv("variant", J::Num(variant_index.as_usize() as i64)),
                    ]));
                }
                StatementKind::Intrinsic(i) => {
                    stmts.push(J::Obj(vec![kv("k", J::s("Intrinsic")), kv("s", J::s(dbg(i)))]));
                }
                _ => {}
            }
        }
        let term = data.terminator();
        let mut t = vec![
            kv("sp", J::s(spanstr(tcx, term.source_info.span))),
        ];
        if term.source_info.span.from_expansion() {
            t.push(kv("exp", J::Bool(true)));
            t.push(kv(
                "csp",
                J::s(spanstr(tcx, term.source_info.span.source_callsite())),
            ));
        }
        match &term.kind {
            TerminatorKind::Goto { target } => {
                t.push(kv("k", J::s("Goto")));
                t.push(kv("targets", J::Arr(vec![bb(*target)])));
            }
            TerminatorKind::SwitchInt { discr, targets } => {
                t.push(kv("k", J::s("SwitchInt")));
                t.push(kv("discr", op(discr)));
                let dty = discr.ty(&body.local_decls, tcx);
                t.push(kv("discr_ty", J::s(tystr(dty))));
                let mut vals = Vec::new();
                let mut tg = Vec::new();
                for (v, b) in targets.iter() {
                    vals.push(J::s(v.to_string()));
                    tg.push(bb(b));
                }
                tg.push(bb(targets.otherwise()));
                t.push(kv("values", J::Arr(vals)));
                t.push(kv("targets", J::Arr(tg)));
            }
            TerminatorKind::Return => t.push(kv("k", J::s("Return"))),
            TerminatorKind::Unreachable => t.push(kv("k", J::s("Unreachable"))),
            TerminatorKind::UnwindResume => t.push(kv("k", J::s("UnwindResume"))),
            TerminatorKind::UnwindTerminate(_) => t.push(kv("k", J::s("UnwindTerminate"))),
            TerminatorKind::Drop { place, target, .. } => {
                t.push(kv("k", J::s("Drop")));
                t.push(kv("place", J::s(dbg(place))));
                t.push(kv("targets", J::Arr(vec![bb(*target)])));
            }
            TerminatorKind::Call { func, args, destination, target, fn_span, .. } => {
                t.push(kv("k", J::s("Call")));
                t.push(kv("fn_sp", J::s(spanstr(tcx, *fn_span))));
                if let Some((cdid, cargs)) = func.const_fn_def() {
                    t.push(kv("callee", J::s(defstr(tcx, cdid))));
                    let v: Vec<J> = cargs.iter().map(|a| J::s(dbg(&a))).collect();
                    t.push(kv("targs", J::Arr(v)));
                    if tcx.trait_of_assoc(cdid).is_some() {
                        let ea = tcx.erase_and_anonymize_regions(cargs);
                        if let Ok(Some(inst)) = ty::Instance::try_resolve(tcx, env, cdid, ea) {
                            if inst.def_id() != cdid {
                                t.push(kv("resolved", J::s(defstr(tcx, inst.def_id()))));
                            }
                        }
                    }
                } else {
                    t.push(kv("callee", J::Null));
                    t.push(kv("func", op(func)));
                    let fty = func.ty(&body.local_decls, tcx);
                    t.push(kv("func_ty", J::s(tystr(fty))));
                }
                t.push(kv("args", J::Arr(args.iter().map(|a| op(&a.node)).collect())));
                t.push(kv("dest", J::s(dbg(destination))));
                t.push(kv(
                    "targets",
                    J::Arr(target.iter().map(|b| bb(*b)).collect()),
                ));
            }
            TerminatorKind::TailCall { func, .. } => {
                t.push(kv("k", J::s("TailCall")));
                t.push(kv("func", op(func)));
            }
            TerminatorKind::Assert { cond, expected, msg, target, .. } => {
                t.push(kv("k", J::s("Assert")));
                t.push(kv("cond", op(cond)));
                t.push(kv("expected", J::Bool(*expected)));
                let (name, ops) = assert_kind(msg);
                t.push(kv("assert", J::s(name)));
                t.push(kv("ops", J::Arr(ops)));
                t.push(kv("targets", J::Arr(vec![bb(*target)])));
            }
            TerminatorKind::FalseEdge { real_target, .. } => {
                t.push(kv("k", J::s("Goto")));
                t.push(kv("targets", J::Arr(vec![bb(*real_target)])));
            }
            TerminatorKind::FalseUnwind { real_target, .. } => {
                t.push(kv("k", J::s("Goto")));
                t.push(kv("targets", J::Arr(vec![bb(*real_target)])));
            }
            other => {
                t.push(kv("k", J::s("Other")));
                t.push(kv("s", J::s(dbg(other))));
            }
        }
        blocks.push(J::Obj(vec![
            kv("stmts", J::Arr(stmts)),
            kv("term", J::Obj(t)),
            kv("cleanup", J::Bool(data.is_cleanup)),
        ]));
    }
    J::Obj(vec![
        kv("locals", J::Arr(locals)),
        kv("blocks", J::Arr(blocks)),
        kv("arg_count", J::Num(body.arg_count as i64)),
    ])
}
