// Fact extractor for the tevec static checks.
//
// A rustc driver (rustc_private) used as RUSTC_WRAPPER under
// `cargo +nightly check`.  For every crate whose main source file lies under
// one of the roots named in VERIF_DUMP_ROOTS (':'-separated absolute
// directory prefixes) it writes one JSON file
//     $VERIF_FACTS_DIR/<crate_name>.json
// containing: trait impls, functions with typed HIR trees (closures inlined)
// and MIR (blocks / terminators / asserts / resolved callees), and evaluated
// integer constants.  All other crates compile unmodified.
#![feature(rustc_private)]
#![allow(clippy::all)]

extern crate rustc_abi;
extern crate rustc_ast;
extern crate rustc_driver;
extern crate rustc_hir;
extern crate rustc_interface;
extern crate rustc_middle;
extern crate rustc_span;

mod json;
mod hirdump;
mod mirdump;

use json::J;
use rustc_driver::Compilation;
use rustc_hir as hir;
use rustc_hir::def::DefKind;
use rustc_interface::interface::Compiler;
use rustc_middle::ty::{self, TyCtxt};
use rustc_span::def_id::LOCAL_CRATE;

pub fn tystr<'tcx>(t: ty::Ty<'tcx>) -> String {
    ty::print::with_no_trimmed_paths!(format!("{}", t))
}

pub fn defstr(tcx: TyCtxt<'_>, did: rustc_span::def_id::DefId) -> String {
    ty::print::with_no_trimmed_paths!(tcx.def_path_str(did))
}

pub fn spanstr(tcx: TyCtxt<'_>, sp: rustc_span::Span) -> String {
    let sm = tcx.sess.source_map();
    let lo = sm.lookup_char_pos(sp.lo());
    let hi = sm.lookup_char_pos(sp.hi());
    let name = format!("{}", lo.file.name.prefer_local_unconditionally());
    format!("{}:{}:{}-{}:{}", name, lo.line, lo.col.0 + 1, hi.line, hi.col.0 + 1)
}

struct Cb;

impl rustc_driver::Callbacks for Cb {
    fn after_analysis<'tcx>(&mut self, _c: &Compiler, tcx: TyCtxt<'tcx>) -> Compilation {
        let roots = std::env::var("VERIF_DUMP_ROOTS").unwrap_or_default();
        let out_dir = match std::env::var("VERIF_FACTS_DIR") {
            Ok(d) => d,
            Err(_) => return Compilation::Continue,
        };
        let krate = tcx.crate_name(LOCAL_CRATE).to_string();
        // main source file
        let sm = tcx.sess.source_map();
        let root_span = tcx.def_span(rustc_span::def_id::CRATE_DEF_ID);
        let file = sm.lookup_char_pos(root_span.lo()).file;
        let fname = format!("{}", file.name.prefer_local_unconditionally());
        let abs = std::fs::canonicalize(&fname)
            .map(|p| p.display().to_string())
            .unwrap_or(fname.clone());
        if !roots.split(':').any(|r| !r.is_empty() && abs.starts_with(r)) {
            return Compilation::Continue;
        }
        if krate == "build_script_build" {
            return Compilation::Continue;
        }
        // is this a test harness / bench build? skip (cargo check does not build those)
        let mut fns: Vec<J> = Vec::new();
        let mut impls: Vec<J> = Vec::new();
        let mut consts: Vec<J> = Vec::new();

        // impls
        for id in tcx.hir_free_items() {
            let item = tcx.hir_item(id);
            if let hir::ItemKind::Impl(imp) = &item.kind {
                let did = item.owner_id.to_def_id();
                let self_ty = tcx.type_of(did).instantiate_identity().skip_norm_wip();
                let mut o = vec![
                    ("self_ty".to_string(), J::s(tystr(self_ty))),
                    ("path".to_string(), J::s(defstr(tcx, did))),
                    ("span".to_string(), J::s(spanstr(tcx, item.span))),
                    ("exp".to_string(), J::Bool(item.span.from_expansion())),
                    (
                        "callsite".to_string(),
                        J::s(spanstr(tcx, item.span.source_callsite())),
                    ),
                ];
                if let Some(of_trait) = imp.of_trait {
                    let tr = tcx.impl_trait_ref(did).instantiate_identity().skip_norm_wip();
                    o.push(("trait".to_string(), J::s(defstr(tcx, tr.def_id))));
                    o.push((
                        "trait_ref".to_string(),
                        J::s(ty::print::with_no_trimmed_paths!(format!("{}", tr))),
                    ));
                    let is_unsafe = matches!(of_trait.safety, hir::Safety::Unsafe);
                    o.push(("unsafe".to_string(), J::Bool(is_unsafe)));
                } else {
                    o.push(("trait".to_string(), J::Null));
                }
                let items: Vec<J> = tcx
                    .associated_items(did)
                    .in_definition_order()
                    .filter_map(|ai| ai.opt_name().map(|n| J::s(n.to_string())))
                    .collect();
                o.push(("items".to_string(), J::Arr(items)));
                impls.push(J::Obj(o));
            }
        }

        // bodies
        for ldid in tcx.hir_body_owners() {
            let did = ldid.to_def_id();
            let kind = tcx.def_kind(did);
            match kind {
                DefKind::Fn | DefKind::AssocFn => {
                    let mut o = vec![
                        ("path".to_string(), J::s(defstr(tcx, did))),
                        ("kind".to_string(), J::s(format!("{:?}", kind))),
                        ("span".to_string(), J::s(spanstr(tcx, tcx.def_span(did)))),
                        (
                            "exp".to_string(),
                            J::Bool(tcx.def_span(did).from_expansion()),
                        ),
                        (
                            "callsite".to_string(),
                            J::s(spanstr(tcx, tcx.def_span(did).source_callsite())),
                        ),
                        ("name".to_string(), J::s(tcx.item_name(did).to_string())),
                    ];
                    let sig = tcx.fn_sig(did).instantiate_identity().skip_norm_wip();
                    o.push((
                        "unsafe".to_string(),
                        J::Bool(matches!(sig.safety(), hir::Safety::Unsafe)),
                    ));
                    o.push((
                        "sig".to_string(),
                        J::s(ty::print::with_no_trimmed_paths!(format!("{}", sig))),
                    ));
                    o.push((
                        "vis".to_string(),
                        J::s(format!("{:?}", tcx.visibility(did))),
                    ));
                    // container
                    if kind == DefKind::AssocFn {
                        let parent = tcx.parent(did);
                        match tcx.def_kind(parent) {
                            DefKind::Impl { of_trait } => {
                                o.push(("container".to_string(), J::s("impl")));
                                let st = tcx.type_of(parent).instantiate_identity().skip_norm_wip();
                                o.push(("impl_self".to_string(), J::s(tystr(st))));
                                if of_trait {
                                    let tr =
                                        tcx.impl_trait_ref(parent).instantiate_identity().skip_norm_wip();
                                    o.push((
                                        "impl_trait".to_string(),
                                        J::s(defstr(tcx, tr.def_id)),
                                    ));
                                    o.push((
                                        "impl_trait_ref".to_string(),
                                        J::s(ty::print::with_no_trimmed_paths!(format!(
                                            "{}",
                                            tr
                                        ))),
                                    ));
                                }
                            }
                            DefKind::Trait => {
                                o.push(("container".to_string(), J::s("trait")));
                                o.push(("trait".to_string(), J::s(defstr(tcx, parent))));
                            }
                            _ => {}
                        }
                    }
                    let body = tcx.hir_body_owned_by(ldid);
                    let tr = tcx.typeck(ldid);
                    let mut d = hirdump::Dumper { tcx, tr, owner: ldid };
                    let params: Vec<J> = body.params.iter().map(|p| d.pat(p.pat)).collect();
                    o.push(("params".to_string(), J::Arr(params)));
                    o.push(("hir".to_string(), d.expr(body.value)));
                    o.push(("mir".to_string(), mirdump::dump_body(tcx, ldid)));
                    fns.push(J::Obj(o));
                }
                DefKind::Closure => {
                    // HIR is inlined in the parent; MIR separately.
                    let o = vec![
                        ("path".to_string(), J::s(defstr(tcx, did))),
                        ("kind".to_string(), J::s("Closure")),
                        ("span".to_string(), J::s(spanstr(tcx, tcx.def_span(did)))),
                        (
                            "exp".to_string(),
                            J::Bool(tcx.def_span(did).from_expansion()),
                        ),
                        (
                            "parent".to_string(),
                            J::s(defstr(tcx, tcx.typeck_root_def_id(did))),
                        ),
                        ("mir".to_string(), mirdump::dump_body(tcx, ldid)),
                    ];
                    fns.push(J::Obj(o));
                }
                DefKind::Const { .. } | DefKind::AssocConst { .. } => {
                    let mut o = vec![
                        ("path".to_string(), J::s(defstr(tcx, did))),
                        ("span".to_string(), J::s(spanstr(tcx, tcx.def_span(did)))),
                    ];
                    let t = tcx.type_of(did).instantiate_identity().skip_norm_wip();
                    o.push(("ty".to_string(), J::s(tystr(t))));
                    // evaluate when non-generic
                    if tcx.generics_of(did).is_empty()
                        && tcx.generics_of(did).parent.map_or(true, |p| {
                            tcx.generics_of(p).is_empty()
                        })
                    {
                        if let Ok(v) = tcx.const_eval_poly(did) {
                            if let Some(s) = v.try_to_scalar_int() {
                                let size = s.size();
                                let bits = s.to_bits(size);
                                let val = if t.is_signed() {
                                    size.sign_extend(bits).to_string()
                                } else {
                                    bits.to_string()
                                };
                                o.push(("value".to_string(), J::s(val)));
                            }
                        }
                    }
                    let body = tcx.hir_body_owned_by(ldid);
                    let tr = tcx.typeck(ldid);
                    let mut d = hirdump::Dumper { tcx, tr, owner: ldid };
                    o.push(("hir".to_string(), d.expr(body.value)));
                    consts.push(J::Obj(o));
                }
                _ => {}
            }
        }

        let top = J::Obj(vec![
            ("crate".to_string(), J::s(krate.clone())),
            ("src".to_string(), J::s(abs)),
            (
                "config".to_string(),
                J::s(std::env::var("VERIF_CONFIG").unwrap_or_default()),
            ),
            ("impls".to_string(), J::Arr(impls)),
            ("fns".to_string(), J::Arr(fns)),
            ("consts".to_string(), J::Arr(consts)),
        ]);
        let mut s = String::new();
        top.write(&mut s);
        let path = format!("{}/{}.json", out_dir, krate);
        let tmp = format!("{}.tmp{}", path, std::process::id());
        std::fs::write(&tmp, s).expect("write facts");
        std::fs::rename(&tmp, &path).expect("rename facts");
        Compilation::Continue
    }
}

fn main() -> std::process::ExitCode {
    let mut args: Vec<String> = std::env::args().collect();
    // RUSTC_WRAPPER: argv[1] is the path of the real rustc
    args.remove(1);
    rustc_driver::catch_with_exit_code(|| {
        rustc_driver::run_compiler(&args, &mut Cb);
    })
}
