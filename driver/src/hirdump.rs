// Typed HIR -> JSON.
use crate::json::J;
use crate::{defstr, spanstr, tystr};
use rustc_hir as hir;
use rustc_hir::def::Res;
use rustc_middle::ty::{self, TyCtxt, TypeVisitableExt};
use rustc_span::def_id::LocalDefId;

pub struct Dumper<'tcx> {
    pub tcx: TyCtxt<'tcx>,
    pub tr: &'tcx ty::TypeckResults<'tcx>,
    pub owner: LocalDefId,
}

fn kv(k: &str, v: J) -> (String, J) {
    (k.to_string(), v)
}

impl<'tcx> Dumper<'tcx> {
    fn base(&self, k: &str, e: &hir::Expr<'tcx>) -> Vec<(String, J)> {
        let mut o = vec![kv("k", J::s(k))];
        if let Some(t) = self.tr.expr_ty_opt(e) {
            o.push(kv("ty", J::s(tystr(t))));
        }
        o.push(kv("sp", J::s(spanstr(self.tcx, e.span))));
        if e.span.from_expansion() {
            o.push(kv("exp", J::Bool(true)));
            o.push(kv("csp", J::s(spanstr(self.tcx, e.span.source_callsite()))));
        }
        o.push(kv("id", J::Num(e.hir_id.local_id.as_u32() as i64)));
        o
    }

    fn qpath(&self, qp: &hir::QPath<'tcx>, id: hir::HirId, o: &mut Vec<(String, J)>) {
        let res = self.tr.qpath_res(qp, id);
        match res {
            Res::Local(hid) => {
                o.push(kv("res", J::s("local")));
                o.push(kv("local", J::Num(hid.local_id.as_u32() as i64)));
                o.push(kv("name", J::s(self.tcx.hir_name(hid).to_string())));
            }
            Res::Def(kind, did) => {
                o.push(kv("res", J::s(format!("{:?}", kind))));
                o.push(kv("def", J::s(defstr(self.tcx, did))));
                if matches!(kind, rustc_hir::def::DefKind::AssocFn)
                    && self.tcx.associated_item(did).is_method()
                {
                    // a method named by path (`Trait::m(recv, ..)`): same call as `recv.m(..)`
                    o.push(kv("has_self", J::Bool(true)));
                }
                if let Some(args) = self.tr.node_args_opt(id) {
                    let v: Vec<J> = args
                        .iter()
                        .map(|a| J::s(ty::print::with_no_trimmed_paths!(format!("{}", a))))
                        .collect();
                    o.push(kv("targs", J::Arr(v)));
                    self.resolve(did, args, o);
                }
            }
            Res::SelfCtor(_) => {
                o.push(kv("res", J::s("SelfCtor")));
            }
            other => {
                o.push(kv("res", J::s(format!("{:?}", other))));
            }
        }
    }

    fn resolve(&self, did: rustc_span::def_id::DefId, args: ty::GenericArgsRef<'tcx>, o: &mut Vec<(String, J)>) {
        use rustc_hir::def::DefKind;
        if !matches!(self.tcx.def_kind(did), DefKind::AssocFn) {
            return;
        }
        if self.tcx.trait_of_assoc(did).is_none() {
            return;
        }
        if args.has_non_region_infer() || args.has_escaping_bound_vars() {
            return;
        }
        let env = ty::TypingEnv::post_analysis(self.tcx, self.owner);
        let args = self.tcx.erase_and_anonymize_regions(args);
        if let Ok(Some(inst)) = ty::Instance::try_resolve(self.tcx, env, did, args) {
            let rd = inst.def_id();
            if rd != did {
                o.push(kv("resolved", J::s(defstr(self.tcx, rd))));
            }
        }
    }

    pub fn pat(&mut self, p: &hir::Pat<'tcx>) -> J {
        use hir::PatKind::*;
        let mut o: Vec<(String, J)> = Vec::new();
        match &p.kind {
            Wild => o.push(kv("k", J::s("Wild"))),
            Missing => o.push(kv("k", J::s("Missing"))),
            Binding(mode, hid, ident, sub) => {
                o.push(kv("k", J::s("Binding")));
                o.push(kv("local", J::Num(hid.local_id.as_u32() as i64)));
                o.push(kv("name", J::s(ident.name.to_string())));
                o.push(kv("mut", J::Bool(matches!(mode.1, hir::Mutability::Mut))));
                o.push(kv("byref", J::Bool(!matches!(mode.0, hir::ByRef::No))));
                if let Some(s) = sub {
                    o.push(kv("sub", self.pat(s)));
                }
            }
            Struct(qp, fields, _) => {
                o.push(kv("k", J::s("Struct")));
                self.qpath(qp, p.hir_id, &mut o);
                let fs: Vec<J> = fields
                    .iter()
                    .map(|f| {
                        J::Obj(vec![
                            kv("field", J::s(f.ident.name.to_string())),
                            kv("pat", self.pat(f.pat)),
                        ])
                    })
                    .collect();
                o.push(kv("fields", J::Arr(fs)));
            }
            TupleStruct(qp, pats, _) => {
                o.push(kv("k", J::s("TupleStruct")));
                self.qpath(qp, p.hir_id, &mut o);
                let ps: Vec<J> = pats.iter().map(|x| self.pat(x)).collect();
                o.push(kv("ch", J::Arr(ps)));
            }
            Or(pats) => {
                o.push(kv("k", J::s("Or")));
                let ps: Vec<J> = pats.iter().map(|x| self.pat(x)).collect();
                o.push(kv("ch", J::Arr(ps)));
            }
            Tuple(pats, _) => {
                o.push(kv("k", J::s("Tuple")));
                let ps: Vec<J> = pats.iter().map(|x| self.pat(x)).collect();
                o.push(kv("ch", J::Arr(ps)));
            }
            Box(x) | Deref(x) => {
                o.push(kv("k", J::s("Deref")));
                o.push(kv("ch", J::Arr(vec![self.pat(x)])));
            }
            Ref(x, _, _) => {
                o.push(kv("k", J::s("Ref")));
                o.push(kv("ch", J::Arr(vec![self.pat(x)])));
            }
            Expr(pe) => {
                o.push(kv("k", J::s("Expr")));
                o.push(kv("e", self.pat_expr(pe)));
            }
            Guard(x, g) => {
                o.push(kv("k", J::s("Guard")));
                o.push(kv("ch", J::Arr(vec![self.pat(x)])));
                o.push(kv("guard", self.expr(g)));
            }
            Range(a, b, end) => {
                o.push(kv("k", J::s("Range")));
                o.push(kv("lo", a.map_or(J::Null, |x| self.pat_expr(x))));
                o.push(kv("hi", b.map_or(J::Null, |x| self.pat_expr(x))));
                o.push(kv("end", J::s(format!("{:?}", end))));
            }
            Slice(a, m, b) => {
                o.push(kv("k", J::s("Slice")));
                let mut ps: Vec<J> = a.iter().map(|x| self.pat(x)).collect();
                if let Some(m) = m {
                    ps.push(self.pat(m));
                }
                ps.extend(b.iter().map(|x| self.pat(x)));
                o.push(kv("ch", J::Arr(ps)));
            }
            Never => o.push(kv("k", J::s("Never"))),
            Err(_) => o.push(kv("k", J::s("Err"))),
        }
        if let Some(t) = self.tr.node_type_opt(p.hir_id) {
            o.push(kv("ty", J::s(tystr(t))));
        }
        J::Obj(o)
    }

    fn pat_expr(&mut self, pe: &hir::PatExpr<'tcx>) -> J {
        match &pe.kind {
            hir::PatExprKind::Lit { lit, negated } => J::Obj(vec![
                kv("k", J::s("Lit")),
                kv("v", J::s(lit_str(lit))),
                kv("neg", J::Bool(*negated)),
            ]),
            hir::PatExprKind::Path(qp) => {
                let mut o = vec![kv("k", J::s("Path"))];
                self.qpath(qp, pe.hir_id, &mut o);
                J::Obj(o)
            }
        }
    }

    fn block(&mut self, b: &hir::Block<'tcx>) -> Vec<(String, J)> {
        let mut stmts = Vec::new();
        for s in b.stmts {
            match &s.kind {
                hir::StmtKind::Let(l) => {
                    let mut o = vec![kv("k", J::s("Let")), kv("pat", self.pat(l.pat))];
                    o.push(kv("sp", J::s(spanstr(self.tcx, s.span))));
                    if let Some(i) = l.init {
                        o.push(kv("init", self.expr(i)));
                    }
                    if let Some(e) = l.els {
                        let mut bo = vec![kv("k", J::s("Block"))];
                        bo.extend(self.block(e));
                        o.push(kv("els", J::Obj(bo)));
                    }
                    stmts.push(J::Obj(o));
                }
                hir::StmtKind::Item(_) => {
                    stmts.push(J::Obj(vec![kv("k", J::s("Item"))]));
                }
                hir::StmtKind::Expr(e) => {
                    stmts.push(J::Obj(vec![kv("k", J::s("Expr")), kv("e", self.expr(e))]));
                }
                hir::StmtKind::Semi(e) => {
                    stmts.push(J::Obj(vec![kv("k", J::s("Semi")), kv("e", self.expr(e))]));
                }
            }
        }
        let mut o = vec![kv("stmts", J::Arr(stmts))];
        if let Some(e) = b.expr {
            o.push(kv("expr", self.expr(e)));
        }
        if matches!(b.rules, hir::BlockCheckMode::UnsafeBlock(_)) {
            o.push(kv("unsafe", J::Bool(true)));
        }
        o
    }

    pub fn expr(&mut self, e: &hir::Expr<'tcx>) -> J {
        use hir::ExprKind::*;
        match &e.kind {
            DropTemps(x) | Use(x, _) => return self.expr(x),
            _ => {}
        }
        let mut o;
        match &e.kind {
            ConstBlock(_) => {
                o = self.base("ConstBlock", e);
            }
            Array(xs) => {
                o = self.base("Array", e);
                o.push(kv("ch", J::Arr(xs.iter().map(|x| self.expr(x)).collect())));
            }
            Call(f, args) => {
                o = self.base("Call", e);
                // callee path
                if let Path(qp) = &f.kind {
                    let mut fo = Vec::new();
                    self.qpath(qp, f.hir_id, &mut fo);
                    for (k, v) in fo {
                        match k.as_str() {
                            "def" => o.push(kv("callee", v)),
                            "res" => o.push(kv("callee_res", v)),
                            "local" => o.push(kv("callee_local", v)),
                            "name" => o.push(kv("callee_name", v)),
                            _ => o.push((k, v)),
                        }
                    }
                } else {
                    // overloaded call through FnOnce etc.
                    if let Some(did) = self.tr.type_dependent_def_id(e.hir_id) {
                        o.push(kv("callee", J::s(defstr(self.tcx, did))));
                    }
                }
                let mut ch = vec![self.expr(f)];
                ch.extend(args.iter().map(|x| self.expr(x)));
                o.push(kv("ch", J::Arr(ch)));
            }
            MethodCall(seg, recv, args, _) => {
                o = self.base("MethodCall", e);
                o.push(kv("method", J::s(seg.ident.name.to_string())));
                if let Some(did) = self.tr.type_dependent_def_id(e.hir_id) {
                    o.push(kv("callee", J::s(defstr(self.tcx, did))));
                    if let Some(args) = self.tr.node_args_opt(e.hir_id) {
                        let v: Vec<J> = args
                            .iter()
                            .map(|a| J::s(ty::print::with_no_trimmed_paths!(format!("{}", a))))
                            .collect();
                        o.push(kv("targs", J::Arr(v)));
                        self.resolve(did, args, &mut o);
                    }
                }
                o.push(kv("recv_ty", J::s(tystr(self.tr.expr_ty_adjusted(recv)))));
                let mut ch = vec![self.expr(recv)];
                ch.extend(args.iter().map(|x| self.expr(x)));
                o.push(kv("ch", J::Arr(ch)));
            }
            Tup(xs) => {
                o = self.base("Tup", e);
                o.push(kv("ch", J::Arr(xs.iter().map(|x| self.expr(x)).collect())));
            }
            Binary(op, a, b) => {
                o = self.base("Binary", e);
                o.push(kv("op", J::s(format!("{:?}", op.node))));
                if let Some(did) = self.tr.type_dependent_def_id(e.hir_id) {
                    o.push(kv("callee", J::s(defstr(self.tcx, did))));
                }
                o.push(kv("ch", J::Arr(vec![self.expr(a), self.expr(b)])));
            }
            Unary(op, a) => {
                o = self.base("Unary", e);
                o.push(kv("op", J::s(format!("{:?}", op))));
                if let Some(did) = self.tr.type_dependent_def_id(e.hir_id) {
                    o.push(kv("callee", J::s(defstr(self.tcx, did))));
                }
                o.push(kv("ch", J::Arr(vec![self.expr(a)])));
            }
            Lit(l) => {
                o = self.base("Lit", e);
                o.push(kv("v", J::s(lit_str(l))));
            }
            Cast(x, _) => {
                o = self.base("Cast", e);
                o.push(kv("ch", J::Arr(vec![self.expr(x)])));
            }
            Type(x, _) => {
                o = self.base("Type", e);
                o.push(kv("ch", J::Arr(vec![self.expr(x)])));
            }
            Let(l) => {
                o = self.base("LetExpr", e);
                o.push(kv("pat", self.pat(l.pat)));
                o.push(kv("ch", J::Arr(vec![self.expr(l.init)])));
            }
            If(c, t, el) => {
                o = self.base("If", e);
                let mut ch = vec![self.expr(c), self.expr(t)];
                if let Some(el) = el {
                    ch.push(self.expr(el));
                }
                o.push(kv("ch", J::Arr(ch)));
            }
            Loop(b, _, src, _) => {
                o = self.base("Loop", e);
                o.push(kv("src", J::s(format!("{:?}", src))));
                let mut bo = vec![kv("k", J::s("Block"))];
                bo.extend(self.block(b));
                o.push(kv("ch", J::Arr(vec![J::Obj(bo)])));
            }
            Match(scrut, arms, src) => {
                o = self.base("Match", e);
                o.push(kv("src", J::s(format!("{:?}", src))));
                let arms_j: Vec<J> = arms
                    .iter()
                    .map(|a| {
                        let mut ao = vec![kv("pat", self.pat(a.pat))];
                        if let Some(g) = a.guard {
                            ao.push(kv("guard", self.expr(g)));
                        }
                        ao.push(kv("body", self.expr(a.body)));
                        J::Obj(ao)
                    })
                    .collect();
                o.push(kv("ch", J::Arr(vec![self.expr(scrut)])));
                o.push(kv("arms", J::Arr(arms_j)));
            }
            Closure(c) => {
                o = self.base("Closure", e);
                let body = self.tcx.hir_body(c.body);
                let params: Vec<J> = body.params.iter().map(|p| self.pat(p.pat)).collect();
                o.push(kv("params", J::Arr(params)));
                o.push(kv("def", J::s(defstr(self.tcx, c.def_id.to_def_id()))));
                o.push(kv(
                    "move",
                    J::Bool(matches!(c.capture_clause, hir::CaptureBy::Value { .. })),
                ));
                // closure kind + captures
                let cty = self.tr.expr_ty(e);
                if let ty::Closure(_, cargs) = cty.kind() {
                    let ck = cargs.as_closure().kind();
                    o.push(kv("closure_kind", J::s(format!("{:?}", ck))));
                }
                let caps: Vec<J> = self
                    .tr
                    .closure_min_captures_flattened(c.def_id)
                    .map(|cp| {
                        let name = cp.to_string(self.tcx);
                        let hid = cp.get_root_variable();
                        J::Obj(vec![
                            kv("local", J::Num(hid.local_id.as_u32() as i64)),
                            kv("place", J::s(name)),
                            kv("by", J::s(format!("{:?}", cp.info.capture_kind))),
                        ])
                    })
                    .collect();
                o.push(kv("captures", J::Arr(caps)));
                o.push(kv("ch", J::Arr(vec![self.expr(body.value)])));
            }
            Block(b, _) => {
                o = self.base("Block", e);
                o.extend(self.block(b));
            }
            Assign(a, b, _) => {
                o = self.base("Assign", e);
                o.push(kv("ch", J::Arr(vec![self.expr(a), self.expr(b)])));
            }
            AssignOp(op, a, b) => {
                o = self.base("AssignOp", e);
                o.push(kv("op", J::s(format!("{:?}", op.node))));
                if let Some(did) = self.tr.type_dependent_def_id(e.hir_id) {
                    o.push(kv("callee", J::s(defstr(self.tcx, did))));
                }
                o.push(kv("ch", J::Arr(vec![self.expr(a), self.expr(b)])));
            }
            Field(x, ident) => {
                o = self.base("Field", e);
                o.push(kv("field", J::s(ident.name.to_string())));
                o.push(kv("ch", J::Arr(vec![self.expr(x)])));
            }
            Index(a, b, _) => {
                o = self.base("Index", e);
                if let Some(did) = self.tr.type_dependent_def_id(e.hir_id) {
                    o.push(kv("callee", J::s(defstr(self.tcx, did))));
                }
                o.push(kv("ch", J::Arr(vec![self.expr(a), self.expr(b)])));
            }
            Path(qp) => {
                o = self.base("Path", e);
                self.qpath(qp, e.hir_id, &mut o);
            }
            AddrOf(_, m, x) => {
                o = self.base("AddrOf", e);
                o.push(kv("mut", J::Bool(matches!(m, hir::Mutability::Mut))));
                o.push(kv("ch", J::Arr(vec![self.expr(x)])));
            }
            Break(_, x) => {
                o = self.base("Break", e);
                o.push(kv(
                    "ch",
                    J::Arr(x.iter().map(|x| self.expr(x)).collect()),
                ));
            }
            Continue(_) => {
                o = self.base("Continue", e);
            }
            Ret(x) => {
                o = self.base("Ret", e);
                o.push(kv(
                    "ch",
                    J::Arr(x.iter().map(|x| self.expr(x)).collect()),
                ));
            }
            Struct(qp, fields, tail) => {
                o = self.base("Struct", e);
                self.qpath(qp, e.hir_id, &mut o);
                let fs: Vec<J> = fields
                    .iter()
                    .map(|f| {
                        J::Obj(vec![
                            kv("field", J::s(f.ident.name.to_string())),
                            kv("e", self.expr(f.expr)),
                        ])
                    })
                    .collect();
                o.push(kv("fields", J::Arr(fs)));
                if let hir::StructTailExpr::Base(b) = tail {
                    o.push(kv("base", self.expr(b)));
                }
            }
            Repeat(x, _) => {
                o = self.base("Repeat", e);
                o.push(kv("ch", J::Arr(vec![self.expr(x)])));
            }
            Become(x) => {
                o = self.base("Become", e);
                o.push(kv("ch", J::Arr(vec![self.expr(x)])));
            }
            Yield(x, _) => {
                o = self.base("Yield", e);
                o.push(kv("ch", J::Arr(vec![self.expr(x)])));
            }
            InlineAsm(_) => o = self.base("InlineAsm", e),
            OffsetOf(..) => o = self.base("OffsetOf", e),
            UnsafeBinderCast(_, x, _) => {
                o = self.base("UnsafeBinderCast", e);
                o.push(kv("ch", J::Arr(vec![self.expr(x)])));
            }
            Err(_) => o = self.base("Err", e),
            DropTemps(_) | Use(..) => unreachable!(),
        }
        // adjustments that call user code (overloaded deref) are rare here; record auto-deref count
        let adj = self.tr.expr_adjustments(e);
        if !adj.is_empty() {
            let v: Vec<J> = adj.iter().map(|a| J::s(format!("{:?}", a.kind))).collect();
            o.push(kv("adj", J::Arr(v)));
        }
        J::Obj(o)
    }
}

fn lit_str(l: &hir::Lit) -> String {
    use rustc_ast::LitKind::*;
    match &l.node {
        Str(s, _) => format!("str:{}", s),
        Int(v, _) => format!("{}", v),
        Float(s, _) => format!("{}", s),
        Bool(b) => format!("{}", b),
        Char(c) => format!("char:{}", c),
        Byte(b) => format!("byte:{}", b),
        other => format!("{:?}", other),
    }
}
