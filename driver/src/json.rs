// Minimal JSON value + writer (no dependencies).
pub enum J {
    Null,
    Bool(bool),
    Num(i64),
    Str(String),
    Arr(Vec<J>),
    Obj(Vec<(String, J)>),
}

impl J {
    pub fn s<S: Into<String>>(s: S) -> J {
        J::Str(s.into())
    }
    pub fn write(&self, out: &mut String) {
        match self {
            J::Null => out.push_str("null"),
            J::Bool(b) => out.push_str(if *b { "true" } else { "false" }),
            J::Num(n) => out.push_str(&n.to_string()),
            J::Str(s) => esc(s, out),
            J::Arr(v) => {
                out.push('[');
                for (i, x) in v.iter().enumerate() {
                    if i > 0 {
                        out.push(',');
                    }
                    x.write(out);
                }
                out.push(']');
            }
            J::Obj(v) => {
                out.push('{');
                for (i, (k, x)) in v.iter().enumerate() {
                    if i > 0 {
                        out.push(',');
                    }
                    esc(k, out);
                    out.push(':');
                    x.write(out);
                }
                out.push('}');
            }
        }
    }
}

fn esc(s: &str, out: &mut String) {
    out.push('"');
    for c in s.chars() {
        match c {
            '"' => out.push_str("\\\""),
            '\\' => out.push_str("\\\\"),
            '\n' => out.push_str("\\n"),
            '\r' => out.push_str("\\r"),
            '\t' => out.push_str("\\t"),
            c if (c as u32) < 0x20 => out.push_str(&format!("\\u{:04x}", c as u32)),
            c => out.push(c),
        }
    }
    out.push('"');
}
